#!/bin/bash
# verify_seed.sh <prop> <n>: confirm a sub-agent's seeded change in a scratch worktree and file it under /verif/seeded
# optional: SRC=<dir holding patch_N.diff ...> OUTN=<number under which it is filed>
p=$1; n=$2
src=${SRC:-/tmp/seed_out/$p}
outn=${OUTN:-$n}
wt=/tmp/sv/${p}_$outn
out=/verif/seeded/${p}-$outn
[ -f $src/patch_$n.diff ] || { echo "$p-$n: no patch"; exit 1; }
mkdir -p /tmp/sv; rm -rf $wt
git -C /repo worktree add -q --detach $wt HEAD || exit 2
cd $wt
git apply $src/patch_$n.diff || { echo "$p-$n: patch does not apply"; git -C /repo worktree remove --force $wt; exit 3; }
PYTHONPATH=$wt/src timeout 1800 /venv/bin/python -m pytest -q -p no:cacheprovider --timeout=900 > /tmp/sv/${p}_$outn.suite.log 2>&1
suite_rc=$?
passed=$(grep -aE '^[.sxFE]+ +\[' /tmp/sv/${p}_$outn.suite.log | tr -d '\n' | tr -cd '.' | wc -c)
sumline=$(grep -aE "passed|failed" /tmp/sv/${p}_$outn.suite.log | tail -1)
mkdir -p /tmp/sv/${p}_$outn.run1 && cd /tmp/sv/${p}_$outn.run1
PYTHONPATH=$wt/src timeout 900 /venv/bin/python $src/demo_$n.py > /tmp/sv/${p}_$outn.demo_with.log 2>/dev/null; with_rc=$?
cd $wt; git checkout -q -- . 
mkdir -p /tmp/sv/${p}_$outn.run2 && cd /tmp/sv/${p}_$outn.run2
PYTHONPATH=$wt/src timeout 900 /venv/bin/python $src/demo_$n.py > /tmp/sv/${p}_$outn.demo_without.log 2>/dev/null; without_rc=$?
cd /; rm -rf /tmp/sv/${p}_$outn.run1 /tmp/sv/${p}_$outn.run2
git -C /repo worktree remove --force $wt
ok=0; [ $suite_rc -eq 0 ] && [ $with_rc -eq 1 ] && [ $without_rc -eq 0 ] && ok=1
echo "$p-$outn: suite_rc=$suite_rc ($sumline) demo_with=$with_rc demo_without=$without_rc => confirmed=$ok"
if [ $ok -eq 1 ]; then
  mkdir -p $out
  cp $src/patch_$n.diff $out/patch.diff; cp $src/demo_$n.py $out/demo.py; cp $src/notes_$n.md $out/notes.md 2>/dev/null
  python3 - "$p" "$outn" "$sumline" <<'PY'
import json,sys,os
p,n,sumline=sys.argv[1:4]
out='/verif/seeded/%s-%s'%(p,n)
notes=open(out+'/notes.md').read() if os.path.exists(out+'/notes.md') else ''
meta={"property":p,"source":"independent sub-agent given only the property text and a scratch worktree","needs_to_manifest":notes.split('\n\n')[0][:1500],
 "confirmed":{"suite_with_change":sumline,"demo_with_change_exit":1,"demo_without_change_exit":0,
 "commands":["git worktree add --detach /tmp/sv/%s_%s HEAD; git apply patch.diff"%(p,n),"PYTHONPATH=<wt>/src /venv/bin/python -m pytest -q -p no:cacheprovider --timeout=900","PYTHONPATH=<wt>/src /venv/bin/python demo.py  (from an empty directory)"]},
 "detected_by":[]}
json.dump(meta,open(out+'/meta.json','w'),indent=1)
PY
fi
