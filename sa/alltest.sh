#!/bin/bash
# usage: alltest.sh <diff> : all 20 checks on a scratch copy with the diff applied; prints which fire (rc=1) and which end in rc=2
pf=$1
tag=$(echo "$pf" | tr '/.' '__')
d=/tmp/rt/$tag
rm -rf $d $d.ev; mkdir -p $d $d.ev
cp -r /repo/src $d/
(cd $d && patch -s -p1 < "$pf") || { echo "$pf: patch does not apply"; rm -rf $d $d.ev; exit 9; }
fired=""; errs=""
for p in C01 C02 C03 C04 C05 C06 C07 C08 C09 C10 C11 C12 C13 C14 C15 C16 C17 C18 C19 C20; do
  out=$(cd /verif && BLDFM_REPO=$d VERIF_EVIDENCE_DIR=$d.ev timeout 900 python3 sa/check.py $p 2>&1); rc=$?
  [ $rc -eq 1 ] && fired="$fired $p"
  [ $rc -ge 2 ] && errs="$errs $p"
done
echo "$pf: fired=[$fired ] rc2=[$errs ]"
rm -rf $d $d.ev
