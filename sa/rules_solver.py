"""Rules over the abstract runs of the transport solver (C01-C07, C10, C11).

Everything here compares *normal forms produced by interpreting /repo's current
source* with specification normal forms written from the governing mathematics
(S-PDE, S-SIG).  Quantities are located semantically (the transform that
produces the returned field, the loop whose carried state is stored per level,
the initial state of the second auxiliary problem ...), never by identifier.
"""

import math
from fractions import Fraction as Q

import alg
from alg import Expr, ZERO, ONE, IMAG, as_expr
import interp
from interp import Arr, SymArr, Tup, Unknown, BOT, psum, IOTA, phi_atom, Facts
from front import AnalysisError
from solver_model import run_solver, SolverInputs
from report import Ob, eq_ob, req_ob

PI = lambda: alg.atom_expr(alg.PI)


def atom_of(x):
    cm = x.as_mono()
    if cm is None or cm[0] != alg.C1 or len(cm[1]) != 1 or cm[1][0][1] != 1:
        raise AnalysisError("expected a single atom, got %r" % (x,))
    return cm[1][0][0]


class SolverAnalysis:
    def __init__(self, P):
        self.P = P
        self.runs = {}
        self.nruns = 0
        self.faults = []

    def run(self, footprint, analytic, ctx="generic", halo=None, precision=None, levels_kind=None, cache=None, stubs=None):
        # a parameter the rule does not fix takes the call style of the current sweep (thorough tier: DEFAULT_STYLE varies)
        halo = halo or DEFAULT_STYLE["halo"]
        precision = precision or DEFAULT_STYLE["precision"]
        levels_kind = levels_kind or DEFAULT_STYLE["levels_kind"]
        key = (footprint, analytic, ctx, halo, precision, levels_kind, cache is not None)
        if key not in self.runs:
            S, res = run_solver(self.P, footprint=footprint, analytic=analytic, halo=halo, precision=precision,
                                ctx=ctx, levels_kind=levels_kind, cache=cache, stubs=stubs)
            self.runs[key] = (S, res)
            self.nruns += len(res)
        return self.runs[key]

    def returns(self, *a, **k):
        S, res = self.run(*a, **k)
        for r in res:
            if r.kind == "fault" and r.raise_desc not in self.faults:
                self.faults.append(r.raise_desc)
        return S, [r for r in res if r.kind == "return"]

    def fault_obs(self, rule="R-WELLDEF"):
        """a path that divides by an identically zero quantity is a definite defect; so is a solver that raises on every path
        although every test on the way was decided (no admissible argument gets an answer)"""
        site = "src/bldfm/solver.py::steady_state_transport_solver"
        out = []
        for key, (S, res) in self.runs.items():
            if key[4] not in ("single", "double"):
                continue  # a run made to see that an inadmissible precision is rejected
            if res and all(r.kind == "raise" for r in res) and not any(d[0].startswith("unknown test") for r in res for d in r.path):
                out.append(req_ob(rule, site, "the solver returns for admissible arguments", False,
                                  detail="every path raises (footprint=%s analytic=%s %s mode): %s" % (key[0], key[1], key[2], "; ".join(sorted({str(r.raise_desc)[:80] for r in res}))[:240]), key={"clause": "returns"}))
                break
        if not self.faults:
            return out + [req_ob(rule, site, "no path divides by an identically zero quantity", True, nontrivial=False)]
        return out + [req_ob(rule, site, "no path divides by an identically zero quantity", False, detail=f) for f in self.faults]


# --------------------------------------------------------------------------
# locating things in a path result


class PathView:
    """Semantic handles on one return path of the solver."""

    def __init__(self, S, r):
        self.S, self.r = S, r
        v = r.value
        if not (isinstance(v, Tup) and len(v.items) == 3 and isinstance(v.items[0], Tup) and len(v.items[0].items) == 3):
            raise AnalysisError("solver does not return ((X, Y, Z), conc, flx)")
        self.X, self.Y, self.Z = v.items[0].items
        self.conc, self.flx = v.items[1], v.items[2]
        for nm in ("X", "Y", "Z", "conc", "flx"):
            if not isinstance(getattr(self, nm), Arr):
                raise AnalysisError("returned %s is not an array: %r" % (nm, getattr(self, nm)))
        self.fields = {}
        for nm in ("conc", "flx"):
            a = getattr(self, nm)
            f = a.meta.get("field")
            if not f or "synth" not in f:
                raise AnalysisError("returned %s is not the crop of a transformed spectrum" % nm)
            self.fields[nm] = f
        sy = self.fields["flx"]["synth"]
        self.Ny, self.Nx = sy["N"]
        self.py, self.px = self.fields["flx"]["crop"]
        kept = sy.get("kept")
        self.nly_eff, self.nlx_eff = kept if kept else (self.Ny, self.Nx)
        self.dx = S.xmx / S.nx
        self.dy = S.ymx / S.ny

    def coeff(self, nm):
        c = self.fields[nm]["synth"]["coeff"]
        if not isinstance(c, Expr):
            return c
        return c.expand()

    def wavenumbers(self):
        if self.r.ctx == "mean":
            return ZERO, ZERO
        kx = alg.fn("fftidx", self.nlx_eff, integer=True)
        ky = alg.fn("fftidx", self.nly_eff, integer=True)
        lx = 2 * PI() * kx / (self.dx * self.Nx)
        ly = 2 * PI() * ky / (self.dy * self.Ny)
        return lx, ly

    def possible(self, e):
        return self.r.facts.possible(e.expand() if isinstance(e, Expr) else e)

    def shifted(self):
        S = self.S
        if self.possible(S.xm * S.xm + S.ym * S.ym) <= {"+"}:
            return True
        # the same case distinction written per coordinate (xm != 0 or ym != 0)
        if "0" not in self.possible(S.xm) or "0" not in self.possible(S.ym):
            return True
        # ... or on some function of the tower position that the code computes first (it is then judged by R-PHASE)
        pos_atoms = {atom_of(S.xm), atom_of(S.ym)}
        for e, op, d in getattr(self.r, "constraints", []):
            if pos_atoms & set(e.atoms()):
                nonzero = (op in (">", "<", "!=") and d) or (op == "==" and not d)
                if nonzero:
                    return True
        return False

    def clamp_state(self):
        """(x exceeds?, y exceeds?) as decided on this path: True/False/None"""
        S = self.S
        out = []
        for n, N in ((S.nlx, self.Nx), (S.nly, self.Ny)):
            p = self.possible(n - N)
            out.append(True if p <= {"+"} else False if p <= {"-", "0"} else None)
        return tuple(out)

    def ivp_loops(self):
        return [L for L in self.r.loops if L.kind == "linear" and len(L.state) == 2]

    def mean_loops(self):
        return [L for L in self.r.loops if L.kind == "accumulate" and len(L.state) == 1]

    def site(self, what):
        return "src/bldfm/solver.py::steady_state_transport_solver::%s" % what


class NoPath(AnalysisError):
    pass


def zero_atoms(r):
    """atoms that the path established to be zero (a decided `x == 0` / `not x != 0` on a single-term quantity)"""
    out = set()
    for ent in r.facts.signs:
        if not ent[1] <= {"0"}:
            continue
        e = ent[0].expand()
        if len(e.n) != 1:
            continue
        (mono, c), = e.n.items()
        # a factor that occurs with a negative power (a denominator) or is flagged positive cannot be the vanishing one
        cand = [a for a, p in mono if not a.pos and a.kind != "base" and not (isinstance(p, int) and p < 0)]
        if len(cand) == 1:
            out.add(cand[0])
    return out


def special_atoms(r, tower):
    """input quantities other than the tower position (or a function of it: a position reduced into the domain) that the path
    established to be zero"""
    def of_tower(a):
        return a in tower or any(isinstance(x, Expr) and (tower & set(x.atoms())) for x in (a.args or ()))

    return {a for a in zero_atoms(r) if not of_tower(a)}


def views(SA, footprint, analytic, ctx="generic", **kw):
    S, rets = SA.returns(footprint, analytic, ctx=ctx, **kw)
    # a path that rests on a test the interpreter could not model (it explored both outcomes blindly) is no basis for a
    # verdict: the rules are evaluated on the other paths only, and if none is left the property is not decided
    solid = [r for r in rets if not any(d[0].startswith("unknown test") for d in r.path)]
    if rets and not solid:
        raise NoPath("every returning path of the solver rests on a test that is not modelled (%s) (footprint=%s analytic=%s ctx=%s)" % (
            next(d[0] for r in rets for d in r.path if d[0].startswith("unknown test"))[:80], footprint, analytic, ctx))
    rets = solid
    # a path on which the code established that an input quantity vanishes (an all-zero source, a zero mean flux) covers a
    # special case only: the rules are evaluated on the general paths, and R-PATHS compares each special-case path with its
    # general sibling under that fact (props_solver.path_uniformity)
    tower = {atom_of(S.xm), atom_of(S.ym)}  # (the tower at the origin is a case the rules ask for themselves: shifted=False)
    general = [r for r in rets if not special_atoms(r, tower)]
    if general:
        rets = general
    if not rets:
        raise NoPath("no returning path of the solver (footprint=%s analytic=%s ctx=%s)%s" % (
            footprint, analytic, ctx, "; faults: " + "; ".join(SA.faults) if SA.faults else ""))
    return S, [PathView(S, r) for r in rets]


DEFAULT_STYLE = {"halo": "given", "precision": "double", "levels_kind": "array"}  # how the solver is called where a rule does not say
DEFAULT_CLAMP = (False, False)  # the thorough tier re-evaluates every rule for each clamp outcome


def pick(vs, clamp="default", shifted=None):
    if clamp == "default":
        clamp = DEFAULT_CLAMP
    out = []
    for v in vs:
        if clamp is not None and v.clamp_state() != clamp:
            continue
        if shifted is not None and v.shifted() != shifted:
            continue
        v.r._used = True  # a rule was (or may be) evaluated on this case: see props_solver.path_uniformity
        out.append(v)
    return out


# --------------------------------------------------------------------------
# S-PDE pieces


def symbol_T(S, lx, ly, idx):
    """T = -(Kx lx^2 + Ky ly^2) - i (u lx + v ly) at node idx"""
    return -(S.Kx.at(idx) * lx * lx + S.Ky.at(idx) * ly * ly) - IMAG * (S.u.at(idx) * lx + S.v.at(idx) * ly)


def top_index(S):
    return S.nz - ONE


def eigen_spec(S, lx, ly):
    """lambda with lambda^2 = -T_top/Kz_top (principal root: Re >= 0)"""
    t = top_index(S)
    lam2 = -symbol_T(S, lx, ly, t) / S.Kz.at(t)
    return alg.sqrt(lam2), lam2


def mat_mul(A, B):
    return [[A[0][0] * B[0][0] + A[0][1] * B[1][0], A[0][0] * B[0][1] + A[0][1] * B[1][1]],
            [A[1][0] * B[0][0] + A[1][1] * B[1][0], A[1][0] * B[0][1] + A[1][1] * B[1][1]]]


def exp_series(M, delta, order):
    """coefficients [k][r][c] of exp(M*delta) up to delta^order"""
    out = [[[ONE, ZERO], [ZERO, ONE]]]
    Pk = [[ONE, ZERO], [ZERO, ONE]]
    f = 1
    for k in range(1, order + 1):
        Pk = mat_mul(Pk, M)
        f *= k
        out.append([[Pk[r][c] / f for c in range(2)] for r in range(2)])
    return out


# --------------------------------------------------------------------------
# R-STEP: the one-step scheme against exp(M dz)


def step_obligations(v, order, rule, uniform, fname="ivp_solver"):
    """Layer matrix of the sweep vs the exact propagator series.
    uniform=True: profiles constant across the layer (C05, orders 0..3, exact);
    uniform=False: C01 -- orders 0, 1; any in-layer sampling of the coefficients
    is accepted (the first-order term must reduce to M when the coefficients of
    the two bounding nodes coincide)."""
    S = v.S
    obs = []
    loops = v.ivp_loops()
    site = "src/bldfm/solver.py::%s::vertical sweep" % fname
    if not loops:
        return [req_ob(rule, site, "a sweep whose carried 2-vector is updated linearly per layer exists", None,
                       detail="no linear two-state loop found on the numerical path")]
    sigs = {L.sig for L in loops}
    L = loops[0]
    i = L.rng.start + alg.atom_expr(L.ivar) * L.rng.step
    obs.append(eq_ob(rule, site, "sweep starts at the surface node", L.rng.start, ZERO, "S-PDE: q(z0) is prescribed at node 0"))
    obs.append(eq_ob(rule, site, "sweep advances one node per iteration", L.rng.step, ONE))
    obs.append(eq_ob(rule, site, "sweep crosses layers 0..nz-2 exactly once", L.rng.count, S.nz - ONE, "len(z)-1 layers"))
    delta = alg.sym("delta_z", pos=True)
    d_at = atom_of(delta)
    zmap = {atom_of(S.z.at(i + ONE)): S.z.at(i) + delta}
    umap = {}
    for X in (S.u, S.v, S.Kx, S.Ky, S.Kz):
        umap[atom_of(X.at(i + ONE))] = X.at(i)
    lx, ly = v.wavenumbers()
    Ti = symbol_T(S, lx, ly, i)
    Mspec = [[ZERO, -ONE / S.Kz.at(i)], [Ti, ZERO]]
    series = exp_series(Mspec, delta, order)
    names = {(0, 0): "(p<-p)", (0, 1): "(p<-q)", (1, 0): "(q<-p)", (1, 1): "(q<-q)"}
    best = None
    for perm in ((0, 1), (1, 0)):
        st = [L.state[perm[0]], L.state[perm[1]]]
        cand = []
        for r in range(2):
            for c in range(2):
                ent = L.matrix[(st[r], st[c])]
                if not isinstance(ent, Expr):
                    cand.append(req_ob(rule, site, "layer matrix entry %s is algebraic" % names[(r, c)], None, detail=repr(ent)))
                    continue
                e = ent.expand().subs(zmap)
                if uniform:
                    e = e.subs(umap)
                pw = e.powers_of(d_at)
                if any((not isinstance(p, int)) or p < 0 for p in pw):
                    cand.append(req_ob(rule, site, "layer matrix entry %s is a polynomial in the layer thickness z[i+1]-z[i]" % names[(r, c)], False,
                                       detail="powers of dz: %r" % sorted(map(str, pw))))
                    continue
                for k in range(order + 1):
                    code_k = e.coeff_of(d_at, k)
                    if not uniform and k >= 1:
                        code_k = code_k.subs(umap)
                    cand.append(eq_ob(rule, site, "layer matrix entry %s, coefficient of dz^%d" % (names[(r, c)], k), code_k, series[k][r][c],
                                      "S-PDE: exp(M dz), M=[[0,-1/Kz],[T,0]], T=-(Kx lx^2+Ky ly^2)-i(u lx+v ly); lx=2 pi k/(dx*nxe)",
                                      key={"entry": names[(r, c)], "order": k}))
                if not uniform:
                    # coefficients may be sampled only inside the layer being crossed
                    bad = []
                    for a in e.atoms():
                        if a.kind == "fn" and a.name == "at" and a.args[0].eq(S.z.sym) is False:
                            idx = a.args[1]
                            if not (idx.eq(i) or idx.eq(i + ONE)):
                                bad.append(repr(a))
                    cand.append(req_ob(rule, site, "entry %s samples the profiles only at the two nodes of the layer" % names[(r, c)], not bad, detail="; ".join(bad) or None))
        score = sum(1 for o in cand if o.verdict == "holds")
        if best is None or score > best[0]:
            best = (score, cand, st)
    obs.extend(best[1])
    v.roles = {"p": best[2][0], "q": best[2][1], "loop": L}
    obs.append(req_ob(rule, site, "both auxiliary sweeps apply the same layer matrices", len(sigs) == 1 or len(loops) == 1,
                      detail="%d sweeps, %d distinct propagators" % (len(loops), len(sigs))))
    return obs


# --------------------------------------------------------------------------
# source spectrum, trajectories, phases


def source_spec(v, footprint):
    """(generic-mode source coefficient q0_hat, analysis scale) by S-SIG"""
    S = v.S
    N = v.Ny * v.Nx
    if footprint:
        return ONE / N
    name = "dft0" if v.r.ctx == "mean" else "dft"
    return alg.fn(name, S.srf_flx.val, v.py, v.px, v.Ny, v.Nx) / N


def second_ivp_initial(v):
    """initial (p, q) of each auxiliary sweep, by role"""
    out = []
    roles = getattr(v, "roles", None)
    for L in v.ivp_loops():
        st = (roles["p"], roles["q"]) if roles else tuple(L.state)
        ini = []
        for k in st:
            x = L.head[k][1]
            x = x.val if isinstance(x, Arr) else x
            ini.append(x.expand() if isinstance(x, Expr) else x)
        out.append(tuple(ini))
    return out


def trajectory_spec(v, q0hat, level):
    """(p_hat, q_hat)(level) of the non-mean mode for the numerical scheme:
    the trajectory of the verified propagator that starts with flux q0hat and
    satisfies q = Kz lambda p at the top node"""
    S = v.S
    L = v.ivp_loops()[0]
    roles = v.roles
    ip, iq = L.state.index(roles["p"]), L.state.index(roles["q"])
    N = L.rng.count

    def ph(r, c, lev):
        return phi_atom(L.sig, r, c, lev)

    lx, ly = v.wavenumbers()
    lam, _ = eigen_spec(S, lx, ly)
    KL = S.Kz.at(top_index(S)) * lam
    # R(p,q) = q - KL p at the top; X = Phi(N) (a, q0)^T
    num = ph(iq, iq, N) - KL * ph(ip, iq, N)
    den = ph(iq, ip, N) - KL * ph(ip, ip, N)
    a = -num * q0hat / den
    p = a * ph(ip, ip, level) + q0hat * ph(ip, iq, level)
    q = a * ph(iq, ip, level) + q0hat * ph(iq, iq, level)
    return p, q, a


def analytic_spec(v, q0hat, level):
    S = v.S
    lx, ly = v.wavenumbers()
    lam, _ = eigen_spec(S, lx, ly)
    h = S.z.at(level) - S.z.at(ZERO)
    q = q0hat * alg.exp(-lam * h)
    p = q / (S.Kz.at(top_index(S)) * lam)
    return p, q


def phase_spec(v, footprint, shifted):
    S = v.S
    lx, ly = v.wavenumbers()
    if footprint:
        return alg.exp(IMAG * (lx * (S.xm + v.px * v.dx) + ly * (S.ym + v.py * v.dy)))
    if shifted:
        return alg.exp(IMAG * (lx * (S.xm - S.xmx / 2) + ly * (S.ym - S.ymx / 2)))
    return ONE


def level_atom(S):
    return S.levels.val if isinstance(S.levels, Arr) else S.levels


def zero_tower(S):
    return {atom_of(S.xm): ZERO, atom_of(S.ym): ZERO}


# --------------------------------------------------------------------------
# generic helpers for events


def event_obs(v, rule, kinds, what, site=None):
    ev = [e for e in v.r.events if e[0] in kinds]
    # a construct the interpreter does not follow is a gap of the analysis, not a defect of the code
    verdict = True if not ev else None if all(e[0] == "unsupported" for e in ev) else False
    return req_ob(rule, site or v.site("whole function"), what, verdict, detail="; ".join("%s %s" % (e[1], e[2]) for e in ev[:4]) or None)


# --------------------------------------------------------------------------
# E2 on normal forms: units (dimensional homogeneity)


class DimError(Exception):
    pass


def _dadd(a, b, k=1):
    out = dict(a)
    for u, e in b.items():
        out[u] = out.get(u, 0) + e * k
        if out[u] == 0:
            del out[u]
    return out


def _dscale(a, k):
    return {u: e * k for u, e in a.items() if e * k != 0}


class Units:
    """dimension vectors over (L, T, F) for the atoms of S-SIG; `dims(expr)`
    checks that all terms agree and that transcendental arguments are pure numbers"""

    def __init__(self, S, roles=None, footprint=False):
        L, T, F = {"L": 1}, {"T": 1}, {"F": 1}
        self.sym = {}
        for x in (S.xmx, S.ymx, S.halo, S.xm, S.ym):
            self.sym[atom_of(x).id] = L
        for x in (S.nx, S.ny, S.nlx, S.nly, S.nz, S.nlev):
            self.sym[atom_of(x).id] = {}
        self.sym[atom_of(S.p000).id] = {"F": 1, "T": 1, "L": -1}
        self.arr = {S.z.sym: L, S.u.sym: {"L": 1, "T": -1}, S.v.sym: {"L": 1, "T": -1}}
        for K in (S.Kx, S.Ky, S.Kz):
            self.arr[K.sym] = {"L": 2, "T": -1}
        self.arr = {atom_of(k).id: v for k, v in self.arr.items()}
        self.field = atom_of(S.srf_flx.sym).id
        self.roles = roles
        self.memo = {}

    def atom(self, a):
        if a.id in self.memo:
            return self.memo[a.id]
        d = self._atom(a)
        self.memo[a.id] = d
        return d

    def _atom(self, a):
        if a.kind == "sym":
            if a.id in self.sym:
                return self.sym[a.id]
            if a.name in ("pi", "e", "iota", "delta_z") or a.name.startswith("basis") or a.name.startswith("i#"):
                return {"L": 1} if a.name == "delta_z" else {}
            if a.name.endswith("NUM_THREADS"):
                return {}
            raise DimError("no declared dimension for symbol %s" % a.name)
        if a.kind in ("def", "base"):
            return self.dims(a.args[0])
        if a.kind == "fn":
            n = a.name
            if n in ("at", "elem"):
                base = atom_of(a.args[0]).id if isinstance(a.args[0], Expr) else None
                if base in self.arr:
                    if n == "at" and self.dims(a.args[1]) != {}:
                        raise DimError("dimensioned index in %r" % (a,))
                    return self.arr[base]
                return {}
            if n in ("dft", "dft0", "idft", "idft0"):
                for x in a.args[1:]:
                    if self.dims(x) != {}:
                        raise DimError("dimensioned size in %r" % (a,))
                return {"F": 1}
            if n in ("exp", "expi", "log", "sin", "cos", "arctan", "int", "fftidx", "idx", "mod", "floordiv", "count", "nunique", "ceil"):
                for x in a.args:
                    if isinstance(x, Expr) and self.dims(x) != {}:
                        raise DimError("argument of %s is not a pure number: %r has %r" % (n, x, self.dims(x)))
                return {}
            if n in ("max", "min"):
                ds = [self.dims(x) for x in a.args]
                if any(d != ds[0] for d in ds):
                    raise DimError("max/min of unlike quantities %r" % (a,))
                return ds[0]
            if n == "Phi":
                r, c = int(a.args[1].as_const().re), int(a.args[2].as_const().re)
                if self.dims(a.args[3]) != {}:
                    raise DimError("dimensioned level in %r" % (a,))
                if self.roles is None or r == c:
                    return {}
                return {"T": 1, "L": -1} if (r, c) == tuple(self.roles) else {"L": 1, "T": -1}
            if n == "Sum":
                return self.dims(a.args[0])
            raise DimError("no dimension rule for %s" % n)
        raise DimError("atom %r" % (a,))

    def dims(self, x):
        x = as_expr(x)
        res = None
        for m, c in x.n.items():
            d = {}
            for a, e in m:
                da = self.atom(a)
                if not isinstance(e, (int, Q)):
                    if da:
                        raise DimError("dimensioned quantity %r raised to a symbolic power" % (a,))
                    continue
                d = _dadd(d, da, e)
            if res is None:
                res = d
            elif res != d:
                raise DimError("sum of unlike quantities: %r vs %r in %s" % (res, d, repr(x)[:200]))
        return res or {}


def units_ob(U, rule, site, what, value, want):
    try:
        if not isinstance(value, Expr):
            return req_ob(rule, site, what, None, detail="not algebraic: %r" % (value,))
        got = U.dims(value)
        return req_ob(rule, site, what + " has dimension %s" % (want or "1"), got == want, detail="got %r" % (got,) if got != want else None)
    except DimError as e:
        return req_ob(rule, site, what + " is dimensionally homogeneous", False, detail=str(e))


# --------------------------------------------------------------------------
# sigma: exchange of the x- and y-roles of S-SIG


def sigma_map(S):
    pairs = [(S.nx, S.ny), (S.xmx, S.ymx), (S.nlx, S.nly), (S.xm, S.ym), (S.u.sym, S.v.sym), (S.Kx.sym, S.Ky.sym)]
    m = {}
    for a, b in pairs:
        m[atom_of(a)] = b
        m[atom_of(b)] = a
    return m


def neutralise_source(x, S):
    """replace the (transposition-covariant, S-NUMPY) source transform atoms by a symbol"""
    if not isinstance(x, Expr):
        return x
    m = {}
    for a in x.atoms():
        if a.kind == "fn" and a.name in ("dft", "dft0"):
            m[a] = alg.sym("Q_" + a.name)
    return x.subs(m) if m else x


def mirror_map(S, x, axis, view=None):
    """(k_axis, wind_axis) -> -(k_axis, wind_axis) on the atoms of x"""
    w = S.u.sym if axis == "x" else S.v.sym
    n_eff = (view.nlx_eff if axis == "x" else view.nly_eff) if view is not None else (S.nlx if axis == "x" else S.nly)
    m = {}
    for a in x.atoms():
        if a.kind == "fn" and a.name == "at" and a.args[0].eq(w):
            m[a] = -alg.atom_expr(a)
        if a.kind == "fn" and a.name == "fftidx" and a.args[0].eq(n_eff):
            m[a] = -alg.atom_expr(a)
    return m
