#!/usr/bin/env python3
"""Rewrite the seeded-changes table of DESIGN.md (between the SEEDED-TABLE markers) from seeded/*/meta.json."""
import json, os, re
VERIF = os.path.dirname(os.path.dirname(os.path.abspath(__file__)))
rows = []
root = os.path.join(VERIF, "seeded")
for d in sorted(os.listdir(root)):
    mp = os.path.join(root, d, "meta.json")
    if not os.path.exists(mp):
        continue
    m = json.load(open(mp))
    notes = open(os.path.join(root, d, "notes.md")).read() if os.path.exists(os.path.join(root, d, "notes.md")) else ""
    title = ""
    for line in notes.splitlines():
        line = line.strip().lstrip("#").strip()
        if len(line) > 15:
            title = line
            break
    title = re.sub(r"\s+", " ", m.get("summary") or title)[:150].replace("|", "/")
    fired = m.get("detected_by", [])
    tgt = m.get("property")
    own = "yes" if tgt in fired else "**no**"
    first = ""
    fr = m.get("first_report", {})
    pick = tgt if tgt in fr else (fired[0] if fired else None)
    if pick and fr.get(pick):
        mm = re.search(r"violated (R-[A-Z0-9'@-]+)", fr[pick][0])
        first = "%s %s" % (pick, mm.group(1) if mm else "")
    rows.append("| %s | %s | %s | %s | %s | %s |" % (d, title, own, ", ".join(fired) or "-", ", ".join(m.get("analysis_error_in", [])) or "-", first))
table = "| seeded change | what it does | caught by its own property's check | all checks that fire | checks that end in ANALYSIS-ERROR | first report |\n|---|---|---|---|---|---|\n" + "\n".join(rows) + "\n"
p = os.path.join(VERIF, "DESIGN.md")
s = open(p).read()
a, b = "<!-- SEEDED-TABLE-BEGIN -->", "<!-- SEEDED-TABLE-END -->"
if a in s and b in s:
    s = s[: s.index(a) + len(a)] + "\n" + table + s[s.index(b):]
    open(p, "w").write(s)
    print("table rewritten: %d rows" % len(rows))
else:
    print(table)
