"""Linear real arithmetic for the path conditions of the abstract interpreter: affine forms over atoms and exact
Fourier-Motzkin elimination with strict and non-strict inequalities (a small polyhedral domain).

A constraint is (coeffs, const, strict) meaning  sum(coeffs[v] * v) + const  < 0  (strict) or  <= 0.
All arithmetic is in fractions; nothing is sampled or executed."""

from fractions import Fraction as Q

import alg
from alg import Expr


def affine(e):
    """Expr -> ({atom: Q}, Q) when e is affine in its top-level atoms with rational coefficients, else None"""
    if not isinstance(e, Expr):
        return None
    e = e.expand()
    if not e.d_is_one() if hasattr(e, "d_is_one") else False:
        return None
    coeffs, const = {}, Q(0)
    for mono, c in e.n.items():
        if c.im != 0:
            return None
        if len(mono) == 0:
            const += c.re
            continue
        if len(mono) == 1 and mono[0][1] == 1:
            key = mono[0][0]
        else:
            # a product or power is treated as a quantity of its own (a sound linear relaxation: relations between the
            # product and its factors are simply not used)
            if any(not isinstance(p, int) and getattr(p, "denominator", 1) != 1 for _, p in mono) or any(isinstance(p, Expr) for _, p in mono):
                return None
            key = ("mono",) + tuple((a.id, p) for a, p in mono)
        coeffs[key] = coeffs.get(key, Q(0)) + c.re
    return coeffs, const


def cons(e, op, int_atoms=()):
    """constraints (a list of alternatives, each a list of atomic constraints) for  e op 0.
    When every atom of e is integer-valued (int_atoms) and all coefficients are integers, strict comparisons are
    tightened (e < 0  <=>  e + 1 <= 0), which makes the real relaxation exact for such constraints."""
    af = affine(e)
    if af is None:
        return None
    c, k = af
    if c and all(a in int_atoms for a in c) and all(v.denominator == 1 for v in c.values()) and k.denominator == 1 and op in ("<", ">", "!="):
        if op == "<":
            return cons(e + alg.const(1), "<=")
        if op == ">":
            return cons(e - alg.const(1), ">=")
        return [cons(e + alg.const(1), "<=")[0], cons(e - alg.const(1), ">=")[0]]
    neg = ({a: -v for a, v in c.items()}, -k)
    if op == "<":
        return [[(c, k, True)]]
    if op == "<=":
        return [[(c, k, False)]]
    if op == ">":
        return [[(neg[0], neg[1], True)]]
    if op == ">=":
        return [[(neg[0], neg[1], False)]]
    if op == "==":
        return [[(c, k, False), (neg[0], neg[1], False)]]
    if op == "!=":
        return [[(c, k, True)], [(neg[0], neg[1], True)]]
    return None


NEGATE = {"<": ">=", "<=": ">", ">": "<=", ">=": "<", "==": "!=", "!=": "=="}


def feasible(constraints):
    """is the conjunction of atomic constraints satisfiable over the reals?  (Fourier-Motzkin, exact)"""
    cs = [(dict((a, v) for a, v in c.items() if v != 0), k, s) for c, k, s in constraints]
    while True:
        # constant constraints
        rest = []
        for c, k, s in cs:
            if not c:
                if (k >= 0 and s) or (k > 0 and not s):
                    return False
            else:
                rest.append((c, k, s))
        cs = rest
        if not cs:
            return True
        # eliminate one variable (the one producing the fewest combinations)
        vars_ = {}
        for c, k, s in cs:
            for a, v in c.items():
                lo, up = vars_.get(a, (0, 0))
                vars_[a] = (lo + (v < 0), up + (v > 0))
        var = min(vars_, key=lambda a: (vars_[a][0] * vars_[a][1], repr(a)))
        lower, upper, other = [], [], []
        for c, k, s in cs:
            v = c.get(var)
            if v is None:
                other.append((c, k, s))
            elif v > 0:
                upper.append((c, k, s, v))  # var <= (-rest)/v
            else:
                lower.append((c, k, s, v))
        for cu, ku, su, vu in upper:
            for cl, kl, sl, vl in lower:
                # cu/vu + ... : combine  (1/vu)*upper + (1/-vl)*lower
                f1, f2 = Q(1) / vu, Q(1) / (-vl)
                c = {}
                for a, v in cu.items():
                    if a != var:
                        c[a] = c.get(a, Q(0)) + v * f1
                for a, v in cl.items():
                    if a != var:
                        c[a] = c.get(a, Q(0)) + v * f2
                c = {a: v for a, v in c.items() if v != 0}
                other.append((c, ku * f1 + kl * f2, su or sl))
        cs = other
        if len(cs) > 4000:
            raise OverflowError("Fourier-Motzkin blow-up")


def any_feasible(base, alternatives_list):
    """base: list of atomic constraints; alternatives_list: list of DNF formulas (each a list of conjunctions) all of which
    must hold.  True when base and all formulas are jointly satisfiable."""
    def rec(acc, k):
        if k == len(alternatives_list):
            return feasible(acc)
        for conj in alternatives_list[k]:
            if rec(acc + conj, k + 1):
                return True
        return False

    return rec(list(base), 0)


_SIGN_OPS = {frozenset("-"): "<", frozenset("0"): "==", frozenset("+"): ">", frozenset("-0"): "<=", frozenset("0+"): ">=", frozenset("-+"): "!="}


def implied_signs(facts, e, limit=24):
    """the signs e can have given every affine sign fact of the path (exact over the reals: Fourier-Motzkin on the facts
    joined with e < 0, e == 0, e > 0 in turn).  Facts that are not affine are ignored, which only widens the answer."""
    allsigns = {"-", "0", "+"}
    if affine(e) is None:
        return set(allsigns)
    formulas = []
    for ent in facts.signs:
        fe, signs = ent[0], frozenset(ent[1])
        if signs >= allsigns or not signs:
            continue
        op = _SIGN_OPS.get(signs)
        c = cons(fe, op) if op else None
        if c is not None:
            formulas.append(c)
    if len(formulas) > limit:
        formulas = formulas[-limit:]
    out = set()
    for s, op in (("-", "<"), ("0", "=="), ("+", ">")):
        try:
            if any_feasible([], formulas + [cons(e, op)]):
                out.add(s)
        except OverflowError:
            out.add(s)
    return out
