#!/bin/bash
# verify_twin.sh <prop> <n>: confirm a sub-agent's twin pair (bad_N.diff breaks the property, ok_N.diff is a
# behaviour-preserving look-alike) in a scratch worktree; file bad under /verif/seeded/<prop>-<OFFSET+n>, ok under /verif/refactors/T-<prop>-<TOFF+n>.diff
p=$1; n=$2
wave=${WAVE:-w3}; off=${OFFSET:-6}; toff=${TOFF:-0}   # wave 4: WAVE=w4 OFFSET=8 TOFF=2
src=/tmp/seed_out/${p}${wave}
outn=$(( n + off ))
tn=$(( n + toff ))
wt=/tmp/sv/${p}_t$n
out=/verif/seeded/${p}-$outn
[ -f $src/bad_$n.diff ] && [ -f $src/ok_$n.diff ] || { echo "$p-t$n: files missing"; exit 1; }
mkdir -p /tmp/sv; rm -rf $wt
git -C /repo worktree add -q --detach $wt HEAD || exit 2
run_demo () { d=/tmp/sv/${p}_t$n.run; rm -rf $d; mkdir -p $d; (cd $d && PYTHONPATH=$wt/src timeout 900 /venv/bin/python $src/demo_$n.py > /tmp/sv/${p}_t$n.$1.log 2>/dev/null); rc=$?; rm -rf $d; return $rc; }
run_suite () { (cd $wt && PYTHONPATH=$wt/src timeout 1800 /venv/bin/python -m pytest -q -p no:cacheprovider --timeout=900 > /tmp/sv/${p}_t$n.$1.suite.log 2>&1); rc=$?; return $rc; }
cd $wt
run_demo base; base_rc=$?
git apply $src/bad_$n.diff || { echo "$p-t$n: bad patch does not apply"; git -C /repo worktree remove --force $wt; exit 3; }
run_suite bad; bad_suite=$?; run_demo bad; bad_rc=$?
git checkout -q -- .; git clean -fdq
git apply $src/ok_$n.diff || { echo "$p-t$n: ok patch does not apply"; git -C /repo worktree remove --force $wt; exit 3; }
run_suite ok; ok_suite=$?; run_demo ok; ok_rc=$?
sumline=$(grep -aE "passed|failed" /tmp/sv/${p}_t$n.bad.suite.log | tail -1)
sumline2=$(grep -aE "passed|failed" /tmp/sv/${p}_t$n.ok.suite.log | tail -1)
cd /; git -C /repo worktree remove --force $wt
okb=0; [ $bad_suite -eq 0 ] && [ $bad_rc -eq 1 ] && [ $base_rc -eq 0 ] && okb=1
oko=0; [ $ok_suite -eq 0 ] && [ $ok_rc -eq 0 ] && [ $base_rc -eq 0 ] && oko=1
echo "$p-t$n: base_demo=$base_rc bad: suite=$bad_suite demo=$bad_rc ($sumline) ok: suite=$ok_suite demo=$ok_rc ($sumline2) => bad_confirmed=$okb ok_confirmed=$oko"
if [ $okb -eq 1 ]; then
  mkdir -p $out
  cp $src/bad_$n.diff $out/patch.diff; cp $src/demo_$n.py $out/demo.py; cp $src/notes_$n.md $out/notes.md 2>/dev/null
  python3 - "$p" "$outn" "$sumline" "$tn" "$oko" <<'PY'
import json,sys,os
p,outn,sumline,n,oko=sys.argv[1:6]
out='/verif/seeded/%s-%s'%(p,outn)
notes=open(out+'/notes.md').read() if os.path.exists(out+'/notes.md') else ''
meta={"property":p,"source":"independent sub-agent (twin round: a breaking change and a behaviour-preserving look-alike) given only the property text and a scratch worktree",
 "needs_to_manifest":notes.split('\n\n')[0][:1500],
 "twin": ("refactors/T-%s-%s.diff"%(p,n)) if oko=="1" else None,
 "confirmed":{"suite_with_change":sumline,"demo_with_change_exit":1,"demo_without_change_exit":0},
 "detected_by":[]}
json.dump(meta,open(out+'/meta.json','w'),indent=1)
PY
fi
if [ $oko -eq 1 ]; then cp $src/ok_$n.diff /verif/refactors/T-$p-$tn.diff; fi
