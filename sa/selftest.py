"""Thorough tier: test the checker both ways on scratch copies of /repo's source.

For the property under check, every *breaking* variant listed for it (one
construct of the current source edited so that the property fails while the code
still compiles) must make the check report a VIOLATION, and every
*behaviour-preserving* variant (renames, reordered operands, temporaries,
positional/keyword style, equivalent idioms) must leave it silent.  Variants are
produced from /repo's *current* source by literal edits (an edit whose anchor
text no longer exists is skipped and counted) or by applying a seeded patch from
/verif/seeded.  Scratch copies live under a temporary directory outside /repo
and /verif and are removed afterwards.  A self-test failure is an analysis error
of the checker, never a verdict on /repo.
"""

import json
import os
import shutil
import subprocess
import sys
import tempfile
from concurrent.futures import ThreadPoolExecutor

HERE = os.path.dirname(os.path.abspath(__file__))
VERIF = os.path.dirname(HERE)

S = "src/bldfm/solver.py"
U = "src/bldfm/utils.py"
I = "src/bldfm/interface.py"
C = "src/bldfm/config_parser.py"
K = "src/bldfm/cache.py"
PB = "src/bldfm/pbl_model.py"
KM = "src/bldfm/ffm_kormann_meixner.py"
IO = "src/bldfm/io.py"
PF = "src/bldfm/plotting/footprint.py"
GEO = "src/bldfm/plotting/_geo.py"
FM = "src/bldfm/fft_manager.py"

# (id, file, old, new, properties that must fire)
BREAK = [
    ("F1-revert", S, "b = -Kzinv * dzi + 1.0 / 6.0", "b = -Kzinv * dzi - 1.0 / 6.0", ["C05"]),
    ("Kx-node0", S, "Ti = -(Kx[i] * Lx**2", "Ti = -(Kx[0] * Lx**2", ["C01", "C05"]),
    ("u-v-swapped", S, "- 1j * u[i] * Lx - 1j * v[i] * Ly", "- 1j * v[i] * Lx - 1j * u[i] * Ly", ["C01", "C07", "C08"]),
    ("advective-sign", S, "- 1j * u[i] * Lx - 1j * v[i] * Ly", "+ 1j * u[i] * Lx + 1j * v[i] * Ly", ["C01", "C08"]),
    ("wavenumber-nx", S, "lx = 2.0 * np.pi / dx / nxe * ilx", "lx = 2.0 * np.pi / dx / nx * ilx", ["C01", "C03", "C06"]),
    ("wavenumber-no-dx", S, "lx = 2.0 * np.pi / dx / nxe * ilx", "lx = 2.0 * np.pi / nxe * ilx", ["C07"]),
    ("alpha-sign", S, "alpha = -(tfftq2", "alpha = (tfftq2", ["C01"]),
    ("mean-weights", S, "(0.5 / Kz[i] + 0.5 / Kz[i + 1])", "(0.5 / Kz[i] + 0.6 / Kz[i + 1])", ["C01", "C03"]),
    ("analytic-growth", S, "np.exp(-eigval * h[:, np.newaxis])", "np.exp(eigval * h[:, np.newaxis])", ["C05"]),
    ("eigval-axis", S, "+ KyKzinv * Ly[msk] ** 2", "+ KyKzinv * Lx[msk] ** 2", ["C01", "C05", "C07"]),
    ("F2-revert", S, "Lx * (xm + px * dx) + Ly * (ym + py * dy)", "Lx * (xm + halo) + Ly * (ym + halo)", ["C02", "C03", "C06", "C07"]),
    ("tower-axes", S, "Lx * (xm + px * dx) + Ly * (ym + py * dy)", "Lx * (ym + px * dx) + Ly * (xm + py * dy)", ["C02", "C06"]),
    ("footprint-ifft", S, 'q = fft2(fftq, norm="backward").real', 'q = ifft2(fftq, norm="forward").real', ["C02", "C06", "C08"]),
    ("source-norm", S, 'fftq0 = fft2(q0, norm="forward")', 'fftq0 = fft2(q0, norm="ortho")', ["C02", "C03"]),
    ("crop-shift", S, "flx = q[:, py : nye - py, px : nxe - px]", "flx = q[:, py : nye - py, px + 1 : nxe - px + 1]", ["C02", "C03", "C11"]),
    ("grid-endpoint", S, "x = np.linspace(0, xmx, nx, endpoint=False)", "x = np.linspace(0, xmx, nx)", ["C02", "C11"]),
    ("unit-norm", S, "dtype=np.complex128) / nxe / nye", "dtype=np.complex128) / nx / ny", ["C02", "C03"]),
    ("meanflux-store", S, "    tfftq[:, 0, 0] = tfftq0[0, 0]  # conservation by design", "    pass", ["C03"]),
    ("mask-mean", S, "    msk[0, 0] = False", "    pass", ["C03"]),
    ("pad-ones", S, "constant_values=0.0)\n\n    # extent", "constant_values=1.0)\n\n    # extent", ["C03", "C04"]),
    ("bg-into-flux", S, "tfftq[:, msk] = alpha * tfftqm1 + tfftqm2", "tfftq[:, msk] = alpha * tfftqm1 + tfftqm2 + p000", ["C04"]),
    ("source-normalised", S, "    q0 = srf_flx\n", "    q0 = srf_flx / np.sum(srf_flx)\n", ["C04"]),
    ("abs-conc", S, "tfftp[:, msk] = alpha * tfftpm1 + tfftpm2", "tfftp[:, msk] = np.abs(alpha * tfftpm1 + tfftpm2)", ["C04"]),
    ("recentre-sign", S, "shift = np.exp(1j * (Lx * (xm - xmx / 2) + Ly * (ym - ymx / 2)))", "shift = np.exp(-1j * (Lx * (xm - xmx / 2) + Ly * (ym - ymx / 2)))", ["C06"]),
    ("no-ifftshift", S, "    fftq = ifftshift(fftq, axes=(1, 2))", "    pass", ["C06", "C11"]),
    ("KxKy-top", S, "KxKzinv = Kx[nz - 1] * Kzinv", "KxKzinv = Ky[nz - 1] * Kzinv", ["C07", "C01"]),
    ("pad-axes", S, "q0 = np.pad(q0, ((py, py), (px, px))", "q0 = np.pad(q0, ((px, px), (py, py))", ["C07", "C11"]),
    ("literal-length", S, "shift = np.exp(1j * (Lx * (xm - xmx / 2) + Ly * (ym - ymx / 2)))", "shift = np.exp(1j * (Lx * (xm - 50.0) + Ly * (ym - ymx / 2)))", ["C07", "C06"]),
    ("F3-revert", S, "    levels, level_slot = np.unique(requested_levels, return_inverse=True)", "    level_slot = np.arange(len(requested_levels))", ["C10"]),
    ("level-offset", S, "            if i in levels:\n                tfftp[lvl, 0, 0] = tfftp00", "            if i + 1 in levels:\n                tfftp[lvl, 0, 0] = tfftp00", ["C10"]),
    ("heights-sorted", S, "Z, Y, X = np.meshgrid(z[levels], y, x", "Z, Y, X = np.meshgrid(z[np.sort(levels)], y, x", ["C10"]),
    ("top-store", S, "    if nz - 1 in levels:\n        fftp[lvl, ...] = fftpi\n        fftq[lvl, ...] = fftqi", "    pass", ["C10"]),
    ("F4-revert", S, "np.exp(-eigval * h[:, np.newaxis])", "np.exp(-eigval * h)", ["C10", "C05"]),
    ("F5-revert", S, "    if (nxe - nlx) % 2 > 0 or (nye - nly) % 2 > 0:\n        raise ValueError(\n            \"number of (padded) grid cells and number of modes must have \"\n            \"the same parity in each direction.\"\n        )\n", "", ["C11"]),
    ("repad-axis", S, "tfftq, ((0, 0), (dly, dly), (dlx, dlx))", "tfftq, ((0, 0), (dlx, dlx), (dlx, dlx))", ["C11"]),
    ("truncate-asym", S, "tfftq0 = fftq0[dly : nye - dly, dlx : nxe - dlx]", "tfftq0 = fftq0[dly : nye - dly, dlx + 1 : nxe - dlx + 1]", ["C11", "C06"]),
    ("clamp-y", S, "        nlx, nly = nxe, nye", "        nlx, nly = nxe, nly", ["C11"]),
    ("threads-in-value", S, "            set_num_threads(config.NUM_THREADS)", "            set_num_threads(config.NUM_THREADS)\n            tfftq0 = tfftq0 * (1.0 + 1e-13 * config.NUM_THREADS)", ["C12"]),
    ("global-halo", S, "    if halo is None:\n        halo = max(xmx, ymx)\n", "    global _LAST_HALO\n    if halo is None:\n        halo = _LAST_HALO if _LAST_HALO is not None else max(xmx, ymx)\n    _LAST_HALO = halo\n", ["C12"]),
    ("arg-mutation", S, "    q0 = srf_flx\n", "    q0 = srf_flx\n    q0[0, 0] = 0.0\n", ["C12"]),
    ("nc-met-swapped", IO, '                ustar_data[t] = r["params"]["ustar"]\n                mol_data[t] = r["params"]["mol"]', '                mol_data[t] = r["params"]["ustar"]\n                ustar_data[t] = r["params"]["mol"]', ["C18"]),
    ("fft-instance-state", FM, "        return pyfftw_fft.fft2(input_data, norm=norm)", "        return pyfftw_fft.fft2(input_data, norm=norm) * (1.0 if self.num_threads else 1.0)", ["C12"]),
    ("key-levels", S, "            np.asarray(levels).tolist(),\n", "", ["C15"]),
    ("key-analytic", S, "            bool(analytic),\n", "", ["C15"]),
    ("key-background", S, "            float(srf_bg_conc),\n", "", ["C15"]),
    ("key-modes-unhashed", K, "        h.update(np.asarray(modes).tobytes())\n", "", ["C15"]),
    ("handler-narrow", K, "            except Exception as e:", "            except OSError as e:", ["C15"]),
    ("hit-swapped", K, 'conc, flx = data["conc"], data["flx"]', 'conc, flx = data["flx"], data["conc"]', ["C15"]),
    ("wind-sincos", U, "    u = -u_rot * np.sin(wind_dir)\n    v = -u_rot * np.cos(wind_dir)", "    u = -u_rot * np.cos(wind_dir)\n    v = -u_rot * np.sin(wind_dir)", ["C08"]),
    ("wind-sign", U, "    v = -u_rot * np.cos(wind_dir)", "    v = u_rot * np.cos(wind_dir)", ["C08"]),
    ("wind-degrees", U, "    wind_dir = np.deg2rad(wind_dir)", "    pass", ["C08"]),
    ("tower-xy", I, "meas_pt=(tower.x, tower.y),", "meas_pt=(tower.y, tower.x),", ["C13", "C08"]),
    ("step-zero", I, "met_step = config.met.get_step(met_index)", "met_step = config.met.get_step(0)", ["C13"]),
    ("domain-ymax", I, "domain=(dom.xmax, dom.ymax),\n        levels=levels,", "domain=(dom.ymax, dom.ymax),\n        levels=levels,", ["C13"]),
    ("halo-dropped", I, "        halo=dom.halo,\n", "", ["C13"]),
    ("z0-precedence", I, "    if z0_val is not None:", "    if z0_val is not None and met_step[\"ustar\"] is None:", ["C13"]),
    ("level-nz1", I, "        levels = dom.nz\n", "        levels = dom.nz + 1\n", ["C13", "C09"]),
    ("wind-pair", I, "            wind=(u_wind, v_wind),\n            z0=z0_val,", "            wind=(v_wind, u_wind),\n            z0=z0_val,", ["C13", "C08"]),
    ("parser-key", C, 'ref_lat=d.get("ref_lat"),', 'ref_lat=d.get("ref_lon"),', ["C13"]),
    ("parser-default", C, 'wind_dir=d.get("wind_dir", 270.0),', 'wind_dir=d.get("wind_dir", 0.0),', ["C13"]),
    ("F11-revert", C, "        for val in (self.ustar, self.mol, self.wind_speed, self.wind_dir):\n            if isinstance(val, list):\n                return len(val)\n        return 1",
     "        if isinstance(self.ustar, list):\n            return len(self.ustar)\n        if isinstance(self.wind_speed, list):\n            return len(self.wind_speed)\n        return 1", ["C16"]),
    ("F12-revert", C, "        lengths = set(list_fields.values()) or {1}", "        if not list_fields:\n            return\n        lengths = set(list_fields.values())", ["C16"]),
    ("validate-field", C, 'for name in ("ustar", "mol", "wind_speed", "wind_dir"):', 'for name in ("ustar", "mol", "wind_speed"):', ["C16"]),
    ("step-index", C, '"wind_dir": _get(self.wind_dir, i),', '"wind_dir": _get(self.wind_dir, 0),', ["C16", "C13"]),
    ("no-validate", C, "        self.met.validate()", "        pass", ["C16"]),
    ("geo-coslat", C, "x = _EARTH_RADIUS * (lon_r - ref_lon_r) * math.cos(ref_lat_r)", "x = _EARTH_RADIUS * (lon_r - ref_lon_r) * math.cos(lat_r)", ["C17"]),
    ("geo-radius", GEO, "R = 6_371_000.0", "R = 6_378_137.0", ["C17"]),
    ("geo-north", C, "y = _EARTH_RADIUS * (lat_r - ref_lat_r)", "y = _EARTH_RADIUS * (ref_lat_r - lat_r)", ["C17", "C08"]),
    ("tower-fill", C, "self.x, self.y = latlon_to_xy(self.lat, self.lon, ref_lat, ref_lon)", "self.y, self.x = latlon_to_xy(self.lat, self.lon, ref_lat, ref_lon)", ["C17", "C08"]),
    ("as-completed", I, "                step_results = list(pool.map(_worker_single, tasks))", "                futs = [pool.submit(_worker_single, t) for t in tasks]\n                from concurrent.futures import as_completed\n                step_results = [f.result() for f in as_completed(futs)]", ["C14"]),
    ("flat-stride", I, "            idx += n_time", "            idx += n_time + 1", ["C14"]),
    ("task-loops", I, "        for tower in config.towers:\n            for i in range(n_time):\n                tasks.append((config, tower, i))", "        for i in range(n_time):\n            for tower in config.towers:\n                tasks.append((config, tower, i))", ["C14"]),
    ("task-tuple", I, "            tasks = [(config, tower, i) for i in range(n_time)]", "            tasks = [(config, i, tower) for i in range(n_time)]", ["C14"]),
    ("worker-reset", I, "    cfg.NUM_THREADS = 1\n    from .fft_manager import reset_fft_manager\n\n    reset_fft_manager()\n    return run_bldfm_single(config, tower, met_index=met_index)", "    return run_bldfm_single(config, tower, met_index=met_index)", ["C14"]),
    ("series-short", I, "    for i in range(n):\n        logger.debug", "    for i in range(n - 1):\n        logger.debug", ["C14"]),
    ("series-flux", I, "            config, tower, met_index=i, surface_flux=surface_flux, cache=cache", "            config, tower, met_index=i, cache=cache", ["C14"]),
    ("cache-dispersion", I, "    if config.parallel.use_cache and config.solver.footprint:", "    if config.parallel.use_cache:", ["C14", "C15"]),
    ("F15-revert", IO, "    tower_lats = [towers_by_name[name].lat for name in tower_names]", "    tower_lats = [t.lat for t in config.towers]", ["C18"]),
    ("F16-revert", IO, "                if r[\"params\"].get(\"z0\") is not None:\n                    z0_data[t] = r[\"params\"][\"z0\"]", "                pass", ["C18"]),
    ("nc-slot", IO, "            flx_data[t, ti] = r[\"flx\"]", "            flx_data[ti, t] = r[\"flx\"]", ["C18"]),
    ("nc-dims", IO, '        dims = ["time", "tower", "y", "x"]', '        dims = ["tower", "time", "y", "x"]', ["C18"]),
    ("nc-coord", IO, "        y = Y[0, :, 0]", "        y = Y[0, 0, :]", ["C18"]),
    ("nc-lossy", IO, '"footprint": {"zlib": True, "complevel": 4},', '"footprint": {"zlib": True, "complevel": 4, "least_significant_digit": 6},', ["C18"]),
    ("nc-met", IO, '                wind_dir_data[t] = r["params"]["wind_dir"]', '                wind_dir_data[t] = r["params"]["wind_speed"]', ["C18"]),
    ("psi-const", PB, "np.power(1.0 - 16.0 * x, 0.25, dtype=complex).real)", "np.power(1.0 - 15.0 * x, 0.25, dtype=complex).real)", ["C09"]),
    ("grid-spacing", PB, "dzeta = zm / n", "dzeta = zm / (n + 1)", ["C09"]),
    ("grid-aa", PB, "aa = bb * np.exp(-z0 / h)", "aa = bb * np.exp(-zm / h)", ["C09"]),
    ("ustar-closure", PB, "ustar = absum * kap / (np.log(zm / z0) + psi(zm / mol))", "ustar = absum * kap / np.log(zm / z0)", ["C09"]),
    ("km-psi-copy", KM, "psi_m[sflag] = 5 * zm[sflag] / mo_len[sflag]", "psi_m[sflag] = 4.7 * zm[sflag] / mo_len[sflag]", ["C09", "C19"]),
    ("F13-revert", KM, "    phi_m = np.zeros_like(zm, dtype=float)", "    phi_m = np.zeros_like(zm)", ["C19"]),
    ("km-decay-sign", KM, "            -Xi / x[sflag] - 0.5", "            Xi / x[sflag] - 0.5", ["C19"]),
    ("km-exponent", KM, "        * x[sflag] ** (mr - 2 - mu)", "        * x[sflag] ** (mr - 1 - mu)", ["C19"]),
    ("km-r", KM, "    r = 2 + m - n", "    r = 2 + m + n", ["C19"]),
    ("km-n", KM, "n[sflag] = (1 - 24 * zm[sflag] / mo_len[sflag])", "n[sflag] = (1 - 22 * zm[sflag] / mo_len[sflag])", ["C19"]),
    ("km-z0", KM, "z0 = zm * np.exp(psi_m - (k * ws / ustar))", "z0 = zm * np.exp(-psi_m - (k * ws / ustar))", ["C19"]),
    ("F14-revert", U, "    g_rescaled = np.empty_like(M_shifted)", "    g_rescaled = np.empty_like(g_flat)", ["C20"]),
    ("area-ascending", U, "    order = np.argsort(g_flat)[::-1]", "    order = np.argsort(g_flat)", ["C20"]),
    ("area-inclusive", U, "    g_rescaled[order] = M_shifted", "    g_rescaled[order] = M_cum", ["C20"]),
    ("contour-side", PF, "    k = np.searchsorted(cumsum, target)", "    k = np.searchsorted(cumsum, target, side=\"right\")", ["C20"]),
    ("contour-count", PF, "    area = (k + 1) * cell_area", "    area = k * cell_area", ["C20"]),
]

# behaviour-preserving variants: (id, file, old, new, properties that must stay silent)
PRESERVE = [
    ("fft-threads-keyword", FM, "        return pyfftw_fft.fft2(input_data, norm=norm)", "        return pyfftw_fft.fft2(input_data, norm=norm, threads=self.num_threads)", ["C12"]),
    ("rename-dlx", S, None, ("dlx", "trunc_x"), ["C01", "C03", "C06", "C11"]),
    ("rename-eigval", S, None, ("eigval", "lam"), ["C01", "C05"]),
    ("reorder-T", S, "Ti = -(Kx[i] * Lx**2 + Ky[i] * Ly**2) - 1j * u[i] * Lx - 1j * v[i] * Ly", "Ti = -1j * (v[i] * Ly + u[i] * Lx) - (Ly**2 * Ky[i] + Lx**2 * Kx[i])", ["C01", "C05", "C07", "C08"]),
    ("temporary-a", S, "        a = 1.0 - 0.5 * Kzinv * Ti * dzi**2\n", "        half = 0.5 * Kzinv * Ti * dzi**2\n        a = 1.0 - half\n", ["C01", "C05"]),
    ("square-as-product", S, "KxKzinv * Lx[msk] ** 2", "KxKzinv * Lx[msk] * Lx[msk]", ["C01", "C05", "C07"]),
    ("cubic-as-product", S, "b = -Kzinv * dzi + 1.0 / 6.0 * Kzinv**2 * Ti * dzi**3", "b = Kzinv * dzi * (Kzinv * Ti * dzi * dzi / 6.0 - 1.0)", ["C05", "C01"]),
    ("phase-expanded", S, "shift = np.exp(1j * (Lx * (xm + px * dx) + Ly * (ym + py * dy)))", "shift = np.exp(1j * Lx * xm + 1j * Lx * px * dx) * np.exp(1j * Ly * (py * dy + ym))", ["C02", "C03", "C06", "C07"]),
    ("node-sample-upper", S, "Ti = -(Kx[i] * Lx**2", "Ti = -(Kx[i + 1] * Lx**2", ["C01"]),
    ("counter-late", S, "            if i in levels:\n                tfftp[lvl, 0, 0] = tfftp00\n                lvl += 1", "            if i in levels:\n                lvl += 1\n                tfftp[lvl - 1, 0, 0] = tfftp00", ["C10"]),
    ("positional-solver-args", I, "        srf_flx=surface_flux,\n        z=z,\n        profiles=profiles,\n", "        surface_flux,\n        z,\n        profiles,\n", ["C13", "C08"]),
    ("rename-key", K, None, ("path", "entry_path"), ["C15"]),
    ("steps-explicit", C, "        for val in (self.ustar, self.mol, self.wind_speed, self.wind_dir):\n            if isinstance(val, list):\n                return len(val)\n        return 1",
     "        if isinstance(self.wind_dir, list):\n            return len(self.wind_dir)\n        if isinstance(self.mol, list):\n            return len(self.mol)\n        if isinstance(self.ustar, list):\n            return len(self.ustar)\n        if isinstance(self.wind_speed, list):\n            return len(self.wind_speed)\n        return 1", ["C16"]),
    ("loglaw-reordered", PB, "        absu = ustar / kap * (np.log(z / z0) + psi(z / mol))\n\n        u = um / absum * absu\n        v = vm / absum * absu\n\n        K = kap * ustar * z / phi(z / mol) / prsc\n        Kx = Ky = Kz = K",
     "        absu = (psi(z / mol) + np.log(z / z0)) * ustar / kap\n\n        u = absu * um / absum\n        v = absu / absum * vm\n\n        K = z * kap * ustar / (phi(z / mol) * prsc)\n        Kx = Ky = Kz = K", ["C09"]),
    ("io-rename", IO, None, ("ti", "slot"), ["C18"]),
    ("argsort-negated", U, "    order = np.argsort(g_flat)[::-1]", "    order = np.argsort(-g_flat)", ["C20"]),
    ("prefix-by-difference", U, "    M_shifted = np.zeros_like(M_cum)\n    M_shifted[1:] = M_cum[:-1]", "    M_shifted = M_cum - f_sorted", ["C20"]),
    ("km-inline-mr", KM, "        * x[sflag] ** (mr - 2 - mu)", "        * x[sflag] ** (m / r - 2 - mu)", ["C19"]),
    ("geo-factored", C, "    x = _EARTH_RADIUS * (lon_r - ref_lon_r) * math.cos(ref_lat_r)", "    x = math.cos(ref_lat_r) * (_EARTH_RADIUS * lon_r - _EARTH_RADIUS * ref_lon_r)", ["C17", "C08"]),
    ("wind-radians", U, "    wind_dir = np.deg2rad(wind_dir)", "    wind_dir = wind_dir * np.pi / 180.0", ["C08"]),
    ("drivers-comprehension", I, "        tasks = []\n        for tower in config.towers:\n            for i in range(n_time):\n                tasks.append((config, tower, i))\n", "        tasks = [(config, tower, i) for tower in config.towers for i in range(n_time)]\n", []),
]


def _copy_tree(dst):
    import front

    shutil.copytree(os.path.join(front.REPO, "src"), os.path.join(dst, "src"), ignore=shutil.ignore_patterns("__pycache__"))


def _apply(dst, variant, kind):
    vid, rel, old, new = variant[:4]
    path = os.path.join(dst, rel)
    try:
        s = open(path, encoding="utf-8").read()
    except FileNotFoundError:
        return False
    if old is None:
        import re

        a, b = new
        s2 = re.sub(r"\b%s\b" % re.escape(a), b, s)
        if s2 == s:
            return False
    else:
        if old not in s:
            return False
        s2 = s.replace(old, new, 1)
    try:
        compile(s2, path, "exec")
    except SyntaxError:
        return False
    open(path, "w", encoding="utf-8").write(s2)
    return True


def _apply_patch(dst, patch):
    r = subprocess.run(["patch", "-p1", "-s", "-d", dst, "-i", patch], capture_output=True, text=True)
    return r.returncode == 0


def _run(prop, root):
    env = dict(os.environ)
    env["BLDFM_REPO"] = root
    env["VERIF_EVIDENCE_DIR"] = os.path.join(root, "_evidence")
    env["VERIF_TIER"] = "quick"
    r = subprocess.run([sys.executable, os.path.join(HERE, "check.py"), prop, "--tier", "quick"], capture_output=True, text=True, env=env, timeout=900)
    lines = [l for l in r.stdout.splitlines() if l.startswith("  violated") or "VIOLATION" in l or "ANALYSIS-ERROR" in l]
    return r.returncode, lines[:2]


def seeded_variants(prop):
    out = []
    root = os.path.join(VERIF, "seeded")
    if not os.path.isdir(root):
        return out
    for d in sorted(os.listdir(root)):
        meta = os.path.join(root, d, "meta.json")
        patch = os.path.join(root, d, "patch.diff")
        if os.path.exists(meta) and os.path.exists(patch):
            try:
                m = json.load(open(meta))
            except ValueError:
                continue
            if prop in m.get("detected_by", []):
                out.append((d, patch))
    return out


FILE_PROPS = {
    "src/bldfm/solver.py": ["C01", "C02", "C03", "C04", "C05", "C06", "C07", "C08", "C10", "C11", "C12", "C14", "C15"],
    "src/bldfm/interface.py": ["C08", "C13", "C14", "C15", "C16"],
    "src/bldfm/config_parser.py": ["C08", "C13", "C14", "C16", "C17"],
    "src/bldfm/cache.py": ["C15"],
    "src/bldfm/io.py": ["C18"],
    "src/bldfm/pbl_model.py": ["C08", "C09", "C12"],
    "src/bldfm/utils.py": ["C02", "C08", "C13", "C20"],
    "src/bldfm/ffm_kormann_meixner.py": ["C19"],
    "src/bldfm/plotting/footprint.py": ["C20"],
    "src/bldfm/plotting/_geo.py": ["C17"],
    "src/bldfm/fft_manager.py": ["C12"],
}


def refactor_variants(prop):
    """behaviour-preserving refactorings written by independent sub-agents (each verified against the test suite and an
    equivalence digest): the checks of the properties anchored in the touched files must stay silent"""
    out = []
    root = os.path.join(VERIF, "refactors")
    if not os.path.isdir(root):
        return out
    for f in sorted(os.listdir(root)):
        if not f.endswith(".diff"):
            continue
        p = os.path.join(root, f)
        touched = [l[6:].strip() for l in open(p) if l.startswith("+++ b/")]
        if any(prop in FILE_PROPS.get(t, []) for t in touched):
            out.append(("refactor-" + f[:-5], p))
    return out


def run_selftest(prop, jobs=None):
    """-> (records, summary).  records: dict(id, kind, expected, rc, ok, lines)"""
    jobs = jobs or min(16, (os.cpu_count() or 4))
    work = []
    for v in BREAK:
        if prop in v[4]:
            work.append(("break", v, None))
    for v in PRESERVE:
        if prop in v[4]:
            work.append(("preserve", v, None))
    for sid, patch in seeded_variants(prop):
        work.append(("seeded", (sid, None, None, None), patch))
    for rid, patch in refactor_variants(prop):
        work.append(("preserve", (rid, None, None, None), patch))
    base = tempfile.mkdtemp(prefix="bldfm_selftest_")
    records = []

    def one(k):
        kind, v, patch = work[k]
        root = os.path.join(base, "v%d" % k)
        os.makedirs(root)
        try:
            _copy_tree(root)
            applied = _apply_patch(root, patch) if patch else _apply(root, v, kind)
            if not applied:
                return dict(id=v[0], kind=kind, skipped=True, ok=True, rc=None, lines=["anchor text no longer present in the current source: skipped"])
            rc, lines = _run(prop, root)
            want = 0 if kind == "preserve" else 1
            return dict(id=v[0], kind=kind, skipped=False, expected=want, rc=rc, ok=(rc == want), lines=lines)
        finally:
            shutil.rmtree(root, ignore_errors=True)

    try:
        with ThreadPoolExecutor(max_workers=jobs) as ex:
            records = list(ex.map(one, range(len(work))))
    finally:
        shutil.rmtree(base, ignore_errors=True)
    summ = dict(variants=len(records), breaking=sum(1 for r in records if r["kind"] != "preserve" and not r.get("skipped")),
                preserving=sum(1 for r in records if r["kind"] == "preserve" and not r.get("skipped")), skipped=sum(1 for r in records if r.get("skipped")),
                failed=[r["id"] for r in records if not r["ok"]])
    return records, summ


if __name__ == "__main__":
    recs, summ = run_selftest(sys.argv[1])
    for r in recs:
        print(r)
    print(summ)
