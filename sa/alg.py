"""E1 algebra: exact generalised rational functions over Q[i].

A value (``Expr``) is a pair of polynomials num/den.  A polynomial is a dict
``{mono: Cx}``; a monomial is a tuple of ``(Atom, exponent)`` sorted by atom id,
exponents being ``Fraction`` (fast path) or a non-constant ``Expr`` (symbolic
exponents, e.g. Kormann-Meixner).  Atoms are interned *semantically*: two opaque
applications with equal (by cross-multiplication) arguments are the same object.

Equality of two ``Expr`` is decided by cross-multiplication and comparison of
canonical monomial dictionaries.  Opaque atoms are treated as algebraically
independent, so a missed identity can only make two equal values look different
(reported as an uninterpretable obligation by the rules), never make two
different values look equal.

No solver, no CAS, stdlib only.
"""

from fractions import Fraction as Q
import math

# --------------------------------------------------------------------------
# complex rationals


class Cx:
    __slots__ = ("re", "im")

    def __init__(self, re=0, im=0):
        self.re = re if isinstance(re, Q) else Q(re)
        self.im = im if isinstance(im, Q) else Q(im)

    def __add__(self, o):
        return Cx(self.re + o.re, self.im + o.im)

    def __sub__(self, o):
        return Cx(self.re - o.re, self.im - o.im)

    def __neg__(self):
        return Cx(-self.re, -self.im)

    def __mul__(self, o):
        return Cx(self.re * o.re - self.im * o.im, self.re * o.im + self.im * o.re)

    def inv(self):
        n = self.re * self.re + self.im * self.im
        return Cx(self.re / n, -self.im / n)

    def is_zero(self):
        return self.re == 0 and self.im == 0

    def is_real(self):
        return self.im == 0

    def __eq__(self, o):
        return isinstance(o, Cx) and self.re == o.re and self.im == o.im

    def __hash__(self):
        return hash((self.re, self.im))

    def __repr__(self):
        if self.im == 0:
            return str(self.re)
        if self.re == 0:
            return "%s*i" % self.im if self.im != 1 else "i"
        return "(%s%+s*i)" % (self.re, self.im)


C0, C1, CI = Cx(0), Cx(1), Cx(0, 1)

# --------------------------------------------------------------------------
# atoms


class Atom:
    __slots__ = ("id", "kind", "name", "args", "pos", "real", "integer", "meta")
    _registry = {}
    _count = [0]

    def __init__(self, kind, name, args, pos, real, integer):
        Atom._count[0] += 1
        self.id = Atom._count[0]
        self.kind, self.name, self.args = kind, name, args
        self.pos, self.real, self.integer = pos, real, integer
        self.meta = None

    def __repr__(self):
        if self.kind == "sym":
            return self.name
        if self.kind == "base":
            return "{%r}" % (self.args[0],)
        return "%s(%s)" % (self.name, ", ".join(repr(a) for a in self.args))

    def __lt__(self, o):
        return self.id < o.id


def reset():
    """Forget all atoms (ids restart; used between independent analyses)."""
    Atom._registry.clear()
    Atom._count[0] = 0
    global E, PI
    E = _atom("sym", "e", (), pos=True, real=True)
    PI = _atom("sym", "pi", (), pos=True, real=True)


def _atom(kind, name, args, pos=False, real=True, integer=False):
    key = (kind, name, len(args))
    lst = Atom._registry.setdefault(key, [])
    for a in lst:
        if all(_same(x, y) for x, y in zip(a.args, args)):
            if pos and not a.pos:
                a.pos = True
            return a
    a = Atom(kind, name, tuple(args), pos, real, integer)
    lst.append(a)
    return a


def _same(x, y):
    if isinstance(x, Expr) and isinstance(y, Expr):
        return x.eq(y)
    return x == y


# --------------------------------------------------------------------------
# monomials and polynomials (plain tuples / dicts)


def _exp_norm(e):
    """Exponent canonical form: Fraction when constant real, else Expr."""
    if isinstance(e, Expr):
        c = e.as_const()
        if c is not None and c.im == 0:
            return c.re
        return e
    return e if isinstance(e, Q) else Q(e)


def _exp_add(a, b):
    if isinstance(a, Q) and isinstance(b, Q):
        return a + b
    return _exp_norm(as_expr(a) + as_expr(b))


def _exp_mul(a, b):
    if isinstance(a, Q) and isinstance(b, Q):
        return a * b
    return _exp_norm(as_expr(a) * as_expr(b))


def _exp_is_zero(e):
    return e == 0 if isinstance(e, Q) else e.is_zero()


def mono_mul(m1, m2):
    if not m1:
        return m2
    if not m2:
        return m1
    out = []
    i = j = 0
    while i < len(m1) and j < len(m2):
        a, ea = m1[i]
        b, eb = m2[j]
        if a.id == b.id:
            e = _exp_add(ea, eb)
            if not _exp_is_zero(e):
                out.append((a, e))
            i += 1
            j += 1
        elif a.id < b.id:
            out.append(m1[i])
            i += 1
        else:
            out.append(m2[j])
            j += 1
    out.extend(m1[i:])
    out.extend(m2[j:])
    return tuple(out)


def mono_pow(m, e):
    return tuple((a, _exp_mul(x, e)) for a, x in m)


def padd(p1, p2, sign=1):
    out = dict(p1)
    for m, c in p2.items():
        c2 = c if sign == 1 else -c
        if m in out:
            s = out[m] + c2
            if s.is_zero():
                del out[m]
            else:
                out[m] = s
        else:
            out[m] = c2
    return out


def pmul(p1, p2):
    out = {}
    for m1, c1 in p1.items():
        for m2, c2 in p2.items():
            m = mono_mul(m1, m2)
            c = c1 * c2
            if m in out:
                s = out[m] + c
                if s.is_zero():
                    del out[m]
                else:
                    out[m] = s
            else:
                out[m] = c
    return out


def pscale(p, c, m=()):
    out = {}
    for m1, c1 in p.items():
        mm = mono_mul(m1, m)
        cc = c1 * c
        if mm in out:
            s = out[mm] + cc
            if s.is_zero():
                del out[mm]
            else:
                out[mm] = s
        elif not cc.is_zero():
            out[mm] = cc
    return out


def _mono_key(m):
    return tuple((a.id, (0, e) if isinstance(e, Q) else (1, repr(e))) for a, e in m)


def _lead(p):
    """Leading (monomial, coeff) under a fixed total order."""
    m = max(p, key=_mono_key)
    return m, p[m]


def _pdiv_exact(num, den, limit=400):
    """Try num == q * den; returns q (poly) or None.  Bounded; sound either way
    (q is only returned when the remainder is exactly zero)."""
    if len(den) == 1:
        (m, c), = den.items()
        return pscale(num, c.inv(), mono_pow(m, Q(-1)))
    ids = sorted({a.id for p in (num, den) for m in p for a, _ in m})
    pos = {k: i for i, k in enumerate(ids)}

    def key(m):
        v = [Q(0)] * len(ids)
        for a, e in m:
            if not isinstance(e, Q):
                raise _NoOrder()
            v[pos[a.id]] = e
        return tuple(v)

    try:
        ml = max(den, key=key)
        cl = den[ml]
        inv_ml = mono_pow(ml, Q(-1))
        cinv = cl.inv()
        q = {}
        r = dict(num)
        steps = 0
        while r:
            steps += 1
            if steps > limit or len(r) > 4 * (len(num) + len(den)) + 50:
                return None
            mr = max(r, key=key)
            t_m = mono_mul(mr, inv_ml)
            t_c = r[mr] * cinv
            q = padd(q, {t_m: t_c})
            r = padd(r, pscale(den, t_c, t_m), sign=-1)
            for m in r:
                for a, _ in m:
                    if a.id not in pos:
                        return None
        return q
    except _NoOrder:
        return None


class _NoOrder(Exception):
    pass


ONEP = {(): C1}


# --------------------------------------------------------------------------
# expressions


class Expr:
    __slots__ = ("n", "d", "_h")

    def __init__(self, n, d=None, _raw=False):
        self.n = n
        self.d = ONEP if d is None else d
        self._h = None
        if not _raw:
            self._normalise()

    # ---- normal form
    def _normalise(self):
        n, d = self.n, self.d
        if not d:
            raise ZeroDivisionError("division by an identically zero expression")
        if not n:
            self.n, self.d = {}, ONEP
            return
        if len(d) == 1:
            (m, c), = d.items()
            if m or c != C1:
                n = pscale(n, c.inv(), mono_pow(m, Q(-1)))
            self.n, self.d = n, ONEP
            return
        # general denominator: cancel when the division is exact (either way)
        q = _pdiv_exact(n, d)
        if q is not None:
            self.n, self.d = q, ONEP
            return
        q = _pdiv_exact(d, n)
        if q is not None and len(q) == 1:
            (m, c), = q.items()
            self.n, self.d = {mono_pow(m, Q(-1)): c.inv()}, ONEP
            return
        if q is not None:
            n, d = ONEP, q
        # monomial content of the denominator goes to the numerator; leading coeff 1
        cont = None
        for m in d:
            mm = {a.id: (a, e) for a, e in m if isinstance(e, Q)}
            if cont is None:
                cont = mm
            else:
                cont = {
                    k: (a, min(e, mm[k][1])) for k, (a, e) in cont.items() if k in mm
                }
        if cont:
            cm = tuple(sorted(((a, e) for a, e in cont.values() if e != 0), key=lambda t: t[0].id))
            if cm:
                inv = mono_pow(cm, Q(-1))
                n = pscale(n, C1, inv)
                d = pscale(d, C1, inv)
        ml, cl = _lead(d)
        if cl != C1:
            n = pscale(n, cl.inv())
            d = pscale(d, cl.inv())
        self.n, self.d = n, d

    # ---- predicates
    def is_zero(self):
        return not self.n

    def as_const(self):
        if self.d is not ONEP and self.d != ONEP:
            return None
        if not self.n:
            return C0
        if len(self.n) == 1 and () in self.n:
            return self.n[()]
        return None

    def is_poly(self):
        return self.d is ONEP or self.d == ONEP

    def as_mono(self):
        """(coeff, mono) when the value is a single term, else None."""
        if self.is_poly() and len(self.n) == 1:
            (m, c), = self.n.items()
            return c, m
        return None

    def eq(self, o):
        o = as_expr(o)
        if self.d == o.d:
            return padd(self.n, o.n, -1) == {}
        return padd(pmul(self.n, o.d), pmul(o.n, self.d), -1) == {}

    def __eq__(self, o):
        if not isinstance(o, (Expr, int, Q)):
            return NotImplemented
        return self.eq(o)

    def __hash__(self):
        c = self.as_const()
        return hash(c) if c is not None else 1

    # ---- arithmetic
    def __add__(self, o):
        o = as_expr(o)
        if self.d == o.d:
            return Expr(padd(self.n, o.n), self.d)
        return Expr(padd(pmul(self.n, o.d), pmul(o.n, self.d)), pmul(self.d, o.d))

    __radd__ = __add__

    def __neg__(self):
        return Expr(pscale(self.n, -C1), self.d, _raw=True)

    def __sub__(self, o):
        return self + (-as_expr(o))

    def __rsub__(self, o):
        return as_expr(o) + (-self)

    def __mul__(self, o):
        o = as_expr(o)
        r = Expr(pmul(self.n, o.n), pmul(self.d, o.d) if not (self.is_poly() and o.is_poly()) else None)
        return _fix_bases(r)

    __rmul__ = __mul__

    def inv(self):
        return _fix_bases(Expr(self.d, self.n))

    def __truediv__(self, o):
        o = as_expr(o)
        return self * o.inv()

    def __rtruediv__(self, o):
        return as_expr(o) * self.inv()

    def __pow__(self, e):
        return power(self, e)

    # ---- inspection
    def atoms(self, deep=True, _acc=None):
        acc = set() if _acc is None else _acc
        for p in (self.n, self.d):
            for m in p:
                for a, e in m:
                    if a not in acc:
                        acc.add(a)
                        if deep:
                            for x in a.args:
                                if isinstance(x, Expr):
                                    x.atoms(True, acc)
                    if deep and isinstance(e, Expr):
                        e.atoms(True, acc)
        return acc

    def top_atoms(self):
        """atoms occurring as polynomial generators (not inside args/exponents)"""
        return {a for p in (self.n, self.d) for m in p for a, _ in m}

    def degree_in(self, atoms):
        """(min, max) total degree of numerator terms in the given atoms; None if
        they occur with non-constant exponents."""
        ids = {a.id for a in atoms}
        lo = hi = None
        for m in self.n:
            dg = Q(0)
            for a, e in m:
                if a.id in ids:
                    if not isinstance(e, Q):
                        return None
                    dg += e
            lo = dg if lo is None else min(lo, dg)
            hi = dg if hi is None else max(hi, dg)
        return (lo, hi) if lo is not None else (Q(0), Q(0))

    def coeff_of(self, atom, k):
        """coefficient (Expr) of atom**k, value must be polynomial in atom with den free of it"""
        out = {}
        for m, c in self.n.items():
            e = Q(0)
            rest = []
            for a, x in m:
                if a.id == atom.id:
                    e = x
                else:
                    rest.append((a, x))
            if e == k:
                out = padd(out, {tuple(rest): c})
        return Expr(out, self.d)

    def powers_of(self, atom):
        s = set()
        for m in self.n:
            e = Q(0)
            for a, x in m:
                if a.id == atom.id:
                    e = x
            s.add(e)
        return s

    def subs(self, mapping):
        """Replace atoms (dict Atom->Expr) everywhere, re-running constructors."""
        if not mapping:
            return self
        cache = {}

        def sub_atom(a):
            if a.id in cache:
                return cache[a.id]
            if a in mapping:
                r = as_expr(mapping[a])
            elif not a.args:
                r = atom_expr(a)
            else:
                args = [x.subs(mapping) if isinstance(x, Expr) else x for x in a.args]
                if all((x is y) or (isinstance(x, Expr) and isinstance(y, Expr) and x.n == y.n and x.d == y.d) for x, y in zip(args, a.args)):
                    r = atom_expr(a)
                else:
                    r = rebuild(a, args)
            cache[a.id] = r
            return r

        def sub_poly(p):
            tot = ZERO
            for m, c in p.items():
                t = Expr({(): c})
                for a, e in m:
                    e2 = e.subs(mapping) if isinstance(e, Expr) else e
                    t = t * power(sub_atom(a), e2)
                tot = tot + t
            return tot

        n = sub_poly(self.n)
        if self.is_poly():
            return n
        return n / sub_poly(self.d)

    def __repr__(self):
        s = _prepr(self.n)
        if self.is_poly():
            return s
        return "(%s)/(%s)" % (s, _prepr(self.d))


def _prepr(p):
    if not p:
        return "0"
    parts = []
    for m in sorted(p, key=_mono_key):
        c = p[m]
        fs = []
        for a, e in m:
            if e == 1:
                fs.append(repr(a))
            elif isinstance(e, Q):
                fs.append("%r^%s" % (a, e if e.denominator == 1 else "(%s)" % e))
            else:
                fs.append("%r^(%r)" % (a, e))
        if not fs:
            parts.append(repr(c))
        elif c == C1:
            parts.append("*".join(fs))
        elif c == -C1:
            parts.append("-" + "*".join(fs))
        else:
            parts.append(repr(c) + "*" + "*".join(fs))
    return " + ".join(parts).replace("+ -", "- ")


def as_expr(x):
    if isinstance(x, Expr):
        return x
    if isinstance(x, Cx):
        return Expr({(): x} if not x.is_zero() else {}, _raw=True)
    if isinstance(x, (int, Q)):
        return Expr({(): Cx(x)} if x != 0 else {}, _raw=True)
    if isinstance(x, Atom):
        return atom_expr(x)
    raise TypeError("cannot make an Expr of %r" % (x,))


def atom_expr(a, e=Q(1)):
    return Expr({((a, e),): C1}, _raw=True)


def const(x):
    return as_expr(Q(x))


ZERO = Expr({}, _raw=True)
ONE = Expr({(): C1}, _raw=True)
IMAG = Expr({(): CI}, _raw=True)
HALF = Expr({(): Cx(Q(1, 2))}, _raw=True)


def sym(name, pos=False, real=True, integer=False):
    return atom_expr(_atom("sym", name, (), pos=pos, real=real, integer=integer))


def sym_atom(name, **kw):
    return _atom("sym", name, (), **kw)


# --------------------------------------------------------------------------
# powers


def _fix_bases(x):
    """base(P)^e with |e| >= 1 or e < 0  ->  P^floor(e) * base(P)^frac(e)."""
    need = False
    for p in (x.n, x.d):
        for m in p:
            for a, e in m:
                if a.kind == "base" and isinstance(e, Q) and (e >= 1 or e < 0):
                    need = True
    if not need:
        return x

    def fix_poly(p):
        tot = ZERO
        for m, c in p.items():
            t = Expr({(): c}, _raw=True)
            rest = []
            extra = ONE
            for a, e in m:
                if a.kind == "base" and isinstance(e, Q) and (e >= 1 or e < 0):
                    k = math.floor(e)
                    f = e - k
                    extra = extra * _int_pow(a.args[0], k)
                    if f != 0:
                        rest.append((a, f))
                else:
                    rest.append((a, e))
            t = Expr({tuple(rest): c}, _raw=True) * extra
            tot = tot + t
        return tot

    n = fix_poly(x.n)
    if x.is_poly():
        return n
    return n / fix_poly(x.d)


def _int_pow(x, k):
    if k == 0:
        return ONE
    if k < 0:
        return _int_pow(x.inv(), -k)
    r = ONE
    b = x
    while k:
        if k & 1:
            r = r * b
        k >>= 1
        if k:
            b = b * b
    return r


def _mono_positive(c, m):
    return c.im == 0 and c.re > 0 and all(a.pos or (isinstance(e, Q) and e.denominator == 1 and e % 2 == 0) for a, e in m)


def power(x, e):
    x = as_expr(x)
    e = _exp_norm(e if isinstance(e, (Expr, Q)) else Q(e))
    if isinstance(e, Q) and e.denominator == 1:
        return _int_pow(x, int(e))
    if x.is_zero():
        return ZERO
    cm = x.as_mono()
    if cm is not None:
        c, m = cm
        if c.im == 0 and c.re > 0 and all(a.pos for a, _ in m):
            r = Expr({mono_pow(m, e): C1}, _raw=True)
            if c != C1:
                r = r * _base_pow(Expr({(): c}, _raw=True), e)
            return _fix_bases(r)
        # (p^2)^(1/2) etc. are not simplified for atoms of unknown sign
    return _base_pow(x, e)


def _base_pow(x, e):
    c = x.as_const()
    if c is not None and isinstance(e, Q) and c.im == 0 and c.re > 0:
        # exact rational roots of rational constants
        num, den = c.re.numerator, c.re.denominator
        rn, rd = _iroot(num, e.denominator), _iroot(den, e.denominator)
        if rn is not None and rd is not None:
            return _int_pow(as_expr(Q(rn, rd)), e.numerator)
    a = _atom("base", "base", (x,), pos=True)
    return _fix_bases(Expr({((a, e),): C1}, _raw=True))


def _iroot(n, k):
    if n < 0:
        return None
    r = round(n ** (1.0 / k))
    for t in (r - 1, r, r + 1):
        if t >= 0 and t**k == n:
            return t
    return None


def sqrt(x):
    return power(x, Q(1, 2))


# --------------------------------------------------------------------------
# exp / log and opaque functions


def exp(x):
    """exp of a value.  A polynomial exponent sum_k c_k*m_k is split into
    independent atoms exp(m_k)^(Re c_k) * expi(m_k)^(Im c_k) (monic monomials
    m_k), so exponentials are ordinary generators with rational exponents."""
    x = as_expr(x)
    if x.is_zero():
        return ONE
    if not x.is_poly():
        if _lead_negative(Expr(x.n)):
            return atom_expr(_atom("fn", "exp", (-x,), pos=True), Q(-1))
        return atom_expr(_atom("fn", "exp", (x,), pos=True))
    out = ONE
    for m, c in x.n.items():
        logs = [(a, e) for a, e in m if a.kind == "fn" and a.name == "log" and e == 1]
        if len(logs) == 1 and c.im == 0:
            a = logs[0][0]
            others = tuple((b, eb) for b, eb in m if b is not a)
            out = out * power(a.args[0], Expr({others: c}, _raw=True))
            continue
        if not m:
            if c.re != 0:
                out = out * atom_expr(E, c.re)
            if c.im != 0:
                out = out * atom_expr(_atom("fn", "expi", (ONE,)), c.im)
            continue
        marg = Expr({m: C1}, _raw=True)
        if c.re != 0:
            out = out * atom_expr(_atom("fn", "exp", (marg,), pos=True), c.re)
        if c.im != 0:
            out = out * atom_expr(_atom("fn", "expi", (marg,)), c.im)
    return out


def exponent_of(x):
    """Formal exponent g with x == exp(g), when x is a product of exponential
    atoms with coefficient one; else None."""
    cm = as_expr(x).as_mono()
    if cm is None or cm[0] != C1:
        return None
    g = ZERO
    for a, e in cm[1]:
        if a is E:
            g = g + as_expr(e)
        elif a.kind == "fn" and a.name == "exp":
            g = g + as_expr(e) * a.args[0]
        elif a.kind == "fn" and a.name == "expi":
            g = g + IMAG * as_expr(e) * a.args[0]
        else:
            return None
    return g


def log(x):
    x = as_expr(x)
    cm = x.as_mono()
    if cm is not None:
        c, m = cm
        if c.im == 0 and c.re > 0 and all(a.pos for a, _ in m):
            tot = ZERO
            if c != C1:
                tot = tot + fn("log", Expr({(): c}, _raw=True))
            for a, e in m:
                if a is E:
                    tot = tot + as_expr(e)
                elif a.kind == "fn" and a.name == "exp":
                    tot = tot + as_expr(e) * a.args[0]
                elif a.kind == "base":
                    tot = tot + as_expr(e) * log(a.args[0])
                else:
                    tot = tot + as_expr(e) * fn("log", atom_expr(a))
            return tot
    return fn("log", x)


def _pi_multiple(x):
    """x == q*pi for rational q -> q, else None"""
    if x.is_zero():
        return Q(0)
    cm = x.as_mono()
    if cm is None:
        return None
    c, m = cm
    if len(m) == 1 and m[0][0] is PI and m[0][1] == 1 and c.im == 0:
        return c.re
    return None


def _lead_negative(x):
    if x.is_zero() or not x.is_poly():
        return False
    _, c = _lead(x.n)
    return c.re < 0 or (c.re == 0 and c.im < 0)


_SIN = {Q(0): 0, Q(1, 2): 1, Q(1): 0, Q(3, 2): -1}


def sin(x):
    x = as_expr(x)
    q = _pi_multiple(x)
    if q is not None and (q % 2) in _SIN:
        return as_expr(_SIN[q % 2])
    if _lead_negative(x):
        return -fn("sin", -x)
    return fn("sin", x)


def cos(x):
    x = as_expr(x)
    q = _pi_multiple(x)
    if q is not None and ((q + Q(1, 2)) % 2) in _SIN:
        return as_expr(_SIN[(q + Q(1, 2)) % 2])
    if _lead_negative(x):
        return fn("cos", -x)
    return fn("cos", x)


def arctan(x):
    x = as_expr(x)
    c = x.as_const()
    if c is not None and c == C1:
        return atom_expr(PI) * Q(1, 4)
    if c is not None and c.is_zero():
        return ZERO
    return fn("arctan", x)


def fn(name, *args, pos=False, integer=False):
    args = tuple(as_expr(a) if not isinstance(a, (str, tuple)) else a for a in args)
    return atom_expr(_atom("fn", name, args, pos=pos, integer=integer))


_REBUILD = {"log": log, "sin": sin, "cos": cos, "arctan": arctan,
            "exp": exp, "expi": lambda a: exp(IMAG * a)}


def rebuild(a, args):
    if a.kind == "base":
        return _base_pow(args[0], Q(1))  # caller re-applies the exponent
    if a.kind == "fn":
        f = _REBUILD.get(a.name)
        if f is not None:
            return f(*args)
        return atom_expr(_atom("fn", a.name, tuple(args), pos=a.pos, integer=a.integer))
    return atom_expr(a)


def register_rebuild(name, f):
    _REBUILD[name] = f


# --------------------------------------------------------------------------
# calculus (for R-PSI')


def diff(x, atom):
    """d x / d atom, for the function atoms this module knows."""
    x = as_expr(x)

    def d_atom(a):
        if a.id == atom.id:
            return ONE
        if not a.args:
            return ZERO
        if a.kind == "base":
            return diff(a.args[0], atom)  # derivative of the base itself
        if a.kind == "fn":
            u = a.args[0]
            du = diff(u, atom)
            if du.is_zero():
                return ZERO
            if a.name == "log":
                return du / u
            if a.name == "arctan":
                return du / (ONE + u * u)
            if a.name == "sin":
                return cos(u) * du
            if a.name == "cos":
                return -sin(u) * du
            if a.name == "exp":
                return atom_expr(a) * du
            if a.name == "expi":
                return IMAG * atom_expr(a) * du
        if atom in as_expr(a).atoms():
            raise NotImplementedError("derivative of %r" % (a,))
        return ZERO

    def d_poly(p):
        tot = ZERO
        for m, c in p.items():
            for k, (a, e) in enumerate(m):
                if isinstance(e, Expr) and atom in e.atoms():
                    raise NotImplementedError("symbolic exponent depends on variable")
                if a.kind == "base":
                    dbase = diff(a.args[0], atom)
                    if dbase.is_zero():
                        continue
                    others = m[:k] + m[k + 1:]
                    t = Expr({others: c}, _raw=True) * as_expr(e) * power(a.args[0], _exp_add(e, Q(-1))) * dbase
                    tot = tot + t
                    continue
                da = d_atom(a)
                if da.is_zero():
                    continue
                others = m[:k] + m[k + 1:]
                t = Expr({others: c}, _raw=True) * as_expr(e) * power(atom_expr(a), _exp_add(e, Q(-1))) * da
                tot = tot + t
        return tot

    dn = d_poly(x.n)
    if x.is_poly():
        return dn
    dd = d_poly(x.d)
    n, d = Expr(x.n), Expr(x.d)
    return (dn * d - n * dd) / (d * d)


reset()
