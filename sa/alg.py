"""E1 algebra: exact generalised rational functions over Q[i].

A value (``Expr``) is ONE generalised Laurent polynomial: a dict
``{mono: Cx}`` whose monomials are tuples of ``(Atom, exponent)`` sorted by atom
id; exponents are ``Fraction`` (fast path) or a non-constant ``Expr`` (symbolic
exponents, e.g. Kormann-Meixner).  Division by a multi-term polynomial D is a
multiplication by the atom ``base(D')^-1`` (D' = D made content-free and monic),
so quotients stay polynomial in an extended set of generators.  Atoms are
interned *semantically*: two opaque applications with equal arguments are the
same object.

Equality of two values is decided by ``is_zero`` of the difference, which clears
the ``base`` denominators (multiplying through and substituting the definition)
and then compares canonical monomial dictionaries: a decision procedure for the
rational-function identities, no heuristics, no solver, no CAS.  Opaque atoms
are treated as algebraically independent, so a missed identity can only make
two equal values look different (reported as an undischarged obligation),
never make two different values look equal.
"""

from fractions import Fraction as Q
import math

# --------------------------------------------------------------------------
# complex rationals


class Cx:
    __slots__ = ("re", "im")

    def __init__(self, re=0, im=0):
        self.re = re if isinstance(re, Q) else Q(re)
        self.im = im if isinstance(im, Q) else Q(im)

    def __add__(self, o):
        return Cx(self.re + o.re, self.im + o.im)

    def __sub__(self, o):
        return Cx(self.re - o.re, self.im - o.im)

    def __neg__(self):
        return Cx(-self.re, -self.im)

    def __mul__(self, o):
        if self.im == 0 and o.im == 0:
            return Cx(self.re * o.re, 0)
        return Cx(self.re * o.re - self.im * o.im, self.re * o.im + self.im * o.re)

    def inv(self):
        n = self.re * self.re + self.im * self.im
        return Cx(self.re / n, -self.im / n)

    def is_zero(self):
        return self.re == 0 and self.im == 0

    def __eq__(self, o):
        return isinstance(o, Cx) and self.re == o.re and self.im == o.im

    def __hash__(self):
        return hash((self.re, self.im))

    def __repr__(self):
        if self.im == 0:
            return str(self.re)
        if self.re == 0:
            return "%s*i" % self.im if self.im != 1 else "i"
        return "(%s%+s*i)" % (self.re, self.im)


C0, C1, CI = Cx(0), Cx(1), Cx(0, 1)

# --------------------------------------------------------------------------
# atoms


class Atom:
    __slots__ = ("id", "kind", "name", "args", "pos", "real", "integer", "meta")
    _registry = {}
    _count = [0]

    def __init__(self, kind, name, args, pos, real, integer):
        Atom._count[0] += 1
        self.id = Atom._count[0]
        self.kind, self.name, self.args = kind, name, args
        self.pos, self.real, self.integer = pos, real, integer
        self.meta = None

    def __repr__(self):
        if self.kind == "sym":
            return self.name
        if self.kind == "base":
            return "{%r}" % (self.args[0],)
        if self.kind == "def":
            return "<%s#%d>" % (self.meta or "def", self.id)
        return "%s(%s)" % (self.name, ", ".join(repr(a) for a in self.args))


E = PI = None


def reset():
    """Forget all atoms (ids restart; used between independent analyses)."""
    Atom._registry.clear()
    Atom._count[0] = 0
    _DEFS.clear()
    _ROOTS.clear()
    _AFP.clear()
    global E, PI
    E = _atom("sym", "e", (), pos=True, real=True)
    PI = _atom("sym", "pi", (), pos=True, real=True)


def _atom(kind, name, args, pos=False, real=True, integer=False):
    key = (kind, name, len(args))
    lst = Atom._registry.setdefault(key, [])
    for a in lst:
        if all(_same(x, y) for x, y in zip(a.args, args)):
            if pos and not a.pos:
                a.pos = True
            if integer and not a.integer:
                a.integer = True
            return a
    a = Atom(kind, name, tuple(args), pos, real, integer)
    lst.append(a)
    return a


_CMP = set()


def _same(x, y):
    if isinstance(x, Expr) and isinstance(y, Expr):
        if x.n == y.n:
            return True
        fa, fb = x.fp(), y.fp()
        if fa is not None and fb is not None and fa != fb:
            return False
        key = (frozenset(x.n.items()), frozenset(y.n.items()))
        if key in _CMP or len(_CMP) > 40:
            return False  # comparison already in progress further up: treat as distinct (sound: never merges different values)
        _CMP.add(key)
        try:
            return x.eq(y)
        finally:
            _CMP.discard(key)
    if isinstance(x, Expr) or isinstance(y, Expr):
        return False
    return x == y


# --------------------------------------------------------------------------
# monomials and polynomials (plain tuples / dicts)


NUM = (int, Q)


def _exp_norm(e):
    """Exponent canonical form: int / Fraction when constant real, else Expr."""
    if isinstance(e, Expr):
        c = e.as_const()
        if c is not None and c.im == 0:
            e = c.re
        else:
            return e
    if isinstance(e, int):
        return e
    if not isinstance(e, NUM):
        e = Q(e)
    return e.numerator if e.denominator == 1 else e


def _exp_add(a, b):
    if isinstance(a, int) and isinstance(b, int):
        return a + b
    if isinstance(a, NUM) and isinstance(b, NUM):
        return _exp_norm(a + b)
    return _exp_norm(as_expr(a) + as_expr(b))


def _exp_mul(a, b):
    if isinstance(a, int) and isinstance(b, int):
        return a * b
    if isinstance(a, NUM) and isinstance(b, NUM):
        return _exp_norm(a * b)
    return _exp_norm(as_expr(a) * as_expr(b))


def _exp_is_zero(e):
    return e == 0 if isinstance(e, NUM) else e.is_zero()


def mono_mul(m1, m2):
    if not m1:
        return m2
    if not m2:
        return m1
    out = []
    i = j = 0
    while i < len(m1) and j < len(m2):
        a, ea = m1[i]
        b, eb = m2[j]
        if a.id == b.id:
            e = _exp_add(ea, eb)
            if not _exp_is_zero(e):
                out.append((a, e))
            i += 1
            j += 1
        elif a.id < b.id:
            out.append(m1[i])
            i += 1
        else:
            out.append(m2[j])
            j += 1
    out.extend(m1[i:])
    out.extend(m2[j:])
    return tuple(out)


def mono_pow(m, e):
    return tuple((a, _exp_mul(x, e)) for a, x in m)


def padd(p1, p2, sign=1):
    out = dict(p1)
    for m, c in p2.items():
        c2 = c if sign == 1 else -c
        if m in out:
            s = out[m] + c2
            if s.is_zero():
                del out[m]
            else:
                out[m] = s
        else:
            out[m] = c2
    return out


def pmul(p1, p2):
    out = {}
    for m1, c1 in p1.items():
        for m2, c2 in p2.items():
            m = mono_mul(m1, m2)
            c = c1 * c2
            if m in out:
                s = out[m] + c
                if s.is_zero():
                    del out[m]
                else:
                    out[m] = s
            else:
                out[m] = c
    return out


def pscale(p, c, m=()):
    out = {}
    for m1, c1 in p.items():
        mm = mono_mul(m1, m)
        cc = c1 * c
        if mm in out:
            s = out[mm] + cc
            if s.is_zero():
                del out[mm]
            else:
                out[mm] = s
        elif not cc.is_zero():
            out[mm] = cc
    return out


def _mono_key(m):
    return tuple((a.id, (0, e) if isinstance(e, NUM) else (1, repr(e))) for a, e in m)


def _lead(p):
    m = max(p, key=_mono_key)
    return m, p[m]


class _NoOrder(Exception):
    pass


def _pdiv_exact(num, den, limit=200):
    """Try num == q * den; returns q (poly) or None.  Bounded; sound either way
    (q is only returned when the remainder is exactly zero)."""
    if len(den) == 1:
        (m, c), = den.items()
        return pscale(num, c.inv(), mono_pow(m, -1))
    ids = sorted({a.id for p in (num, den) for m in p for a, _ in m})
    pos = {k: i for i, k in enumerate(ids)}

    def key(m):
        v = [0] * len(ids)
        for a, e in m:
            if not isinstance(e, NUM):
                raise _NoOrder()
            v[pos[a.id]] = e
        return tuple(v)

    try:
        ml = max(den, key=key)
        cl = den[ml]
        inv_ml = mono_pow(ml, -1)
        cinv = cl.inv()
        q = {}
        r = dict(num)
        steps = 0
        while r:
            steps += 1
            if steps > limit or len(r) > 3 * (len(num) + len(den)) + 20:
                return None
            mr = max(r, key=key)
            t_m = mono_mul(mr, inv_ml)
            t_c = r[mr] * cinv
            q = padd(q, {t_m: t_c})
            r = padd(r, pscale(den, t_c, t_m), sign=-1)
        return q
    except (_NoOrder, KeyError):
        return None


# --------------------------------------------------------------------------
# expressions


class Expr:
    __slots__ = ("n", "_z", "_s", "_x", "_f")

    def __init__(self, n):
        self.n = n
        self._z = None
        self._s = None
        self._x = None
        self._f = None

    def fp(self):
        """Evaluation at a fixed pseudo-random point of F_p (i -> sqrt(-1)).
        Two values with different fingerprints are different rational
        functions; equal fingerprints prove nothing (the exact test decides).
        None when the value has symbolic / unsupported fractional exponents."""
        if self._f is None:
            self._f = _fingerprint(self)
        return None if self._f is False else self._f

    def has_defs(self):
        for m in self.n:
            for a, e in m:
                if a.kind == "def" or (isinstance(e, Expr) and e.has_defs()):
                    return True
                if a.kind == "fn" and a.name in ("exp", "expi") and a.args[0].has_defs():
                    return True
        return False

    def expand(self, pred=None):
        """Replace definitional atoms (all, or those with pred(atom)) by their
        definitions, recursively, at polynomial level and in exponents."""
        if pred is None and self._x is not None:
            return self._x
        if not self.has_defs():
            if pred is None:
                self._x = self
            return self
        tot = ZERO
        changed = False
        for m, c in self.n.items():
            t = None
            plain = []
            for a, e in m:
                e2 = e
                if isinstance(e, Expr) and e.has_defs():
                    e2 = _exp_norm(e.expand(pred))
                    changed = True
                if a.kind == "def" and (pred is None or pred(a)):
                    f = power(a.args[0].expand(pred), e2)
                    t = f if t is None else t * f
                    changed = True
                elif a.kind == "fn" and a.name in ("exp", "expi") and pred is None and isinstance(e2, NUM) and a.args[0].has_defs():
                    g = a.args[0].expand() * as_expr(e2)
                    f = exp(g if a.name == "exp" else IMAG * g)  # the exponent is re-split term by term
                    t = f if t is None else t * f
                    changed = True
                elif e2 is not e:
                    f = power(atom_expr(a), e2)
                    t = f if t is None else t * f
                else:
                    plain.append((a, e))
            base = Expr({tuple(plain): c})
            tot = tot + (base if t is None else base * t)
        r = tot if changed else self
        if pred is None:
            self._x = r
            r._x = r
        return r

    def simp(self):
        """Cancel base-denominators when the division is exact (value unchanged)."""
        if self._s is not None:
            return self._s
        r = self
        if len(self.n) > 1 and self._has_neg_base():
            num, den = _num_den(self)
            num, den = num.expand(), den.expand()
            if not num.n:
                r = ZERO
            else:
                q = _pdiv_exact(num.n, den.n)
                if q is not None:
                    r = _fix_bases(Expr(q))
                    if r._has_neg_base() and len(r.n) > 1 and r.n != self.n:
                        r = r.simp()
        self._s = r
        r._s = r
        return r

    # ---- predicates
    def _has_neg_base(self):
        for m in self.n:
            for a, e in m:
                if a.kind == "base" and isinstance(e, NUM) and e < 0:
                    return True
        return False

    def is_zero(self):
        if not self.n:
            return True
        if self._z is None:
            f = self.fp()
            if f is not None and f != 0:
                self._z = False
                return False
            x = self
            if self.has_defs():
                x = self.expand()
            if not x.n:
                self._z = True
            elif len(x.n) == 1 or not x._has_neg_base():
                self._z = False
            else:
                self._z = not _clear_den(x.n)
        return self._z

    def as_const(self):
        if not self.n:
            return C0
        if len(self.n) == 1:
            return self.n.get(())
        if self._has_neg_base():
            r = self.simp()
            if r is not self:
                return r.as_const()
        return None

    def is_poly(self):
        return True

    def as_mono(self):
        """(coeff, mono) when the value is a single term, else None."""
        if len(self.n) == 1:
            (m, c), = self.n.items()
            return c, m
        if self._has_neg_base():
            r = self.simp()
            if r is not self:
                return r.as_mono()
        return None

    def eq(self, o):
        o = as_expr(o)
        if self.n == o.n:
            return True
        fa, fb = self.fp(), o.fp()
        if fa is not None and fb is not None and fa != fb:
            return False
        return Expr(padd(self.n, o.n, -1)).is_zero()

    def __eq__(self, o):
        if not isinstance(o, (Expr, int, Q)):
            return NotImplemented
        return self.eq(o)

    def __hash__(self):
        c = self.as_const()
        return hash(c) if c is not None else 1

    # ---- arithmetic
    def __add__(self, o):
        o = as_expr(o)
        if not o.n:
            return self
        if not self.n:
            return o
        return Expr(padd(self.n, o.n))

    __radd__ = __add__

    def __neg__(self):
        return Expr(pscale(self.n, -C1))

    def __sub__(self, o):
        o = as_expr(o)
        if not o.n:
            return self
        return Expr(padd(self.n, o.n, -1))

    def __rsub__(self, o):
        return as_expr(o) - self

    def __mul__(self, o):
        o = as_expr(o)
        if not self.n or not o.n:
            return ZERO
        return _fix_bases(Expr(pmul(self.n, o.n)))

    __rmul__ = __mul__

    def inv(self):
        if not self.n:
            raise ZeroDivisionError("division by an identically zero expression")
        if len(self.n) == 1:
            (m, c), = self.n.items()
            return _fix_bases(Expr({mono_pow(m, -1): c.inv()}))
        if self.is_zero():
            raise ZeroDivisionError("division by an identically zero expression")
        # content-free, monic denominator as a generator
        cont = None
        for m in self.n:
            mm = {a.id: (a, e) for a, e in m if isinstance(e, NUM)}
            if cont is None:
                cont = mm
            else:
                cont = {k: (a, min(e, mm[k][1])) for k, (a, e) in cont.items() if k in mm}
        cm = tuple(sorted(((a, e) for a, e in (cont or {}).values() if e != 0), key=lambda t: t[0].id))
        d = self.n
        if cm:
            d = pscale(d, C1, mono_pow(cm, -1))
        ml, cl = _lead(d)
        if cl != C1:
            d = pscale(d, cl.inv())
        D = Expr(d)
        b = _atom("base", "base", (D,), pos=(manifest_sign(D) == {"+"}))
        return Expr({mono_mul(((b, -1),), mono_pow(cm, -1)): cl.inv()})

    def __truediv__(self, o):
        o = as_expr(o)
        if len(o.n) > 1 and len(self.n) >= 1:
            if self.n == o.n:
                return ONE
            q = _pdiv_exact(self.n, o.n)
            if q is not None:
                return _fix_bases(Expr(q))
        return self * o.inv()

    def __rtruediv__(self, o):
        return as_expr(o) / self

    def __pow__(self, e):
        return power(self, e)

    # ---- inspection
    def atoms(self, deep=True, _acc=None):
        acc = set() if _acc is None else _acc
        for m in self.n:
            for a, e in m:
                if a not in acc:
                    acc.add(a)
                    if deep:
                        for x in a.args:
                            if isinstance(x, Expr):
                                x.atoms(True, acc)
                if deep and isinstance(e, Expr):
                    e.atoms(True, acc)
        return acc

    def top_atoms(self):
        """atoms occurring as polynomial generators (not inside args/exponents)"""
        return {a for m in self.n for a, _ in m}

    def degree_in(self, atoms):
        """(min, max) total degree of the terms in the given atoms; None if they
        occur with non-constant exponents."""
        ids = {a.id for a in atoms}
        lo = hi = None
        for m in self.n:
            dg = 0
            for a, e in m:
                if a.id in ids:
                    if not isinstance(e, NUM):
                        return None
                    dg += e
            lo = dg if lo is None else min(lo, dg)
            hi = dg if hi is None else max(hi, dg)
        return (lo, hi) if lo is not None else (0, 0)

    def coeff_of(self, atom, k):
        """coefficient (Expr) of atom**k"""
        out = {}
        for m, c in self.n.items():
            e = 0
            rest = []
            for a, x in m:
                if a.id == atom.id:
                    e = x
                else:
                    rest.append((a, x))
            if e == k:
                out = padd(out, {tuple(rest): c})
        return Expr(out)

    def powers_of(self, atom):
        s = set()
        for m in self.n:
            e = 0
            for a, x in m:
                if a.id == atom.id:
                    e = x
            s.add(e)
        return s

    def subs(self, mapping):
        """Replace atoms (dict Atom->Expr) everywhere, re-running constructors."""
        if not mapping:
            return self
        cache = {}

        def sub_atom(a):
            if a.id in cache:
                return cache[a.id]
            if a in mapping:
                r = as_expr(mapping[a])
            elif not a.args:
                r = atom_expr(a)
            else:
                args = [x.subs(mapping) if isinstance(x, Expr) else x for x in a.args]
                if all((x is y) or (isinstance(x, Expr) and isinstance(y, Expr) and x.n == y.n) for x, y in zip(args, a.args)):
                    r = atom_expr(a)
                else:
                    r = rebuild(a, args)
            cache[a.id] = r
            return r

        tot = ZERO
        for m, c in self.n.items():
            t = Expr({(): c})
            for a, e in m:
                e2 = e.subs(mapping) if isinstance(e, Expr) else e
                e2 = _exp_norm(e2)
                t = t * power(sub_atom(a), e2)
            tot = tot + t
        return tot

    def num_den(self):
        """clear denominators formally: (numerator Expr, denominator Expr)"""
        return _num_den(self)

    def __repr__(self):
        return _prepr(self.n)


def _prepr(p):
    if not p:
        return "0"
    parts = []
    for m in sorted(p, key=_mono_key):
        c = p[m]
        fs = []
        for a, e in m:
            if e == 1:
                fs.append(repr(a))
            elif isinstance(e, NUM):
                fs.append("%r^%s" % (a, e if e.denominator == 1 else "(%s)" % e))
            else:
                fs.append("%r^(%r)" % (a, e))
        if not fs:
            parts.append(repr(c))
        elif c == C1:
            parts.append("*".join(fs))
        elif c == -C1:
            parts.append("-" + "*".join(fs))
        else:
            parts.append(repr(c) + "*" + "*".join(fs))
    return " + ".join(parts).replace("+ -", "- ")


def _clear_den(p, depth=0):
    """Multiply a polynomial through by its base-denominators and substitute
    their definitions; returns the resulting polynomial dict ({} iff zero)."""
    if depth > 16:
        return p
    target = None
    for m in p:
        for a, e in m:
            if a.kind == "base" and isinstance(e, NUM) and e < 0:
                target = a
                break
        if target is not None:
            break
    if target is None:
        return p
    k = 0
    for m in p:
        for a, e in m:
            if a is target and isinstance(e, NUM) and e < 0:
                k = max(k, math.ceil(-e))
    shifted = pscale(p, C1, ((target, k),))
    x = _fix_bases(Expr(shifted))
    if x.n and x.has_defs():
        x = x.expand()  # definitions inside the substituted denominators
    if not x.n:
        return {}
    return _clear_den(x.n, depth + 1)


def _num_den(x):
    """x == num/den with den a product of base definitions (both Expr)."""
    num = x
    den = ONE
    for _ in range(16):
        target = None
        k = 0
        for m in num.n:
            for a, e in m:
                if a.kind == "base" and isinstance(e, NUM) and e < 0:
                    if target is None:
                        target = a
                    if a is target:
                        k = max(k, math.ceil(-e))
        if target is None:
            break
        num = _fix_bases(Expr(pscale(num.n, C1, ((target, k),))))
        den = den * _fix_bases(atom_expr(target, k))
    return num, den


# ---- fingerprints (fast, sound *inequality* test) ---------------------------


def _is_prime(n):
    if n < 2:
        return False
    for q in (2, 3, 5, 7, 11, 13, 17, 19, 23, 29, 31, 37):
        if n % q == 0:
            return n == q
    d, r = n - 1, 0
    while d % 2 == 0:
        d //= 2
        r += 1
    for a in (2, 3, 5, 7, 11, 13, 17, 19, 23, 29, 31, 37):
        x = pow(a, d, n)
        if x in (1, n - 1):
            continue
        for _ in range(r - 1):
            x = x * x % n
            if x == n - 1:
                break
        else:
            return False
    return True


def _find_prime():
    p = (1 << 61) + 1
    while not (p % 4 == 1 and _is_prime(p)):
        p += 4
    g = 2
    while pow(g, (p - 1) // 2, p) != p - 1:
        g += 1
    return p, pow(g, (p - 1) // 4, p)


_P, _SQRTM1 = _find_prime()
_ROOTS = {}
_AFP = {}


def _sqrt_mod(a):
    """a square root of a mod _P (deterministic), or None"""
    a %= _P
    if a == 0:
        return 0
    if pow(a, (_P - 1) // 2, _P) != 1:
        return None
    q, s_ = _P - 1, 0
    while q % 2 == 0:
        q //= 2
        s_ += 1
    z = 2
    while pow(z, (_P - 1) // 2, _P) != _P - 1:
        z += 1
    m, c, t, r = s_, pow(z, q, _P), pow(a, q, _P), pow(a, (q + 1) // 2, _P)
    while t != 1:
        i, t2 = 0, t
        while t2 != 1:
            t2 = t2 * t2 % _P
            i += 1
        b = pow(c, 1 << (m - i - 1), _P)
        m, c = i, b * b % _P
        t, r = t * c % _P, r * b % _P
    return min(r, _P - r)


def _cx_mod(c):
    v = c.re.numerator * pow(c.re.denominator, -1, _P)
    if c.im != 0:
        v += _SQRTM1 * c.im.numerator * pow(c.im.denominator, -1, _P)
    return v % _P


def _atom_fp(a, e):
    """residue of a**e, or None"""
    if isinstance(e, Expr):
        return None
    if a.kind == "def" or a.kind == "base":
        key = a.id
        v = _AFP.get(key)
        if v is None:
            f = a.args[0].fp()
            v = False if f is None else f
            _AFP[key] = v
        if v is False:
            return None
        if isinstance(e, int):
            if e < 0 and v == 0:
                return None
            return pow(v, e, _P)
        if a.kind == "base" and e.denominator == 2:
            r = _ROOTS.get(key)
            if r is None:
                r = _sqrt_mod(v)
                _ROOTS[key] = False if r is None else r
            if r is None or r is False or r == 0:
                return None
            return pow(r, e.numerator, _P)
        return None
    g = _AFP.get(a.id)
    if g is None:
        g = pow(a.id * 2654435761 + 40503, 5, _P) or 7
        _AFP[a.id] = g
    if isinstance(e, int):
        return pow(g, 12 * e, _P)
    if 12 % e.denominator == 0:
        return pow(g, e.numerator * (12 // e.denominator), _P)
    return None


def _fingerprint(x):
    tot = 0
    for m, c in x.n.items():
        t = _cx_mod(c)
        for a, e in m:
            f = _atom_fp(a, e)
            if f is None:
                return False
            t = t * f % _P
        tot += t
    return tot % _P


def as_expr(x):
    if isinstance(x, Expr):
        return x
    if isinstance(x, Cx):
        return Expr({(): x} if not x.is_zero() else {})
    if isinstance(x, (int, Q)):
        return Expr({(): Cx(x)} if x != 0 else {})
    if isinstance(x, Atom):
        return atom_expr(x)
    raise TypeError("cannot make an Expr of %r" % (x,))


def atom_expr(a, e=1):
    return Expr({((a, _exp_norm(e)),): C1})


def const(x):
    return as_expr(Q(x))


ZERO = Expr({})
ONE = Expr({(): C1})
IMAG = Expr({(): CI})
HALF = Expr({(): Cx(Q(1, 2))})


_DEFS = {}


def define(x, label=None):
    """Definitional atom for a multi-term value (value numbering): keeps
    downstream expressions small; `expand()` substitutes it back."""
    x = as_expr(x)
    if len(x.n) < 2:
        return x
    if len(x.n) <= 4 and x.has_defs():
        y = x.expand()
        if len(y.n) < 2:
            return y  # the definitions cancel to a single term: no new name needed
    key = frozenset(x.n.items())
    a = _DEFS.get(key)
    if a is None:
        sg = manifest_sign(x)
        integer = all(c.im == 0 and c.re.denominator == 1 for c in x.n.values()) and all(
            b.integer and isinstance(e, NUM) and e.denominator == 1 and e >= 0 for m in x.n for b, e in m)
        a = Atom("def", "def", (x,), sg == {"+"}, True, integer)
        a.meta = label
        _DEFS[key] = a
    return atom_expr(a)


def sym(name, pos=False, real=True, integer=False):
    return atom_expr(_atom("sym", name, (), pos=pos, real=real, integer=integer))


def sym_atom(name, **kw):
    return _atom("sym", name, (), **kw)


def manifest_sign(e):
    """sign set derivable from positivity flags alone"""
    if not e.n:
        return {"0"}
    signs = set()
    for m, c in e.n.items():
        if c.im != 0:
            return {"-", "0", "+"}
        okpos = all(a.pos or (isinstance(x, NUM) and x.denominator == 1 and x % 2 == 0 and a.real) for a, x in m)
        if not okpos:
            return {"-", "0", "+"}
        strict = all(a.pos for a, x in m)
        signs.add(("+" if c.re > 0 else "-", strict))
    kinds = {s for s, _ in signs}
    if len(kinds) == 1:
        s = next(iter(kinds))
        if any(st for _, st in signs):
            return {s}
        return {s, "0"}
    return {"-", "0", "+"}


# --------------------------------------------------------------------------
# powers


def _absorb(x):
    """M^k * base(M)^e -> base(M)^(e+k) for a single-term M and integer k (an identity
    for every non-zero M); keeps products of a monomial and its own symbolic power canonical."""
    cand = False
    for m in x.n:
        for a, e in m:
            if a.kind == "base" and len(a.args[0].n) == 1 and not isinstance(e, int):
                cand = True
    if not cand:
        return x
    out = {}
    for m, c in x.n.items():
        m2, c2 = m, c
        for a, e in m:
            if not (a.kind == "base" and len(a.args[0].n) == 1 and not isinstance(e, int)):
                continue
            (mm, cc), = a.args[0].n.items()
            if not mm or cc != C1:
                continue
            cur = {b.id: eb for b, eb in m2}
            ks = set()
            ok = True
            for b, eb in mm:
                fb = cur.get(b.id)
                if fb is None or not isinstance(fb, NUM) or not isinstance(eb, NUM):
                    ok = False
                    break
                q = Q(fb) / Q(eb)
                if q.denominator != 1:
                    ok = False
                    break
                ks.add(int(q))
            if not ok or len(ks) != 1:
                continue
            k = ks.pop()
            if k == 0:
                continue
            ids = {b.id for b, _ in mm}
            rest = tuple((b, (_exp_add(eb, k) if b is a else eb)) for b, eb in m2 if b.id not in ids)
            m2 = tuple((b, eb) for b, eb in rest if not _exp_is_zero(eb))
        out = padd(out, {m2: c2})
    return Expr(out)


def _fix_bases(x):
    """base(P)^e with e >= 1  ->  P^floor(e) * base(P)^frac(e)."""
    x = _absorb(x)
    need = False
    for m in x.n:
        for a, e in m:
            if a.kind == "base" and isinstance(e, NUM) and e >= 1:
                need = True
                break
        if need:
            break
    if not need:
        return x
    tot = {}
    for m, c in x.n.items():
        rest = []
        extra = None
        for a, e in m:
            if a.kind == "base" and isinstance(e, NUM) and e >= 1:
                k = math.floor(e)
                f = e - k
                pk = _int_pow(a.args[0], k)
                extra = pk if extra is None else extra * pk
                if f != 0:
                    rest.append((a, f))
            else:
                rest.append((a, e))
        if extra is None:
            tot = padd(tot, {m: c})
        else:
            t = Expr({tuple(rest): c}) * extra
            tot = padd(tot, t.n)
    return Expr(tot)


def _int_pow(x, k):
    if k == 0:
        return ONE
    if k < 0:
        return _int_pow(x.inv(), -k)
    r = None
    b = x
    while k:
        if k & 1:
            r = b if r is None else r * b
        k >>= 1
        if k:
            b = b * b
    return r


def power(x, e):
    x = as_expr(x)
    e = _exp_norm(e if isinstance(e, (Expr, int, Q)) else Q(e))
    if isinstance(e, int):
        return _int_pow(x, e)
    if not x.n:
        return ZERO
    cm = x.as_mono()
    if cm is not None:
        c, m = cm
        if c.im == 0 and c.re > 0 and all(a.pos for a, _ in m):
            r = Expr({mono_pow(m, e): C1})
            if c != C1:
                r = r * _base_pow(Expr({(): c}), e)
            return _fix_bases(r)
        if x.has_defs():
            y = x.expand()
            cm2 = y.as_mono()
            if cm2 is not None and cm2[0].im == 0 and cm2[0].re > 0 and all(a.pos for a, _ in cm2[1]):
                return power(y, e)  # positive monomial once the definitions are substituted
        if c == C1 and len(m) == 1 and m[0][1] == 1:
            return _fix_bases(Expr({((m[0][0], e),): C1}))  # (a^1)^e
        # (p^2)^(1/2) etc. are not simplified for atoms of unknown sign
    return _base_pow(x, e)


def _base_pow(x, e):
    x = x.simp()
    c = x.as_const()
    if c is not None and isinstance(e, NUM) and c.im == 0 and c.re > 0:
        num, den = c.re.numerator, c.re.denominator
        rn, rd = _iroot(num, e.denominator), _iroot(den, e.denominator)
        if rn is not None and rd is not None:
            return _int_pow(as_expr(Q(rn, rd)), e.numerator)
    a = _atom("base", "base", (x,), pos=(manifest_sign(x) == {"+"}))
    return _fix_bases(Expr({((a, e),): C1}))


def _iroot(n, k):
    if n < 0:
        return None
    r = round(n ** (1.0 / k))
    for t in (r - 1, r, r + 1):
        if t >= 0 and t**k == n:
            return t
    return None


def sqrt(x):
    return power(x, Q(1, 2))


# --------------------------------------------------------------------------
# exp / log and opaque functions


def _lead_negative(x):
    if not x.n:
        return False
    if x.has_defs():
        x = x.expand()  # the sign convention must not depend on how the argument was named
        if not x.n:
            return False
    _, c = _lead(x.n)
    return c.re < 0 or (c.re == 0 and c.im < 0)


def exp(x):
    """exp of a value.  The exponent sum_k c_k*m_k is split into independent
    atoms exp(m_k)^(Re c_k) * expi(m_k)^(Im c_k) (monic monomials m_k), so
    exponentials are ordinary generators with rational exponents."""
    x = as_expr(x)
    if not x.n:
        return ONE
    out = ONE
    for m, c in x.n.items():
        logs = [(a, e) for a, e in m if a.kind == "fn" and a.name == "log" and e == 1]
        if len(logs) == 1 and c.im == 0 and (len(m) == 1 or (len(m) == 2 and all(b.kind == "sym" and eb == 1 for b, eb in m if b is not logs[0][0]))):
            a = logs[0][0]
            others = tuple((b, eb) for b, eb in m if b is not a)
            out = out * power(a.args[0], Expr({others: c}))
            continue
        if not m:
            if c.re != 0:
                out = out * atom_expr(E, c.re)
            if c.im != 0:
                out = out * atom_expr(_atom("fn", "expi", (ONE,)), c.im)
            continue
        marg = Expr({m: C1})
        if c.re != 0:
            a, r = _exp_atom("exp", marg)
            out = out * atom_expr(a, c.re * r)
        if c.im != 0:
            a, r = _exp_atom("expi", marg)
            out = out * atom_expr(a, c.im * r)
    return out


_SMALLQ = {}


def _exp_atom(kind, marg):
    """exp/expi generator for the monic monomial marg; an existing generator
    whose argument is a rational multiple of marg is reused (marg == r*arg),
    so that the same exponential never gets two representations"""
    lst = Atom._registry.get(("fn", kind, 1), [])
    fx = marg.fp()
    if fx is not None and fx != 0 and lst:
        if not _SMALLQ:
            for d in range(1, 25):
                for n in range(1, 49):
                    if math.gcd(n, d) == 1:
                        _SMALLQ.setdefault(n * pow(d, -1, _P) % _P, Q(n, d))
        for a in lst:
            if a.args[0].n == marg.n:
                return a, 1
            fy = a.args[0].fp()
            if fy is None or fy == 0:
                continue
            rho = fx * pow(fy, -1, _P) % _P
            r = _SMALLQ.get(rho)
            if r is not None and marg.eq(a.args[0] * r):
                return a, _exp_norm(r)
    return _atom("fn", kind, (marg,), pos=(kind == "exp")), 1


def exponent_of(x):
    """Formal exponent g with x == exp(g), when x is a product of exponential
    atoms with coefficient one; else None."""
    cm = as_expr(x).as_mono()
    if cm is None or cm[0] != C1:
        return None
    g = ZERO
    for a, e in cm[1]:
        if a is E:
            g = g + as_expr(e)
        elif a.kind == "fn" and a.name == "exp":
            g = g + as_expr(e) * a.args[0]
        elif a.kind == "fn" and a.name == "expi":
            g = g + IMAG * as_expr(e) * a.args[0]
        else:
            return None
    return g


def log(x):
    x = as_expr(x)
    cm = x.as_mono()
    if cm is not None:
        c, m = cm
        if c.im == 0 and c.re > 0 and all(a.pos for a, _ in m):
            tot = ZERO
            if c != C1:
                tot = tot + fn("log", Expr({(): c}))
            for a, e in m:
                if a is E:
                    tot = tot + as_expr(e)
                elif a.kind == "fn" and a.name == "exp":
                    tot = tot + as_expr(e) * a.args[0]
                elif a.kind == "base":
                    tot = tot + as_expr(e) * log(a.args[0])
                else:
                    tot = tot + as_expr(e) * fn("log", atom_expr(a))
            return tot
    return fn("log", x)


def formal_log(x, _depth=0):
    """log of a single-term value as a linear form in LOG(.) generators, valid on
    the domain where every factor is positive: log(c * prod a_i^e_i) = log c + sum e_i log a_i.
    Multi-term factors (after expanding definitions) become opaque LOG(factor) generators,
    interned semantically.  Returns None when x is not a single term."""
    x = as_expr(x)
    if _depth > 12:
        return None
    if len(x.n) != 1:
        y = x.expand().simp() if x.has_defs() else x.simp()
        if len(y.n) != 1:
            return fn("LOG", y)
        x = y
    (m, c), = x.n.items()
    tot = ZERO
    if c != C1:
        if c.im != 0 or c.re <= 0:
            return None
        tot = tot + fn("LOG", Expr({(): c}))
    for a, e in m:
        ee = as_expr(e)
        if a is E:
            tot = tot + ee
        elif a.kind == "fn" and a.name == "exp":
            arg = a.args[0].expand() if a.args[0].has_defs() else a.args[0]
            tot = tot + ee * arg
        elif a.kind in ("base", "def"):
            inner = formal_log(a.args[0], _depth + 1)
            if inner is None:
                return None
            tot = tot + ee * inner
        else:
            tot = tot + ee * fn("LOG", atom_expr(a))
    return tot


def _pi_multiple(x):
    """x == q*pi for rational q -> q, else None"""
    if not x.n:
        return Q(0)
    cm = x.as_mono()
    if cm is None:
        return None
    c, m = cm
    if len(m) == 1 and m[0][0] is PI and m[0][1] == 1 and c.im == 0:
        return c.re
    return None


_SIN = {Q(0): 0, Q(1, 2): 1, Q(1): 0, Q(3, 2): -1}


def sin(x):
    x = as_expr(x)
    q = _pi_multiple(x)
    if q is not None and (q % 2) in _SIN:
        return as_expr(_SIN[q % 2])
    if _lead_negative(x):
        return -fn("sin", -x)
    return fn("sin", x)


def cos(x):
    x = as_expr(x)
    q = _pi_multiple(x)
    if q is not None and ((q + Q(1, 2)) % 2) in _SIN:
        return as_expr(_SIN[(q + Q(1, 2)) % 2])
    if _lead_negative(x):
        return fn("cos", -x)
    return fn("cos", x)


def arctan(x):
    x = as_expr(x)
    c = x.as_const()
    if c is not None and c == C1:
        return atom_expr(PI) * Q(1, 4)
    if c is not None and c.is_zero():
        return ZERO
    return fn("arctan", x)


def fn(name, *args, pos=False, integer=False):
    args = tuple(as_expr(a).simp() if not isinstance(a, (str, tuple)) else a for a in args)
    return atom_expr(_atom("fn", name, args, pos=pos, integer=integer))


def _minmax(name):
    def f(*args):
        args = [as_expr(a) for a in args]
        cs = [a.as_const() for a in args]
        if all(c is not None and c.im == 0 for c in cs):
            g = max if name == "max" else min
            return as_expr(g(c.re for c in cs))
        uniq = []
        for a in args:
            if not any(a.eq(b) for b in uniq):
                uniq.append(a)
        if len(uniq) == 1:
            return uniq[0]
        # min(a + c, b + c) = min(a, b) + c: the smallest rational constant term is taken out, so that
        # min(k, n - 1) and min(k + 1, n) - 1 have one normal form
        consts = []
        for a in uniq:
            c0 = a.expand().n.get((), None) if a.is_poly() else None
            consts.append(c0.re if c0 is not None and c0.im == 0 else (Q(0) if a.is_poly() else None))
        if all(c is not None for c in consts) and any(c != 0 for c in consts):
            m = min(consts)
            if m != 0:
                return as_expr(m) + f(*[a - as_expr(m) for a in uniq])
        srt = sorted(uniq, key=repr)
        pos = all(manifest_sign(a) == {"+"} for a in srt)
        return fn(name, *srt, pos=pos)

    return f


fmax, fmin = _minmax("max"), _minmax("min")


_REBUILD = {"max": fmax, "min": fmin, "log": log, "sin": sin, "cos": cos, "arctan": arctan, "exp": exp, "expi": lambda a: exp(IMAG * a)}


def rebuild(a, args):
    if a.kind in ("base", "def"):
        return args[0]  # caller re-applies the exponent through power()
    if a.kind == "fn":
        f = _REBUILD.get(a.name)
        if f is not None:
            return f(*args)
        return atom_expr(_atom("fn", a.name, tuple(args), pos=a.pos, integer=a.integer))
    return atom_expr(a)


def register_rebuild(name, f):
    _REBUILD[name] = f


# --------------------------------------------------------------------------
# calculus (for R-PSI')


def diff(x, atom):
    """d x / d atom, for the function atoms this module knows."""
    x = as_expr(x)

    def d_atom(a):
        if a.id == atom.id:
            return ONE
        if not a.args:
            return ZERO
        if a.kind == "fn":
            u = a.args[0]
            if not isinstance(u, Expr):
                return ZERO
            du = diff(u, atom)
            if du.is_zero():
                return ZERO
            if a.name == "log":
                return du / u
            if a.name == "arctan":
                return du / (ONE + u * u)
            if a.name == "sin":
                return cos(u) * du
            if a.name == "cos":
                return -sin(u) * du
            if a.name == "exp":
                return atom_expr(a) * du
            if a.name == "expi":
                return IMAG * atom_expr(a) * du
        if atom in as_expr(a).atoms():
            raise NotImplementedError("derivative of %r" % (a,))
        return ZERO

    tot = ZERO
    for m, c in x.n.items():
        for k, (a, e) in enumerate(m):
            if isinstance(e, Expr) and atom in e.atoms():
                raise NotImplementedError("symbolic exponent depends on variable")
            others = m[:k] + m[k + 1:]
            if a.kind in ("base", "def"):
                dbase = diff(a.args[0], atom)
                if dbase.is_zero():
                    continue
                t = Expr({others: c}) * as_expr(e) * power(a.args[0], _exp_add(e, -1)) * dbase
                tot = tot + t
                continue
            da = d_atom(a)
            if da.is_zero():
                continue
            t = Expr({others: c}) * as_expr(e) * power(atom_expr(a), _exp_add(e, -1)) * da
            tot = tot + t
    return tot


reset()
