#!/bin/bash
# usage: refactortest.sh <diff> [prop...] : run the checks on a scratch copy of /repo with a behaviour-preserving diff applied.
# Any exit 1 is a false alarm of the checker, any exit 2 an interpretability gap.
pf=$1; shift
props="$@"; [ -z "$props" ] && props="C01 C02 C03 C04 C05 C06 C07 C08 C09 C10 C11 C12 C13 C14 C15 C16 C17 C18 C19 C20"
tag=$(echo "$pf" | tr '/.' '__')
d=/tmp/rt/$tag
rm -rf $d $d.ev; mkdir -p $d $d.ev
cp -r /repo/src /repo/tests $d/ 2>/dev/null
for f in /repo/*.toml /repo/*.cfg /repo/*.py /repo/*.md /repo/runs /repo/examples /repo/config; do [ -e $f ] && cp -r $f $d/ ; done
(cd $d && patch -s -p1 < "$pf") || { echo "$pf: patch does not apply"; rm -rf $d $d.ev; exit 9; }
res=""
for p in $props; do
  out=$(cd /verif && BLDFM_REPO=$d VERIF_EVIDENCE_DIR=$d.ev timeout 900 python3 sa/check.py $p 2>&1); rc=$?
  if [ $rc -ne 0 ]; then
    if [ -n "$VERBOSE" ]; then res="$res\n  [$p rc=$rc]\n$(echo "$out" | grep -v "^  discharged" | head -${VERBOSE} | cut -c1-600)"; else
    res="$res\n  [$p rc=$rc] $(echo "$out" | grep -E "^  violated|ANALYSIS-ERROR|uninterpretable" | head -3 | cut -c1-300 | tr '\n' '|')"; fi
  fi
done
if [ -z "$res" ]; then echo "$pf: all silent"; else echo -e "$pf:$res"; fi
rm -rf $d $d.ev
