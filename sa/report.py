"""Obligation records, verdicts, evidence files, known findings, exit codes."""

import json
import os
import sys
import time

VERIF = os.path.dirname(os.path.dirname(os.path.abspath(__file__)))
EVIDENCE_DIR = os.environ.get("VERIF_EVIDENCE_DIR") or os.path.join(VERIF, "evidence")


class Ob:
    """One proof obligation: code normal form vs specification normal form
    (or a structural requirement) at a named construct."""

    def __init__(self, rule, site, what, verdict, code=None, spec=None, spec_source=None, key=None, detail=None, nontrivial=True):
        self.rule = rule
        self.site = site
        self.what = what
        self.verdict = verdict  # 'holds' | 'differs' | 'uninterpretable'
        self.code = code
        self.spec = spec
        self.spec_source = spec_source
        self.key = key or {}
        self.detail = detail
        self.nontrivial = nontrivial

    def as_dict(self, maxlen=600):
        def cut(x):
            s = None if x is None else str(x)
            if s is not None and len(s) > maxlen:
                s = s[:maxlen] + " ...[%d chars]" % len(s)
            return s

        d = {"rule": self.rule, "site": self.site, "obligation": self.what, "verdict": self.verdict}
        if self.code is not None:
            d["code_nf"] = cut(self.code)
        if self.spec is not None:
            d["spec_nf"] = cut(self.spec)
        if self.spec_source:
            d["spec_source"] = self.spec_source
        if self.key:
            d["key"] = self.key
        if self.detail:
            d["detail"] = cut(self.detail)
        return d


def eq_ob(rule, site, what, code, spec, spec_source=None, key=None):
    """Obligation NF(code) == NF(spec)."""
    from alg import Expr

    if not isinstance(code, Expr):
        return Ob(rule, site, what, "uninterpretable", code, spec, spec_source, key, detail="code value is not algebraic: %r" % (code,))
    if not isinstance(spec, Expr):
        return Ob(rule, site, what, "uninterpretable", code, spec, spec_source, key, detail="spec value is not algebraic")
    ok = code.eq(spec)
    trivial = code.as_const() is not None and spec.as_const() is not None
    return Ob(rule, site, what, "holds" if ok else "differs", _show(code), _show(spec), spec_source, key, nontrivial=not trivial)


def _show(x):
    try:
        e = x.expand()
        s = repr(e)
        if len(s) > 1500:
            s = repr(x)
        return s
    except Exception:
        return repr(x)


def req_ob(rule, site, what, ok, detail=None, key=None, nontrivial=True):
    """Structural requirement (guard present, ordering, typestate...)."""
    v = "holds" if ok is True else "differs" if ok is False else "uninterpretable"
    return Ob(rule, site, what, v, detail=detail, key=key, nontrivial=nontrivial)


def load_known():
    p = os.path.join(VERIF, "known_findings.json")
    try:
        with open(p) as f:
            return json.load(f).get("entries", [])
    except FileNotFoundError:
        return []


def match_known(prop, ob, known):
    for k in known:
        if k.get("status") != "known" or k.get("property") != prop or k.get("rule") != ob.rule:
            continue
        fp = k.get("fingerprint", {})
        if all(_fp_match(ob.key.get(f), v) for f, v in fp.items()):
            return k
    return None


def _fp_match(have, want):
    if isinstance(want, list):
        return have in want or (isinstance(have, list) and set(have) <= set(want))
    return have == want


class Result:
    def __init__(self, prop, tier):
        self.prop = prop
        self.tier = tier
        self.obs = []
        self.notes = []
        self.sites = {}
        self.t0 = time.time()
        self.analysed = {"files": [], "functions": [], "paths": 0}
        self.min_obligations = 0
        self.explanation = ""
        self.rule_text = ""
        self.trusted = []
        self.assumptions = []
        self.extra = {}

    def add(self, ob):
        if isinstance(ob, (list, tuple)):
            for o in ob:
                self.add(o)
            return
        if ob.verdict == "differs" and any("Unknown(" in str(x) for x in (ob.code, ob.detail) if x is not None):
            # the comparison failed on a value the interpreter could not model: that is a gap of the analysis
            # (exit 2), never a violation of the property
            ob.verdict = "uninterpretable"
            ob.detail = "not modelled: %s" % (ob.detail if ob.detail is not None else ob.code)
        self.obs.append(ob)

    def finish(self, technique):
        """Write evidence, print verdict lines, return exit code."""
        known = load_known()
        viol, knownhits, unint = [], [], []
        for o in self.obs:
            if o.verdict == "differs":
                k = match_known(self.prop, o, known)
                if k is not None:
                    knownhits.append((o, k))
                else:
                    viol.append(o)
            elif o.verdict == "uninterpretable":
                unint.append(o)
        n = len(self.obs)
        discharged = sum(1 for o in self.obs if o.verdict == "holds")
        distinct = len({(o.rule, o.site, o.what) for o in self.obs if o.nontrivial and o.verdict != "uninterpretable"})
        seed = int(os.environ.get("VERIF_SEED", "0") or 0)
        fail_closed = n < self.min_obligations
        samples = [o.as_dict() for o in (viol + [x for x, _ in knownhits] + unint)][:6]
        for o in self.obs:
            if len(samples) >= 10:
                break
            if o.verdict == "holds" and o.nontrivial and o.code is not None:
                samples.append(o.as_dict())
        if not samples:
            samples = [o.as_dict() for o in self.obs[:4]]
        per_rule = {}
        for o in self.obs:
            c = per_rule.setdefault(o.rule, {"obligations": 0, "holds": 0})
            c["obligations"] += 1
            c["holds"] += o.verdict == "holds"
        ev = {
            "property_id": self.prop,
            "tier": self.tier,
            "seed": seed,
            "level": "other",
            "coverage": {
                "explanation": self.explanation,
                "technique": technique,
                "obligations": n,
                "discharged": discharged,
                "evaluations": n,
                "distinct_nontrivial": distinct,
                "rule": self.rule_text or "one obligation per (rule, construct, clause); non-trivial = both sides non-constant or a structural requirement on a located construct; distinct by (rule, site, clause)",
                "samples": samples,
                "per_rule": per_rule,
                "analysed": self.analysed,
                "minimum_obligations_confirmed_by_hand": self.min_obligations,
                "known_findings_matched": [k["id"] for _, k in knownhits],
                "uninterpretable": len(unint),
                "trusted_base": self.trusted,
                "exhaustive": False,
                "notes": self.notes,
            },
            "assumptions": self.assumptions,
            "wall_s": round(time.time() - self.t0, 3),
            "violations": len(viol),
        }
        ev["coverage"].update(self.extra)
        os.makedirs(EVIDENCE_DIR, exist_ok=True)
        with open(os.path.join(EVIDENCE_DIR, "%s.json" % self.prop), "w") as f:
            json.dump(ev, f, indent=1, default=str)
        print("%s %s: %d obligations, %d discharged, %d known, %d violated, %d uninterpretable (%.2fs)" % (
            self.prop, self.tier, n, discharged, len(knownhits), len(viol), len(unint), time.time() - self.t0))
        seen_known = set()
        for o, k in knownhits:
            if k.get("id") in seen_known:
                continue
            seen_known.add(k.get("id"))
            sites = sorted({x.site for x, kk in knownhits if kk is k})
            print("KNOWN-FINDING: property=%s %s [%s; %d construct(s): %s]" % (self.prop, k.get("what", ""), o.rule, len(sites), "; ".join(sites)[:300]))
        if viol:
            rdir = os.path.join(EVIDENCE_DIR, "replay")
            os.makedirs(rdir, exist_ok=True)
            path = os.path.join(rdir, "%s.json" % self.prop)
            with open(path, "w") as f:
                json.dump({"property": self.prop, "violations": [o.as_dict(4000) for o in viol],
                           "replay": "python3 sa/check.py %s --tier %s" % (self.prop, self.tier)}, f, indent=1, default=str)
            for o in viol[:8]:
                print("  violated %s at %s: %s" % (o.rule, o.site, o.what))
                if o.code is not None:
                    print("     code: %s" % str(o.code)[:300])
                if o.spec is not None:
                    print("     spec: %s" % str(o.spec)[:300])
                if o.detail:
                    print("     %s" % str(o.detail)[:300])
            print("VIOLATION property=%s replay=%s" % (self.prop, path))
            return 1
        if unint or fail_closed:
            for o in unint[:8]:
                print("  uninterpretable %s at %s: %s (%s)" % (o.rule, o.site, o.what, str(o.detail)[:200]))
            if fail_closed:
                print("  only %d obligations found, %d confirmed by hand on the pinned tree" % (n, self.min_obligations))
            print("ANALYSIS-ERROR property=%s: anchored construct missing or not interpretable" % self.prop)
            return 2
        return 0
