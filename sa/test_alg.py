"""Unit tests of the algebra itself (run: python3 sa/test_alg.py)."""
import sys, os
sys.path.insert(0, os.path.dirname(os.path.abspath(__file__)))
from fractions import Fraction as Q
import alg
from alg import *

def check(name, cond):
    if not cond:
        print("ALG-TEST FAIL", name); sys.exit(1)

def main():
    alg.reset()
    x, y, z = sym("x"), sym("y"), sym("z")
    p, q = sym("p", pos=True), sym("q", pos=True)
    check("ring", ((x + y) ** 2).eq(x * x + 2 * x * y + y * y))
    check("ring-neq", not ((x + y) ** 2).eq(x * x + y * y))
    check("laurent", (x / y * y).eq(x))
    check("rf", ((x * x - y * y) / (x - y)).eq(x + y))
    check("rf2", (1 / (x + y) + 1 / (x - y)).eq(2 * x / (x * x - y * y)))
    check("cx", (IMAG * IMAG).eq(-ONE))
    check("sqrt-sq", (sqrt(x * x + y * y) ** 2).eq(x * x + y * y))
    check("sqrt-inv", (1 / sqrt(x + y)).eq(sqrt(x + y) / (x + y)))
    check("sqrt-pos", sqrt(p * p * q).eq(p * sqrt(q)))
    check("sqrt-unknown-sign", not sqrt(x * x).eq(x))
    check("const-root", sqrt(const(4)).eq(const(2)) and power(const(16), Q(1, 4)).eq(const(2)))
    check("exp-add", (exp(x) * exp(y)).eq(exp(x + y)))
    check("exp-0", exp(x - x).eq(ONE))
    check("log-exp", log(exp(x)).eq(x))
    check("exp-log", exp(log(p) * 3).eq(p ** 3))
    check("exp-clog", exp(y * log(p)).eq(power(p, y)))
    check("log-quot", log(p / q).eq(log(p) - log(q)))
    check("log-pow", log(power(p, Q(1, 3))).eq(log(p) / 3))
    check("symb-exp", (power(p, x) * power(p, 2 - x)).eq(p * p))
    r = 2 + x - y
    mu = (1 + x) / r
    check("km-exp", (power(p, x / r - 2 - mu)).eq(power(p, -2 - 1 / r)))
    check("sin-pi", sin(atom_expr(alg.PI) / 2).eq(ONE) and cos(atom_expr(alg.PI)).eq(-ONE) and sin(ZERO).eq(ZERO))
    check("sin-odd", sin(-x).eq(-sin(x)) and cos(-x).eq(cos(x)))
    check("arctan1", arctan(ONE).eq(atom_expr(alg.PI) / 4))
    # substitution re-simplifies
    h, z0, zm, ze = sym("h", pos=True), sym("z0", pos=True), sym("zm", pos=True), sym("zeta")
    bb = zm / (exp(-z0 / h) - exp(-zm / h))
    aa = bb * exp(-z0 / h)
    zz = -h * log(-(ze - aa) / bb)
    za = [a for a in ze.atoms()][0]
    check("grid-0", zz.subs({za: ZERO}).eq(z0))
    check("grid-zm", zz.subs({za: zm}).eq(zm))
    # derivative
    xa = [a for a in x.atoms()][0]
    check("diff-poly", diff(x ** 3 + 2 * x, xa).eq(3 * x * x + 2))
    check("diff-log", diff(log(1 + x * x), xa).eq(2 * x / (1 + x * x)))
    check("diff-atan", diff(arctan(x), xa).eq(1 / (1 + x * x)))
    check("diff-pow", diff(power(1 - 16 * x, Q(1, 4)), xa).eq(-4 * power(1 - 16 * x, Q(-3, 4))))
    # series coefficient
    dz = sym("dz"); dza = list(dz.atoms())[0]
    e = (1 + x * dz) ** 3
    check("coeff", e.coeff_of(dza, 2).eq(3 * x * x))
    check("interning", fn("int", x / y) .eq(fn("int", (x * x) / (x * y))))
    check("degree", (x * p + y * p * p).degree_in([list(p.atoms())[0]]) == (1, 2))
    print("alg tests ok")

if __name__ == "__main__":
    main()
