"""S-NUMPY: abstract semantics of the library calls on the analysed paths.

Every handler maps abstract values to abstract values.  Array typestate
(Fourier layout, symmetric truncation, padding, transform direction and
normalisation) is tracked in ``Arr.meta`` and violations are recorded as
``typestate`` events; shape incompatibilities as ``shape`` events.
"""

import ast
from fractions import Fraction as Q

import alg
from alg import Expr, ZERO, ONE, as_expr
from front import AnalysisError, dotted_name
import interp as I_
import ivec as IV
from interp import Arr, SymArr, Tup, Unknown, BOT, Opaque, FuncRef, ModRef, Pred, BoolCombo, Member, SliceV, RangeV, LevelStore, PyList, SetV, GenList


class Spec:
    """Fourier-layout typestate over the last two axes."""

    def __init__(self, layout, full=None, cut=None):
        self.layout, self.full, self.cut = layout, full, (tuple(cut) if cut is not None else None)

    def with_(self, **kw):
        s = Spec(self.layout, self.full, self.cut)
        for k, v in kw.items():
            setattr(s, k, v)
        return s

    def __repr__(self):
        return "Spec(%s, full=%r, cut=%r)" % (self.layout, self.full, self.cut)


# --------------------------------------------------------------------------
# helpers


def is_scalar(v):
    return isinstance(v, Expr)


def const_int(v):
    if isinstance(v, Expr):
        c = v.as_const()
        if c is not None and c.im == 0 and c.re.denominator == 1:
            return int(c.re)
    return None


def dim_eq(a, b):
    return a.eq(b)


def dim_is_one(a):
    return const_int(a) == 1


def _placeholder_dim(d):
    """a length the interpreter could not express (slice with unmodelled bounds): no shape verdict can rest on it"""
    if not isinstance(d, Expr):
        return True
    for a in d.atoms():
        if a.kind == "fn" and a.name == "len" and a.args and isinstance(a.args[0], Expr):
            if any(b.kind == "sym" and b.name.startswith("slice@") for b in a.args[0].atoms()):
                return True
    return False


def broadcast(I, sa, sb, node):
    if sa is None or sb is None:
        return None
    out = []
    la, lb = list(sa), list(sb)
    while len(la) < len(lb):
        la.insert(0, ONE)
    while len(lb) < len(la):
        lb.insert(0, ONE)
    for x, y in zip(la, lb):
        if dim_eq(x, y):
            out.append(x)
        elif dim_is_one(x):
            out.append(y)
        elif dim_is_one(y):
            out.append(x)
        elif _placeholder_dim(x) or _placeholder_dim(y):
            out.append(x if _placeholder_dim(y) else y)
        else:
            I.event("shape", node, "operands could not be broadcast: %r vs %r" % (tuple(sa), tuple(sb)))
            out.append(x)
    return tuple(out)


def join_dtype(a, b):
    order = ["bool", "int", "int64", "float32", "float", "float64", "complex64", "complex", "complex128"]
    if a is None:
        return b
    if b is None:
        return a
    if a.startswith("inherit") or b.startswith("inherit"):
        return a if a.startswith("inherit") else b
    ia = order.index(a) if a in order else 5
    ib = order.index(b) if b in order else 5
    return order[max(ia, ib)]


def val_of(v):
    return v.val if isinstance(v, Arr) else v


def merge_meta(I, a, b, node):
    meta = {}
    for v in (a, b):
        if isinstance(v, Arr):
            for k in ("spec", "field", "lvl0", "kept", "respec_pad", "analysis_of", "modegrid"):
                if k in v.meta:
                    if k == "spec" and "spec" in meta and meta["spec"].layout != v.meta["spec"].layout:
                        I.event("typestate", node, "binary operation on arrays in different Fourier layouts (%s vs %s)" % (meta["spec"].layout, v.meta["spec"].layout))
                    if k == "lvl0" and "lvl0" in meta:
                        continue
                    meta.setdefault(k, v.meta[k])
    return meta


# --------------------------------------------------------------------------
# elementwise arithmetic


def _elements_of(x, n=None):
    """the entries of a small explicit vector (array built from a sequence of scalars, or the sequence itself)"""
    if isinstance(x, Arr) and x.meta.get("elements") is not None and x.ndim == 1:
        return list(x.meta["elements"])
    if isinstance(x, Tup) and x.kind in ("tuple", "list") and all(isinstance(i, Expr) for i in x.items):
        return list(x.items)
    if isinstance(x, Expr) and n is not None:
        return [x] * n
    return None


def _ivec_binop(I, op, a, b, node):
    """index vector (+|-|%) integer scalar"""
    if isinstance(a, Arr) and a.meta.get("ivec") is not None and isinstance(b, Expr) and a.ndim == 1:
        iv = a.meta["ivec"]
        if isinstance(op, ast.Add):
            niv = iv.shift(b)
        elif isinstance(op, ast.Sub):
            niv = iv.shift(-b)
        elif isinstance(op, ast.Mod):
            segs = []
            for l, st in iv.segs:
                end = (st + l).expand()
                if alg._lead_negative(st.expand()) and (end.is_zero() or alg._lead_negative(end)):
                    segs.append((l, st + b))  # a run of negative indices
                elif not alg._lead_negative(st.expand()):
                    segs.append((l, st))  # taken to lie in [0, N): checked when the vector is used
                else:
                    return None
            niv = IV.IVec(segs)
        else:
            return None
        return niv
    if isinstance(b, Arr) and b.meta.get("ivec") is not None and isinstance(a, Expr) and isinstance(op, ast.Add):
        return b.meta["ivec"].shift(a)
    return None


def elementwise(I, op, a, b, node):
    _note_carried(I, node, a, b)
    niv = _ivec_binop(I, op, a, b, node)
    if niv is not None:
        src = a if isinstance(a, Arr) else b
        return Arr(src.shape, Unknown("index vector"), "int", {"ivec": niv})
    ea = _elements_of(a)
    eb = _elements_of(b)
    if (ea is not None and isinstance(a, Arr)) or (eb is not None and isinstance(b, Arr)):
        n = len(ea) if ea is not None else len(eb)
        ea = ea if ea is not None else _elements_of(a, n)
        eb = eb if eb is not None else _elements_of(b, n)
        if ea is not None and eb is not None and len(ea) == len(eb):
            els = [I.scalar_binop(op, x, y, node) for x, y in zip(ea, eb)]
            same = all(isinstance(e, Expr) and e.eq(els[0]) for e in els) if els and isinstance(els[0], Expr) else False
            src = a if isinstance(a, Arr) else b
            meta = {"elements": els}
            for k in ("alias_of_param",):
                pass
            val = els[0] if same else alg.fn("elem", alg.sym("vector@%s:%s" % (I.cur_mod.name, getattr(node, "lineno", 0))))
            dt = join_dtype(a.dtype if isinstance(a, Arr) else _scalar_dtype(a), b.dtype if isinstance(b, Arr) else _scalar_dtype(b))
            if isinstance(op, ast.Div):
                dt = "float"
            return Arr((alg.const(len(els)),), val, dt, meta)
    sa = a.shape if isinstance(a, Arr) else ()
    sb = b.shape if isinstance(b, Arr) else ()
    shape = broadcast(I, sa, sb, node)
    va, vb = val_of(a), val_of(b)
    boolish = (bool, Pred, BoolCombo)
    if isinstance(op, (ast.BitAnd, ast.BitOr)) and isinstance(va, boolish) and isinstance(vb, boolish):
        if isinstance(va, bool) and isinstance(vb, bool):
            val = (va and vb) if isinstance(op, ast.BitAnd) else (va or vb)
        elif isinstance(va, bool):
            val = (vb if va else False) if isinstance(op, ast.BitAnd) else (True if va else vb)
        elif isinstance(vb, bool):
            val = (va if vb else False) if isinstance(op, ast.BitAnd) else (True if vb else va)
        else:
            val = BoolCombo("and" if isinstance(op, ast.BitAnd) else "or", [va, vb])
        meta = {}
        for x in (a, b):
            if isinstance(x, Arr) and "ident" in x.meta:
                meta.setdefault("ident", x.meta["ident"])
        return Arr(shape, val, "bool", meta)
    if va is BOT or vb is BOT:
        val = BOT
    elif isinstance(va, Unknown) or isinstance(vb, Unknown):
        val = va if isinstance(va, Unknown) else vb
    elif isinstance(va, Expr) and isinstance(vb, Expr):
        val = I.scalar_binop(op, va, vb, node)
    elif isinstance(op, ast.Mult) and ((isinstance(va, Expr) and isinstance(vb, (Pred, BoolCombo))) or (isinstance(vb, Expr) and isinstance(va, (Pred, BoolCombo)))):
        # masking by multiplication with a boolean array: the entry itself where the mask holds, entry * 0 elsewhere - which is
        # zero only for a finite entry (inf * 0 and nan * 0 are nan)
        ev, mv = (va, vb) if isinstance(va, Expr) else (vb, va)
        if I.decide_pred(mv):
            val = ev
            sub = {}
            for at in ev.atoms():
                if at.kind == "fn" and at.name == "abs" and at.args and isinstance(at.args[0], Expr):
                    p = I.facts.possible(at.args[0])
                    if p <= {"+", "0"}:
                        sub[at] = at.args[0]
                    elif p <= {"-", "0"}:
                        sub[at] = -at.args[0]
            if sub:
                val = ev.subs(sub)
        else:
            val = ZERO
            risky = []
            for mono, cf in ev.expand().n.items():
                for at, pw in mono:
                    inner = at.args[0] if at.kind == "base" else alg.atom_expr(at)
                    if not isinstance(inner, Expr):
                        continue
                    neg = (isinstance(pw, int) and pw < 0) or (hasattr(pw, "denominator") and not isinstance(pw, Expr) and pw < 0) or (isinstance(pw, Expr) and alg.manifest_sign(pw) <= {"-"})
                    unknown_sign = isinstance(pw, Expr) and not neg and not (alg.manifest_sign(pw) <= {"+", "0"})
                    if (neg or unknown_sign) and "0" in I.facts.possible(inner):
                        risky.append((repr(inner)[:60], "negative" if neg else "of unknown sign"))
            definite = [x for x in risky if x[1] == "negative"]
            if definite:
                I.event("masked-nonfinite", node, "an entry that the mask excludes is multiplied by 0, not replaced: %s can be zero there and occurs with a negative power, so the entry is inf and inf * 0 stays nan" % definite[0][0])
            elif risky:
                I.event("masked-unknown", node, "an entry that the mask excludes is multiplied by 0: whether %s (which can be zero there) occurs with a negative power is not decided" % risky[0][0])
    elif isinstance(va, bool) or isinstance(vb, bool):
        val = I.binop(op, as_expr(int(va)) if isinstance(va, bool) else va, as_expr(int(vb)) if isinstance(vb, bool) else vb, node)
    else:
        val = Unknown("elementwise op on %r, %r" % (va, vb))
    da = a.dtype if isinstance(a, Arr) else _scalar_dtype(a)
    db = b.dtype if isinstance(b, Arr) else _scalar_dtype(b)
    dt = join_dtype(da, db)
    if isinstance(op, ast.Div) and (dt in ("bool", "int", "int64") or (dt or "").startswith("inherit")):
        dt = "float"  # true division never yields an integer array
    if isinstance(op, ast.Pow) and (dt or "").startswith("inherit") and isinstance(vb, Expr) and not (vb.as_const() is not None and vb.as_const().re.denominator == 1 and vb.as_const().re >= 0):
        dt = "float"
    meta = merge_meta(I, a, b, node)
    ga = a.meta.get("gen") if isinstance(a, Arr) else (lambda k, a=a: a) if isinstance(a, Expr) else None
    gb = b.meta.get("gen") if isinstance(b, Arr) else (lambda k, b=b: b) if isinstance(b, Expr) else None
    if ga is not None and gb is not None and shape is not None and len(shape) == 1 and (isinstance(a, Arr) or isinstance(b, Arr)):
        meta["gen"] = lambda k, ga=ga, gb=gb, op=op, node=node: I.scalar_binop(op, ga(k), gb(k), node)
    if "lvl0" in meta:
        # level-0 override takes part in the same operation
        l0a = a.meta.get("lvl0", va) if isinstance(a, Arr) else va
        l0b = b.meta.get("lvl0", vb) if isinstance(b, Arr) else vb
        if isinstance(l0a, Expr) and isinstance(l0b, Expr):
            meta["lvl0"] = I.scalar_binop(op, l0a, l0b, node)
        else:
            meta.pop("lvl0")
    return Arr(shape, val, dt, meta)


def _scalar_dtype(v):
    if isinstance(v, Expr):
        for m, c in v.n.items():
            if c.im != 0:
                return "complex"
        c = v.as_const()
        if c is not None and c.re.denominator == 1:
            return "int"
        atoms = v.top_atoms()
        if atoms and all(a.integer for a in atoms) and all(cc.re.denominator == 1 for cc in v.n.values()) and all(isinstance(p, int) and p > 0 for m in v.n for _, p in m):
            return "int"  # a polynomial with integer coefficients in integer quantities (no quotients, roots or symbolic powers)
        return "float"
    if isinstance(v, bool):
        return "bool"
    return None


def _note_carried(I, node, *xs):
    for x in xs:
        if isinstance(x, Arr) and x.meta.get("carried"):
            I.event("loop-carried-read", node, "%s holds what earlier iterations of the loop at line %d left in it" % x.meta["carried"])


def elementwise_compare(I, sym, a, b, node):
    _note_carried(I, node, a, b)
    for x, y in ((a, b), (b, a)):
        if isinstance(x, Arr) and x.meta.get("int_diff_of_param") and isinstance(y, Expr) and y.as_const() is not None:
            I.event("dtype", node, "sign test on np.diff of the caller's integer array %s: for unsigned dtypes the differences wrap around and are never negative" % x.meta["int_diff_of_param"])
    if isinstance(a, Arr) and a.meta.get("ivec") is not None and isinstance(b, Expr) and a.ndim == 1:
        return Arr(a.shape, Unknown("comparison of an index vector"), "bool", {"ivec_cmp": (a.meta["ivec"], sym, b)})
    sa = a.shape if isinstance(a, Arr) else ()
    sb = b.shape if isinstance(b, Arr) else ()
    shape = broadcast(I, sa, sb, node)
    va, vb = val_of(a), val_of(b)
    if isinstance(va, Expr) and isinstance(vb, Expr):
        val = I.cmp_expr(va - vb, sym)
    elif va is BOT or vb is BOT:
        val = BOT
    else:
        val = Unknown("array comparison")
    return Arr(shape, val, "bool")


def real_part(x):
    return x  # Re is R-linear; values on the analysed paths are compared before .real


def map_unary(I, f, x, node, dtype=None):
    if isinstance(x, Arr):
        v = x.val
        if isinstance(v, Expr):
            v = f(v)
        meta = {k: x.meta[k] for k in ("spec", "field") if k in x.meta}
        dt = dtype or ("float" if (x.dtype or "float") in ("int", "bool", "int64") or (x.dtype or "").startswith("inherit") else x.dtype)
        return Arr(x.shape, v, dt, meta)
    if isinstance(x, Expr):
        return f(x)
    if x is BOT or isinstance(x, Unknown):
        return x
    if isinstance(x, Tup) and all(isinstance(i, Expr) for i in x.items):
        return Tup([f(i) for i in x.items], x.kind)
    return Unknown("unary function on %r" % (x,))


# --------------------------------------------------------------------------
# attribute access on arrays


def arr_attr(I, a, attr, node):
    if attr == "shape":
        if a.shape is None:
            return Unknown("shape of %s" % a.name)
        return Tup(list(a.shape))
    if attr == "real":
        b = a.copy()
        b.meta = dict(a.meta)
        b.meta["real"] = True
        if b.dtype in ("complex", "complex128"):
            b.dtype = "float"
        elif b.dtype == "complex64":
            b.dtype = "float32"
        return b
    if attr == "imag":
        # Im(x) = Re(-i x)
        b = elementwise(I, ast.Mult(), -alg.IMAG, a, node)
        return arr_attr(I, b, "real", node) if isinstance(b, Arr) else Unknown("imag")
    if attr == "ndim":
        return alg.const(a.ndim)
    if attr == "size":
        t = ONE
        for d in a.shape:
            t = t * d
        return t
    if attr == "dtype":
        return a.dtype or "float"
    if attr == "T":
        return Arr(tuple(reversed(a.shape)), a.val, a.dtype, {})
    if attr == "data":
        # the array's memory as a buffer: its bytes are those of tobytes() only when the memory is contiguous; the caller's
        # own array (np.asarray hands it back unchanged) may be a strided view
        own = not (isinstance(a, I_.SymArr) or a.meta.get("param") or a.meta.get("alias_of_param")) or bool(a.meta.get("contiguous"))
        return I_.Opaque("bytes", {"of": a, "buffer": True, "contiguous": own})
    return FuncRef("method", attr, bound=a)


# --------------------------------------------------------------------------
# subscript load / store


def _expand_index(I, arr, idx, node):
    """-> list of per-item tuples with consumed axes resolved; Ellipsis expanded."""
    nd = arr.ndim
    consumed = 0
    for it in idx:
        if it is Ellipsis or it is None:
            continue
        if isinstance(it, Arr) and it.dtype == "bool":
            consumed += it.ndim
        else:
            consumed += 1
    out = []
    for it in idx:
        if it is Ellipsis:
            out.extend([SliceV(None, None, None)] * max(0, nd - consumed))
        else:
            out.append(it)
    n_axes = sum((it.ndim if isinstance(it, Arr) and it.dtype == "bool" else 0 if it is None else 1) for it in out)
    if n_axes > nd:
        I.event("shape", node, "too many indices for array of shape %r" % (arr.shape,))
    while n_axes < nd:
        out.append(SliceV(None, None, None))
        n_axes += 1
    return out


def _slice_len(I, sl, dim):
    lo = sl.lo if sl.lo is not None else ZERO
    hi = sl.hi if sl.hi is not None else dim
    if not (isinstance(lo, Expr) and isinstance(hi, Expr) and isinstance(dim, Expr)):
        return Unknown("slice with bounds %r:%r" % (sl.lo, sl.hi)), ZERO
    # symbolic bounds of the form -E (E >= 0): "E from the end" - but for E == 0 numpy reads the bound as 0
    def from_end(b, what):
        if b.as_const() is None and alg._lead_negative(b):
            poss = I.facts.possible(-b)
            if poss <= {"+"}:
                return dim + b
            if poss <= {"+", "0"}:
                I.event("index-wrap", getattr(I, "cur_node", None), "slice %s bound %r means '%r from the end' only while it is non-zero: when it is 0 the bound is 0 and the slice is empty" % (what, b, -b))
                return dim + b
        return b

    hi = from_end(hi, "upper")
    lo = from_end(lo, "lower")
    c = const_int(hi)
    if c is not None and c < 0:
        hi = dim + hi
    c = const_int(lo)
    if c is not None and c < 0:
        lo = dim + lo
    if sl.step is not None and const_int(sl.step) == -1:
        return dim if sl.is_full() or (sl.lo is None and sl.hi is None) else Unknown("reverse slice"), lo
    if sl.step is not None and const_int(sl.step) != 1:
        return None, lo
    return hi - lo, lo


NARROW_DTYPES = ("float32", "complex64", "float16", "single", "csingle")
MODE_DIMS = []  # dimensions known to count flattened horizontal modes (reset for every abstract run)


def register_mode_dim(d):
    if isinstance(d, Expr) and not any(d.eq(x) for x in MODE_DIMS):
        MODE_DIMS.append(d)


def _is_mode_count(d):
    cm = d.as_mono() if isinstance(d, Expr) else None
    if cm is not None and len(cm[1]) == 1 and cm[1][0][0].kind == "fn" and cm[1][0][0].name == "count":
        return True
    return isinstance(d, Expr) and d.as_const() is None and any(d.eq(x) for x in MODE_DIMS)


def grid_axes(arr):
    """axes that index the horizontal (spectral or spatial) grid"""
    nd = arr.ndim
    if nd is None or nd < 2:
        return ()
    if _is_mode_count(arr.shape[-1]):
        return ()  # (levels, flattened modes)
    return (nd - 2, nd - 1)


def level_axis(arr):
    nd = arr.ndim
    if nd == 3:
        return 0
    if nd == 2 and _is_mode_count(arr.shape[-1]):
        return 0
    return None


def _index_can_wrap(I, e):
    """is the integer index e = (a quantity that is provably >= L) + c0 with L + c0 < 0 ?  Then numpy wraps it around
    silently.  Only manifest cases are reported: every non-constant term must have a known sign."""
    if not isinstance(e, Expr) or e.as_const() is not None:
        return None
    x = e.expand()
    lb = Q(0)
    c0 = Q(0)
    for mono, c in x.n.items():
        if c.im != 0:
            return None
        if len(mono) == 0:
            c0 += c.re
            continue
        if c.re < 0:
            return None  # would need an upper bound
        term = c.re
        for a, p in mono:
            if not isinstance(p, int) or p < 1:
                return None
            ae = alg.atom_expr(a)
            poss = I.facts.possible(ae)
            if a.kind == "sym" and (a.name.startswith("i#") or a.name.startswith("j#")):
                poss = poss & {"+", "0"}
            if poss <= {"+"}:
                term *= (Q(1) if a.integer else Q(0)) ** p
            elif poss <= {"+", "0"}:
                term *= 0
            else:
                return None
        lb += term
    if lb + c0 < 0:
        return "index %r can be as small as %s: a negative index wraps around to the end of the array" % (e, lb + c0)
    return None


def _grid_index_vectors(arr, items):
    """(ivec for the second-to-last axis, ivec for the last axis) when the two horizontal axes of arr are indexed by
    index vectors (np.ix_ style or a[..., rows[:, None], cols]) and every other axis by a full slice"""
    real = [it for it in items if it is not None]
    if arr.ndim < 2 or len(real) != arr.ndim:
        return None
    if not all(isinstance(it, SliceV) and it.is_full() for it in real[:-2]):
        return None
    y, x = real[-2], real[-1]
    if not (isinstance(y, Arr) and isinstance(x, Arr) and y.meta.get("ivec") is not None and x.meta.get("ivec") is not None):
        return None
    # outer-product indexing: the row vector must be opened along the first of the two axes
    oy, ox = y.meta.get("open_axis"), x.meta.get("open_axis")
    if y.ndim == 2 and x.ndim == 2:
        if not (oy == 0 and ox == 1):
            return None
    elif y.ndim == 2 and x.ndim == 1:
        if oy != 0:
            return None
    else:
        return None  # a[rows, cols] with two 1-D vectors pairs the entries instead of forming the outer product
    return y.meta["ivec"], x.meta["ivec"]


def _index_gather(I, arr, items, node):
    """spectrum[np.ix_(ky, kx)]: the retained modes picked by index vectors.  When both vectors are exactly the retained
    modes of the symmetric low-pass window, this is fftshift -> centre slice -> ifftshift, and is given that typestate."""
    gv = _grid_index_vectors(arr, items)
    if gv is None:
        return None
    ivy, ivx = gv
    spec = arr.meta.get("spec")
    Ny, Nx = arr.shape[-2], arr.shape[-1]
    ny_, nx_ = IV.as_simple(I, ivy.length()), IV.as_simple(I, ivx.length())
    shape = tuple(arr.shape[:-2]) + (ny_, nx_)
    if spec is None or spec.layout != "nat" or any(not c.is_zero() for c in (spec.cut or ())):
        return Arr(shape, Unknown("index gather on an array that is not a complete spectrum in natural order"), arr.dtype, {})
    verdicts = []
    for iv, n, N, ax in ((ivy, ny_, Ny, "y"), (ivx, nx_, Nx, "x")):
        ok, why = IV.compare(I, iv, IV.trunc_map(n, N), N)
        verdicts.append((ok, why, ax))
    if any(ok is None for ok, _, _ in verdicts):
        return Arr(shape, Unknown("index gather whose index vectors could not be compared with the retained modes (%s)" % "; ".join(str(w) for ok, w, _ in verdicts if ok is None)), arr.dtype, {})
    bad = [(w, ax) for ok, w, ax in verdicts if ok is False]
    if bad:
        for w, ax in bad:
            I.event("typestate", node, "the modes gathered along %s are not the symmetric low-pass window of the spectrum: %s" % (ax, w))
        return Arr(shape, Unknown("gather of other modes than the retained ones"), arr.dtype, {})
    # the equivalent chain, so that every rule sees the usual typestate and events
    two = alg.const(2)
    dy = I.scalar_binop(ast.FloorDiv(), (Ny - ny_).expand(), two, node)
    dx = I.scalar_binop(ast.FloorDiv(), (Nx - nx_).expand(), two, node)
    kw = {} if arr.ndim == 2 else {"axes": Tup([alg.const(arr.ndim - 2), alg.const(arr.ndim - 1)])}
    r = fftshift(I, [arr], kw, node)
    lead = [SliceV(None, None, None)] * (arr.ndim - 2)
    r = load(I, r, lead + [SliceV(dy, Ny - dy, None), SliceV(dx, Nx - dx, None)], node, {})
    if not isinstance(r, Arr):
        return r
    r = ifftshift(I, [r], kw, node)
    if isinstance(r, Arr):
        r = r.copy()
        r.shape = shape
    return r


def load(I, arr, idx, node, env):
    if arr.shape is None:
        return Unknown("subscript of array with unknown shape")
    items = _expand_index(I, arr, idx, node)
    iv = arr.meta.get("ivec")
    if iv is not None and arr.ndim == 1:
        real = [it for it in items if it is not None]
        if len(real) == 1 and isinstance(real[0], SliceV) and real[0].step is None:
            sl = real[0]
            if sl.is_full():
                # a[:, None] / a[None, :]: the same index vector, opened along one axis of an outer index
                if any(it is None for it in items):
                    pos = [k for k, it in enumerate(items) if it is not None][0]
                    shp = tuple(arr.shape[0] if k == pos else ONE for k in range(len(items)))
                    return Arr(shp, arr.val, arr.dtype, {"ivec": iv, "open_axis": pos})
            else:
                lo = sl.lo if sl.lo is not None else ZERO
                hi = sl.hi if sl.hi is not None else arr.shape[0]
                a1 = iv.split(lo)
                if a1 is not None:
                    a2 = a1[1].split(hi - lo)
                    if a2 is not None:
                        return Arr(((hi - lo).expand(),), Unknown("index vector"), arr.dtype, {"ivec": a2[0], "slice1d": (sl.lo, sl.hi, arr)})
    pts = arr.meta.get("points")
    if pts and arr.ndim == 1 and len(items) == 1 and isinstance(items[0], Expr) and const_int(items[0]) in pts:
        return pts[const_int(items[0])]
    # a fixed index beyond a fixed extent is an IndexError for every input
    ax = 0
    for it in items:
        if it is None:
            continue
        if isinstance(it, Expr) and ax < len(arr.shape):
            c, d = const_int(it), const_int(arr.shape[ax])
            if c is not None and d is not None and (c >= d or c < -d):
                raise I_.raise_exc("IndexError", node, "index %d is out of bounds for axis %d with size %d" % (c, ax, d))
        ax += it.ndim if isinstance(it, Arr) and it.dtype == "bool" else 1
    g = _index_gather(I, arr, items, node)
    if g is not None:
        return g
    if arr.meta.get("carried"):
        I.event("loop-carried-read", node, "%s holds what earlier iterations of the loop at line %d left in it" % arr.meta["carried"])
    for it in items:
        v = it.val if isinstance(it, Arr) and it.dtype != "bool" else it
        w = _index_can_wrap(I, v) if isinstance(v, Expr) else None
        if w:
            I.event("index-wrap", node, w)
    # 1-D parameter arrays: element atoms
    if arr.ndim == 1 and len(items) == 1 and isinstance(items[0], SliceV) and not items[0].is_full() and items[0].step is None and (isinstance(arr, SymArr) or "gen" in arr.meta):
        sl = items[0]
        ln, lo = _slice_len(I, sl, arr.shape[0])
        if isinstance(ln, Expr):
            base = (lambda k, arr=arr: arr.at(k)) if isinstance(arr, SymArr) else arr.meta["gen"]
            gen = lambda k, base=base, lo=lo: base(k + lo)
            return Arr((ln,), gen(alg.fn("idx", ln, integer=True)), arr.dtype, {"gen": gen, "slice1d": (sl.lo, sl.hi, arr)})
    if isinstance(arr, SymArr) and arr.ndim == 1 and len(items) == 1:
        it = items[0]
        if isinstance(it, Expr):
            return arr.at(it)
        if isinstance(it, Arr) and it.dtype != "bool":
            v = it.val
            return Arr(it.shape, arr.at(v) if isinstance(v, Expr) else Unknown("gather index"), arr.dtype, {"gather_of": (arr, it)})
    if isinstance(arr, SymArr) and arr.ndim >= 2 and len(items) == arr.ndim and all(isinstance(it, Expr) for it in items) and arr.meta.get("role") != "field":
        return alg.fn("at", arr.sym, *items, pos=arr.elempos)
    base_sym = arr.sym if isinstance(arr, SymArr) else None
    if base_sym is None and arr.meta.get("param") and arr.meta.get("role") is None:
        ea = _single_atom(arr.val) if isinstance(arr.val, Expr) else None
        if ea is not None and ea.kind == "fn" and ea.name == "elem" and isinstance(ea.args[0], Expr):
            base_sym = ea.args[0]  # a dtype-converted copy of a caller's array still holds the caller's entries
    if (base_sym is not None and arr.ndim >= 2 and len(items) == arr.ndim and arr.meta.get("role") != "field" and arr.meta.get("spec") is None
            and all(isinstance(it, Expr) or (isinstance(it, SliceV) and it.is_full()) for it in items) and any(isinstance(it, Expr) for it in items)):
        # a row / column / line of a caller's array: entry k of the result is the caller's entry at (fixed indices, k)
        shp, ix = [], []
        for ax, it in enumerate(items):
            if isinstance(it, Expr):
                ix.append(it)
            else:
                shp.append(arr.shape[ax])
                ix.append(alg.fn("idx", arr.shape[ax], integer=True))
        return Arr(tuple(shp), alg.fn("at", base_sym, *ix, pos=getattr(arr, "elempos", False)), arr.dtype, {"line_of": arr})
    if "diff_of" in arr.meta and len(items) == 1 and isinstance(items[0], Expr):
        base = arr.meta["diff_of"]
        if isinstance(base, SymArr):
            return base.at(items[0] + ONE) - base.at(items[0])
    shape = []
    val = arr.val
    meta = {k: v for k, v in arr.meta.items() if k in ("spec", "field", "lvl0", "real", "pending_level", "level_written", "kept", "respec_pad", "analysis_of")}
    axis = 0
    gax = grid_axes(arr)
    point = {}
    spec = arr.meta.get("spec")
    field = arr.meta.get("field")
    for it in items:
        if it is None:
            shape.append(ONE)
            continue
        dim = arr.shape[axis] if axis < arr.ndim else ONE
        if isinstance(it, SliceV):
            if it.is_full():
                shape.append(dim)
            elif arr.ndim == 1 and it.lo is None and it.hi is None and const_int(it.step) == -1:
                r = _reverse(arr)
                if isinstance(r, Arr):
                    return r
                shape.append(dim)
            elif arr.meta.get("flatmodes") is not None and axis == arr.ndim - 1:
                if const_int(it.lo) == 1 and it.hi is None and it.step is None:
                    # all modes but the first of the row-major flattening: every mode except the mean mode
                    if I.ctx == "mean":
                        val = BOT
                    shape.append(dim - ONE)
                    register_mode_dim(dim - ONE)
                    meta.pop("flatmodes", None)
                    meta.pop("spec", None)
                    meta["nonmean_of"] = arr
                else:
                    raise AnalysisError("%s:%s: subset %r of flattened horizontal modes is not modelled" % (I.cur_mod.name, getattr(node, "lineno", "?"), it))
            else:
                ln, lo = _slice_len(I, it, dim)
                if arr.ndim == 1:
                    meta["slice1d"] = (it.lo, it.hi, arr)
                if ln is None or isinstance(ln, Unknown):
                    shape.append(alg.fn("len", alg.sym("slice@%s" % getattr(node, "lineno", 0)), integer=True))
                else:
                    shape.append(ln)
                    if axis in gax and spec is not None:
                        k = gax.index(axis)
                        hi = it.hi if it.hi is not None else dim
                        if spec.layout != "cen":
                            I.event("typestate", node, "spectral truncation by slicing in natural (unshifted) layout")
                        elif not lo.eq(dim - hi):
                            I.event("typestate", node, "asymmetric spectral window [%r:%r] on an axis of length %r" % (lo, hi, dim))
                        cut = list(spec.cut or (ZERO, ZERO))
                        cut[k] = cut[k] + lo
                        spec = spec.with_(cut=tuple(cut))
                        meta["spec"] = spec
                        I.event("spec-truncate", node, {"axis": k, "lo": lo, "hi": hi, "dim": dim})
                    if axis in gax and field is not None:
                        k = gax.index(axis)
                        f2 = dict(field)
                        off = list(f2.get("crop", (ZERO, ZERO)))
                        off[k] = off[k] + lo
                        f2["crop"] = tuple(off)
                        field = f2
                        meta["field"] = f2
            axis += 1
        elif isinstance(it, Expr):
            c = const_int(it)
            if axis in gax and arr.ndim >= 2:
                point[gax.index(axis)] = it
            elif level_axis(arr) == axis:
                # level select
                if c == 0 and "lvl0" in arr.meta:
                    val = arr.meta["lvl0"]
                meta.pop("lvl0", None)
            elif arr.ndim == 1 and const_int(it) == -1 and isinstance(val, Expr) and "gen" not in arr.meta and not isinstance(arr, SymArr):
                val = _last_of(val)
            elif arr.ndim == 1 and isinstance(val, Expr) and any(a.kind == "fn" and a.name in ("gather", "cumsum", "permidx") for a in val.atoms()):
                val = alg.fn("pick", val, it)
            elif arr.ndim == 1:
                if "gen" in arr.meta:
                    val = arr.meta["gen"](it)
                elif isinstance(val, Expr) and not (dim_is_one(arr.shape[0]) or not any(a.kind == "fn" and a.name in ("idx", "elem", "fftidx") for a in val.atoms())):
                    ats = val.atoms()
                    pos_atoms = [a for a in ats if a.kind == "fn" and a.name in ("idx", "fftidx")]
                    if len(pos_atoms) == 1 and pos_atoms[0].name == "idx" and isinstance(pos_atoms[0].args[0], Expr) and dim_eq(pos_atoms[0].args[0], arr.shape[0]) and not any(
                            a.kind == "fn" and a.name in ("gather", "cumsum", "permidx", "scatter", "roll", "upd") for a in ats):
                        val = val.subs({pos_atoms[0]: it})  # the entry at that position: the position index takes this value
                    elif pos_atoms:
                        val = alg.fn("pick", val, it)
                    else:
                        # element i of a pointwise function of caller arrays: elem(X) -> at(X, i)
                        val = val.subs({a: alg.fn("at", a.args[0], it, pos=a.pos) for a in ats if a.kind == "fn" and a.name == "elem"})
            axis += 1
        elif isinstance(it, Arr) and it.dtype == "bool" and it.meta.get("positions_of") is not None and arr.ndim == 1 and "gen" in arr.meta:
            pos = it.meta["positions_of"]
            shape.extend(pos.shape or ())
            val = arr.meta["gen"](pos.val) if isinstance(pos.val, Expr) else Unknown("gather at positions")
            meta.pop("gen", None)
            axis += 1
        elif isinstance(it, Arr) and it.dtype == "bool":
            # boolean mask over it.ndim axes
            sub = arr.shape[axis: axis + it.ndim]
            if it.shape is not None and len(sub) == it.ndim:
                for x, y in zip(sub, it.shape):
                    if not dim_eq(x, y):
                        I.event("shape", node, "boolean index of shape %r on axes of shape %r" % (it.shape, tuple(sub)))
                        break
            mv = it.val
            if mv is BOT:
                val = BOT
            else:
                t = I.decide_pred(mv) if not isinstance(mv, Expr) else I.truth(mv)
                if not t:
                    val = BOT
            shape.append(alg.fn("count", alg.sym("mask:%s" % (it.meta.get("ident") or it.name or "?")), integer=True, pos=True))
            axis += it.ndim
            meta.pop("spec", None)
        elif isinstance(it, Arr) and arr.ndim == 1 and "gen" in arr.meta and isinstance(it.val, Expr) and it.meta.get("perm") is None:
            shape.extend(it.shape or ())
            val = arr.meta["gen"](it.val)
            meta.pop("gen", None)
            axis += 1
        elif isinstance(it, Arr):
            # integer (fancy) index on one axis
            shape.extend(it.shape or ())
            inv = it.meta.get("inverse_of")
            if inv is not None and isinstance(val, Expr):
                U, req = inv
                ua = _single_atom(U.val)
                if ua is not None and isinstance(req.val, Expr):
                    val = val.subs({ua: req.val})
                    if "lvl0" in meta and isinstance(meta["lvl0"], Expr):
                        meta["lvl0"] = meta["lvl0"].subs({ua: req.val})
            elif isinstance(val, Expr) and it.meta.get("invperm_of") is not None and isinstance(it.meta["invperm_of"].val, Expr):
                val = alg.fn("scatter", val, it.meta["invperm_of"].val)  # x[inv(p)] is x scattered through p
            elif isinstance(val, Expr) and (not isinstance(arr, SymArr) or arr.ndim == 1):
                val = alg.fn("gather", val, it.val if isinstance(it.val, Expr) else alg.sym("?"))
            axis += 1
        elif isinstance(it, Unknown):
            return Unknown("index " + it.why)
        else:
            return Unknown("index %r" % (it,))
    if point:
        if len(point) == 2 and all(const_int(p) == 0 for p in point.values()):
            if I.ctx != "mean":
                # the value at the mean mode, seen from the analysis of a generic mode: a number in its own right (the mean
                # context evaluates it), here a symbol so that a test on it is a proper two-way branch and not a guess
                val = alg.fn("meanmode", val) if isinstance(val, Expr) else Unknown("mean-mode entry read at a generic mode")
        elif len(point) == 2 and arr.meta.get("spec") is not None and isinstance(val, Expr) and all(const_int(p) is not None for p in point.values()):
            # one coefficient of a spectrum other than the mean: a number of its own (no other quantity of the computation equals it)
            val = alg.fn("coefficient", val, alg.const(const_int(point[0])), alg.const(const_int(point[1])))
        elif isinstance(val, Expr) and val.as_const() is not None and "points" not in arr.meta:
            pass  # every entry of the array is that one constant
        else:
            val = Unknown("point read at fixed grid index")
        meta.pop("spec", None)
    if not shape:
        return val if not isinstance(val, bool) else val
    real_items = [it for it in items if it is not None]
    if arr.ndim >= 2 and len(real_items) == arr.ndim and all(isinstance(it, SliceV) and it.step is None for it in real_items):
        bounds = []
        for it, dim in zip(real_items, arr.shape):
            lo = it.lo if it.lo is not None else ZERO
            hi = it.hi if it.hi is not None else dim
            bounds.append((lo, hi))
        if all(isinstance(b[0], Expr) and isinstance(b[1], Expr) for b in bounds):
            meta["slice_of"] = (arr, bounds)
    return Arr(tuple(shape), val, arr.dtype, meta)


def _single_atom(x):
    if isinstance(x, Expr):
        cm = x.as_mono()
        if cm is not None and cm[0] == alg.C1 and len(cm[1]) == 1 and cm[1][0][1] == 1:
            return cm[1][0][0]
    return None


def _corner_block_store(I, arr, items, v, node):
    """zeros[..., ya:yb, xa:xb] = t[..., yc:yd, xc:xd], repeated for the four corner blocks: the retained modes of the
    truncated spectrum t copied block by block.  The blocks are collected; once they tile t they are judged like an index
    scatter (each axis: source runs -> destination runs must be the retained-mode map)."""
    real = [it for it in items if it is not None]
    if arr.ndim < 2 or len(real) != arr.ndim or not isinstance(v, Arr) or v.ndim != arr.ndim:
        return None
    so = v.meta.get("slice_of")
    if so is None:
        return None
    blocks = arr.meta.get("corner_blocks")
    fresh_zero = isinstance(arr.val, Expr) and arr.val.is_zero() and arr.meta.get("spec") is None and not arr.meta.get("partial_store")
    if blocks is None and not fresh_zero:
        return None
    if not all(isinstance(it, SliceV) and it.is_full() for it in real[:-2]):
        return None
    if not all(isinstance(it, SliceV) and it.step is None for it in real[-2:]):
        return None
    src, sb = so
    if blocks and blocks[0]["src"] is not src:
        return None
    if not all(lo.is_zero() and hi.eq(d) for (lo, hi), d in zip(sb[:-2], src.shape[:-2])):
        return None
    dst = []
    for it, dim in zip(real[-2:], arr.shape[-2:]):
        lo = it.lo if it.lo is not None else ZERO
        hi = it.hi if it.hi is not None else dim
        if not (isinstance(lo, Expr) and isinstance(hi, Expr)):
            return None
        dst.append((lo, hi))
    new = arr.copy()
    new.meta = dict(arr.meta)
    blocks = list(blocks or []) + [{"src": src, "dst": dst, "sb": list(sb[-2:])}]
    new.meta["corner_blocks"] = blocks
    new.meta["partial_store"] = True
    new.val = Unknown("%s assembled block by block (%d blocks so far)" % (arr.name or "array", len(blocks)))
    if len(blocks) < 4:
        return new
    # per axis: the distinct (source run -> destination run) pairs
    maps = []
    for ax in (0, 1):
        pairs = []
        for b in blocks:
            p = (b["sb"][ax], b["dst"][ax])
            if not any(p[0][0].eq(q[0][0]) and p[0][1].eq(q[0][1]) and p[1][0].eq(q[1][0]) and p[1][1].eq(q[1][1]) for q in pairs):
                pairs.append(p)
        maps.append(pairs)
    if len(maps[0]) != 2 or len(maps[1]) != 2 or len(blocks) != 4:
        return new
    verdicts = []
    for ax, pairs, n, N in ((0, maps[0], src.shape[-2], arr.shape[-2]), (1, maps[1], src.shape[-1], arr.shape[-1])):
        # order by source position: the run that starts at 0 first
        pairs = sorted(pairs, key=lambda p: 0 if p[0][0].is_zero() else 1)
        (s0, d0), (s1, d1) = pairs
        if not (s0[0].is_zero() and s0[1].eq(s1[0]) and s1[1].eq(n)):
            verdicts.append((None, "the source blocks do not tile the truncated spectrum", ax))
            continue
        len0, len1 = (s0[1] - s0[0]).expand(), (s1[1] - s1[0]).expand()
        if not ((d0[1] - d0[0]).expand().eq(len0) or IV.scalar_equal(I, d0[1] - d0[0], len0)[0]) or not ((d1[1] - d1[0]).expand().eq(len1) or IV.scalar_equal(I, d1[1] - d1[0], len1)[0]):
            verdicts.append((False, "a block is copied into a window of another size", ax))
            continue
        iv = IV.IVec([(len0, d0[0]), (len1, d1[0])])
        ok, why = IV.compare(I, iv, IV.trunc_map(n, N), N)
        verdicts.append((ok, why, ax))
    if any(ok is None for ok, _, _ in verdicts):
        return new
    bad = [(w, ax) for ok, w, ax in verdicts if ok is False]
    if bad:
        for w, ax in bad:
            I.event("typestate", node, "the corner blocks put the retained modes of axis %d at other places than their own wavenumbers: %s" % (ax, w))
        return new
    two = alg.const(2)
    Ny, Nx = arr.shape[-2], arr.shape[-1]
    ny_, nx_ = src.shape[-2], src.shape[-1]
    dy = I.scalar_binop(ast.FloorDiv(), (Ny - ny_).expand(), two, node)
    dx = I.scalar_binop(ast.FloorDiv(), (Nx - nx_).expand(), two, node)
    kw = {} if src.ndim == 2 else {"axes": Tup([alg.const(src.ndim - 2), alg.const(src.ndim - 1)])}
    r = fftshift(I, [src], kw, node)
    widths = [Tup([ZERO, ZERO])] * (src.ndim - 2) + [Tup([dy, dy]), Tup([dx, dx])]
    r = np_pad(I, [r, Tup(widths)], {"mode": "constant", "constant_values": ZERO}, node)
    if not isinstance(r, Arr):
        return new
    r = ifftshift(I, [r], kw, node)
    if isinstance(r, Arr):
        r = r.copy(name=arr.name)
        r.shape = arr.shape
        r.dtype = arr.dtype
        return r
    return new


def _centre_window_store(I, arr, items, v, node):
    """zeros[..., a:N-a', b:M-b'] = centred spectrum: zero padding written as a store into the middle of a zero array"""
    real = [it for it in items if it is not None]
    if arr.ndim < 2 or len(real) != arr.ndim or not isinstance(v, Arr) or v.ndim != arr.ndim:
        return None
    if not (isinstance(arr.val, Expr) and arr.val.is_zero() and arr.meta.get("spec") is None and not arr.meta.get("partial_store")):
        return None
    if not all(isinstance(it, SliceV) and it.is_full() for it in real[:-2]):
        return None
    sy, sx = real[-2], real[-1]
    if not (isinstance(sy, SliceV) and isinstance(sx, SliceV) and sy.step is None and sx.step is None and not (sy.is_full() and sx.is_full())):
        return None
    vs = v.meta.get("spec")
    if vs is None or vs.layout != "cen":
        return None  # only the padding of a centred spectrum is recognised here
    widths = [Tup([ZERO, ZERO])] * (arr.ndim - 2)
    for sl, dim in ((sy, arr.shape[-2]), (sx, arr.shape[-1])):
        lo = sl.lo if sl.lo is not None else ZERO
        hi = sl.hi if sl.hi is not None else dim
        if not (isinstance(lo, Expr) and isinstance(hi, Expr)):
            return None
        widths.append(Tup([lo, (dim - hi).expand()]))
    r = np_pad(I, [v, Tup(widths)], {"mode": "constant", "constant_values": ZERO}, node)
    if isinstance(r, Arr):
        r = r.copy(name=arr.name)
        r.shape = arr.shape
        r.dtype = arr.dtype
        return r
    return None


def _index_scatter(I, arr, items, v, node):
    """full[..., rows[:, None], cols] = truncated spectrum  into a zero array: the inverse of the retained-mode gather,
    i.e. fftshift -> symmetric zero padding -> ifftshift when the index vectors are the retained modes"""
    gv = _grid_index_vectors(arr, items)
    if gv is None:
        return None
    ivy, ivx = gv
    new = arr.copy()
    new.meta = dict(arr.meta)
    zero_target = isinstance(arr.val, Expr) and arr.val.is_zero() and arr.meta.get("spec") is None and not arr.meta.get("partial_store")
    vs = v.meta.get("spec") if isinstance(v, Arr) else None
    if not zero_target or (vs is not None and vs.layout != "nat") or not isinstance(v, Arr) or v.ndim != arr.ndim:
        new.val = Unknown("index scatter that is not the embedding of a truncated spectrum into zeros")
        return new
    Ny, Nx = arr.shape[-2], arr.shape[-1]
    ny_, nx_ = v.shape[-2], v.shape[-1]
    verdicts = []
    for iv, n, N, ax in ((ivy, ny_, Ny, "y"), (ivx, nx_, Nx, "x")):
        if not iv.length().eq(n):
            verdicts.append((False, "%s index vector has %r entries for %r modes" % (ax, iv.length(), n), ax))
            continue
        ok, why = IV.compare(I, iv, IV.trunc_map(n, N), N)
        verdicts.append((ok, why, ax))
    if any(ok is None for ok, _, _ in verdicts):
        new.val = Unknown("index scatter whose index vectors could not be compared with the retained modes")
        return new
    bad = [(w, ax) for ok, w, ax in verdicts if ok is False]
    if bad:
        for w, ax in bad:
            I.event("typestate", node, "the retained modes are scattered along %s to other places than their own wavenumbers: %s" % (ax, w))
        new.val = Unknown("scatter of the retained modes to other places")
        return new
    two = alg.const(2)
    dy = I.scalar_binop(ast.FloorDiv(), (Ny - ny_).expand(), two, node)
    dx = I.scalar_binop(ast.FloorDiv(), (Nx - nx_).expand(), two, node)
    kw = {} if v.ndim == 2 else {"axes": Tup([alg.const(v.ndim - 2), alg.const(v.ndim - 1)])}
    r = fftshift(I, [v], kw, node)
    widths = [Tup([ZERO, ZERO])] * (v.ndim - 2) + [Tup([dy, dy]), Tup([dx, dx])]
    r = np_pad(I, [r, Tup(widths)], {"mode": "constant", "constant_values": ZERO}, node)
    if not isinstance(r, Arr):
        new.val = Unknown("index scatter")
        return new
    r = ifftshift(I, [r], kw, node)
    if isinstance(r, Arr):
        r = r.copy(name=arr.name)
        r.shape = arr.shape
        r.dtype = arr.dtype
    return r


def store(I, arr, idx, v, node, env):
    if arr.shape is None:
        I.event("unsupported", node, "store into array of unknown shape")
        return None
    items = _expand_index(I, arr, idx, node)
    iv = arr.meta.get("ivec")
    if iv is not None and arr.ndim == 1 and len(items) == 1 and isinstance(items[0], SliceV) and items[0].step is None and isinstance(v, Arr) and v.meta.get("ivec") is not None:
        sl = items[0]
        lo = sl.lo if sl.lo is not None else ZERO
        hi = sl.hi if sl.hi is not None else arr.shape[0]
        a1 = iv.split(lo)
        a2 = a1[1].split(hi - lo) if a1 is not None else None
        if a2 is not None:
            new = arr.copy()
            new.meta = dict(arr.meta)
            new.meta["ivec"] = a1[0].concat(v.meta["ivec"]).concat(a2[1])
            new.meta.pop("gen", None)
            new.meta.pop("arange", None)
            new.val = Unknown("index vector")
            return new
    sc = _index_scatter(I, arr, items, v, node)
    if sc is not None:
        return sc
    cw = _centre_window_store(I, arr, items, v, node)
    if cw is not None:
        return cw
    cb = _corner_block_store(I, arr, items, v, node)
    if cb is not None:
        return cb
    # x[1:] = x[:-1] on an array of inclusive prefix sums (numpy copies overlapping ranges as if through a temporary):
    # everything moves one place to the right, entry 0 stays; resetting entry 0 afterwards gives the exclusive prefix sums
    if (arr.ndim == 1 and len(items) == 1 and isinstance(items[0], SliceV) and const_int(items[0].lo) == 1 and items[0].hi is None and items[0].step is None
            and isinstance(v, Arr) and v.meta.get("slice1d") is not None and v.meta["slice1d"][0] is None and const_int(v.meta["slice1d"][1]) == -1
            and isinstance(arr.val, Expr) and isinstance(v.meta["slice1d"][2], Arr) and isinstance(v.meta["slice1d"][2].val, Expr) and v.meta["slice1d"][2].val.eq(arr.val)):
        cs = _single_atom(arr.val)
        if cs is not None and cs.kind == "fn" and cs.name == "cumsum":
            new = arr.copy()
            new.meta = {k: x for k, x in arr.meta.items() if k not in ("gen", "cumsum_of")}
            new.meta["roll_of"] = (arr, ONE)  # same state as np.roll(x, 1) before its first entry is reset (entry 0 differs, and is overwritten next)
            new.val = alg.fn("roll", arr.val, ONE)
            return new
    ro = arr.meta.get("roll_of")
    if ro is not None and arr.ndim == 1 and len(items) == 1 and isinstance(val_of(v), Expr) and val_of(v).is_zero():
        it = items[0]
        first = (isinstance(it, Expr) and const_int(it) == 0) or (isinstance(it, SliceV) and it.lo is None and const_int(it.hi) == 1 and it.step is None)
        src, shift = ro
        cs = _single_atom(src.val) if isinstance(src.val, Expr) else None
        if first and const_int(shift) == 1 and cs is not None and cs.kind == "fn" and cs.name == "cumsum":
            # inclusive prefix sums rolled right by one with the wrapped-around entry reset: the exclusive prefix sums
            new = arr.copy()
            new.meta = {k: x for k, x in arr.meta.items() if k != "roll_of"}
            new.val = src.val - cs.args[0]
            return new
    gax = grid_axes(arr)
    region = []
    axis = 0
    applies = True  # does the store touch the analysis point?
    point = {}
    level = "all"
    is_mean_point = False
    for it in items:
        if it is None:
            continue
        dim = arr.shape[axis] if axis < arr.ndim else ONE
        if isinstance(it, SliceV):
            if it.is_full():
                region.append(dim)
            else:
                ln, lo = _slice_len(I, it, dim)
                region.append(ln if isinstance(ln, Expr) else alg.fn("len", alg.sym("slice@%s" % getattr(node, "lineno", 0)), integer=True))
                if not (level_axis(arr) == axis):
                    # partial stores (e.g. M_shifted[1:]) are kept as opaque updates
                    level = ("partial", it)
            axis += 1
        elif isinstance(it, Expr):
            if axis in gax and arr.ndim >= 2:
                point[gax.index(axis)] = it
            elif level_axis(arr) == axis:
                c = const_int(it)
                level = ("const", c) if c is not None else ("slot", it)
            else:
                level = ("elem", it)
            axis += 1
        elif isinstance(it, Arr) and it.dtype == "bool" and it.ndim == 1 and level_axis(arr) == axis and isinstance(it.val, Pred) and it.val.op == "==" and _level_mask_of(I, it.val) is not None:
            # x[levels == i, ...] = state: every output slot whose requested level is node i receives the state of node i
            level = ("levelmask", _level_mask_of(I, it.val))
            axis += 1
        elif isinstance(it, Arr) and it.dtype == "bool":
            mv = it.val
            sub = arr.shape[axis: axis + it.ndim]
            if it.shape is not None:
                for x, y in zip(sub, it.shape):
                    if not dim_eq(x, y):
                        I.event("shape", node, "boolean index of shape %r on axes of shape %r" % (it.shape, tuple(sub)))
                        break
            if mv is BOT:
                applies = False
            else:
                applies = applies and (I.decide_pred(mv) if not isinstance(mv, Expr) else I.truth(mv))
            region.append(it.meta["count_dim"] if it.meta.get("count_dim") is not None else alg.fn("count", alg.sym("mask:%s" % (it.meta.get("ident") or it.name or "?")), integer=True, pos=True))
            axis += it.ndim
        elif isinstance(it, Arr):
            region.extend(it.shape or ())
            level = ("scatter", it)
            axis += 1
        else:
            I.event("unsupported", node, "store index %r" % (it,))
            return None
    if point:
        if len(point) == 2 and all(const_int(p) == 0 for p in point.values()):
            is_mean_point = True
            sp = arr.meta.get("spec")
            if sp is not None and sp.layout == "cen":
                I.event("typestate", node, "entry [0,0] addressed as the mean mode while the array is in centred layout")
            applies = applies and I.ctx == "mean"
        else:
            I.event("spectral-line-store" if (arr.meta.get("spec") is not None or level_axis(arr) is not None) else "unsupported", node,
                    "store at fixed grid index %r of %s" % (point, arr.name))
            return None
    elif arr.ndim >= 2 and I.ctx == "mean" and not any(isinstance(it, Arr) for it in items):
        pass  # full-slice store also covers the mean point
    # shape compatibility of the stored value
    vs = v.shape if isinstance(v, Arr) else ()
    if vs is not None and region is not None:
        _check_assignable(I, tuple(region), tuple(vs), node)
    sv = val_of(v)
    # dtype discipline: a float stored into storage whose dtype is inherited from an argument
    vd = v.dtype if isinstance(v, Arr) else _scalar_dtype(v)
    if (arr.dtype or "").startswith("inherit") and vd not in (None, "bool", "int", "int64") and ((not (vd or "").startswith("inherit")) or vd != arr.dtype):
        I.event("dtype", node, "value of kind %s stored into %s whose dtype is %s" % (vd, arr.name, arr.dtype))
    new = arr.copy()
    new.meta = dict(arr.meta)
    if isinstance(level, tuple) and level[0] == "elem" and arr.ndim == 1 and I.loop_stack and len(items) == 1:
        # table filled element by element over its whole index range: a[k] = e(k) for k in range(len(a))
        L = I.loop_stack[-1]
        iv = alg.atom_expr(L.ivar)
        if (isinstance(level[1], Expr) and level[1].eq(L.rng.start + iv * L.rng.step) and L.rng.start.is_zero() and L.rng.step.eq(ONE)
                and dim_eq(L.rng.count, arr.shape[0]) and not I.guard_stack):
            def gen(k, v=v, ivar=L.ivar):
                if isinstance(v, I_.Member):
                    return I_.Member(v.value.subs({ivar: k}), v.cid, v.cname, v.levelish, container=v.container)
                if isinstance(v, Expr):
                    return v.subs({ivar: k})
                return v
            if isinstance(v, (I_.Member, Expr, bool)):
                new.meta["gen"] = gen
                new.meta["table_by_loop"] = L.id
                g0 = gen(alg.fn("idx", arr.shape[0], integer=True))
                new.val = g0 if isinstance(g0, Expr) else Unknown("table of %r" % (v,))
                return new
    if level[0] == "levelmask":
        lvals, node_expr, in_loop = level[1]
        pt = "mean" if is_mean_point else "generic"
        if in_loop:
            L = I.loop_stack[-1]
            if applies and sv is not BOT:
                pend = list(new.meta.get("pending_level", []))
                pend.append((L.id, pt, sv, lvals))
                new.meta["pending_level"] = pend
                ls = LevelStore(new.name, lvals, pt, sv, I_.Member(node_expr, id(lvals), "levels", True), "%s:%s" % (I.cur_mod.name, node.lineno), True)
                ls.masked = True  # slots are addressed by the requested level itself, not by a running counter
                L.level_stores.append(ls)
            return new
        # after the sweep: the slots that ask for this node receive the final state - which is what the formula of the sweep
        # gives for that node already when the value stored is the carried state itself
        if not applies or sv is BOT:
            return new
        if new.meta.get("level_written") and isinstance(new.val, Expr) and isinstance(sv, Expr):
            la = _single_atom(lvals)
            if la is not None and new.val.subs({la: node_expr}).eq(sv):
                return new
        new.val = Unknown("%s after a masked level store that the sweep's own formula does not reproduce" % (new.name or "array"))
        return new
    if level[0] == "slot":
        return _level_store(I, new, level[1], is_mean_point, sv, node, applies, env)
    if not applies or sv is BOT:
        return new
    if level == "all":
        new.val = sv
        new.meta.pop("lvl0", None)
        new.meta.pop("carried", None)  # completely overwritten: nothing is carried over
        if isinstance(v, Arr) and "lvl0" in v.meta and level_axis(arr) is not None:
            new.meta["lvl0"] = v.meta["lvl0"]  # the stored value itself differs at level slot 0
    elif level[0] == "const":
        if level[1] == 0 and level_axis(arr) is not None:
            new.meta["lvl0"] = sv
        else:
            new.val = alg.fn("upd", new.val if isinstance(new.val, Expr) else alg.sym("?"), sv if isinstance(sv, Expr) else alg.sym("?")) if isinstance(new.val, Expr) else new.val
    elif level[0] == "scatter":
        ix = level[1]
        ar = v.meta.get("arange") if isinstance(v, Arr) else None
        if ar is not None and ar[0].is_zero() and ar[2].eq(ONE) and isinstance(ix.val, Expr) and ix.meta.get("perm") is not None:
            new.val = alg.fn("invperm", ix.val)  # rank[p] = arange: the inverse permutation
            new.meta["invperm_of"] = ix
        else:
            new.val = alg.fn("scatter", sv, ix.val) if isinstance(sv, Expr) and isinstance(ix.val, Expr) else Unknown("scatter")
            new.meta["scatter"] = ix
    elif level[0] == "partial" and arr.ndim == 1 and isinstance(new.val, Expr) and new.val.is_zero() and const_int(level[1].lo) == 1 and level[1].hi is None and isinstance(v, Arr) and "gen" in v.meta and "slice1d" not in v.meta:
        g = v.meta["gen"]
        # element 0 stays zero, element k>0 is g(k-1); for prefix sums g(k-1) = sum_{j<k}, which is 0 at k = 0 as well
        new.meta["gen"] = lambda k, g=g: g(k - ONE)
        new.val = new.meta["gen"](alg.fn("idx", arr.shape[0], integer=True))
        new.meta["partial_store"] = True
    elif level[0] in ("partial", "elem"):
        sl = v.meta.get("slice1d") if isinstance(v, Arr) else None
        tgt = level[1] if level[0] == "partial" else None
        if (tgt is not None and arr.ndim == 1 and isinstance(new.val, Expr) and new.val.is_zero() and const_int(tgt.lo) == 1 and tgt.hi is None
                and sl is not None and sl[0] is None and const_int(sl[1]) == -1 and isinstance(sv, Expr)):
            cs = [a for a in [sv.as_mono()[1][0][0]] if a.kind == "fn" and a.name == "cumsum"] if sv.as_mono() is not None and len(sv.as_mono()[1]) == 1 and sv.as_mono()[0] == alg.C1 else []
            if cs:
                new.val = sv - cs[0].args[0]  # zeros, then shifted right by one: the exclusive prefix sum  cumsum(s) - s
            else:
                new.val = alg.fn("shifted", sv)
        elif isinstance(new.val, Expr) and isinstance(sv, Expr) and arr.ndim == 1:
            new.val = alg.fn("upd", new.val, sv)
            if level[0] == "elem" and isinstance(level[1], Expr) and const_int(level[1]) is not None and const_int(level[1]) >= 0:
                pts = dict(arr.meta.get("points") or {})
                pts[const_int(level[1])] = sv  # the entry at this fixed position is known exactly
                new.meta["points"] = pts
        elif isinstance(new.val, Expr) and isinstance(sv, Expr):
            # a block of a multi-dimensional array overwritten: which entries hold what is not modelled
            new.val = Unknown("%s assembled by partial stores (line %s)" % (arr.name or "array", getattr(node, "lineno", "?")))
        else:
            new.val = Unknown("array after a partial store of %r" % (v,))
        new.meta.pop("gen", None)
        new.meta["partial_store"] = True
    return new


def _check_assignable(I, region, vshape, node):
    r, v = list(region), list(vshape)
    if len(v) > len(r):
        # leading ones are allowed
        extra = v[: len(v) - len(r)]
        if not all(dim_is_one(x) for x in extra):
            I.event("shape", node, "cannot assign value of shape %r to region of shape %r" % (vshape, region))
            return
        v = v[len(v) - len(r):]
    while len(v) < len(r):
        v.insert(0, ONE)
    for x, y in zip(r, v):
        if not (dim_eq(x, y) or dim_is_one(y) or _placeholder_dim(x) or _placeholder_dim(y)):
            I.event("shape", node, "cannot assign value of shape %r to region of shape %r" % (vshape, region))
            return


def _level_mask_of(I, pred):
    """`levels == node` as a mask over the level axis: (generic entry of the level list, node expression, inside a sweep?)
    when the predicate compares the entries of a 1-D array with a quantity that does not depend on the position"""
    e = pred.e.expand()
    elems = [a for a in e.top_atoms() if a.kind == "fn" and a.name == "elem"]
    if len(elems) != 1:
        return None
    c = e.coeff_of(elems[0], 1)
    if not (c.eq(ONE) or c.eq(-ONE)):
        return None
    lv = alg.atom_expr(elems[0])
    node_expr = (lv - e).expand() if c.eq(ONE) else (lv + e).expand()
    if elems[0] in node_expr.atoms():
        return None
    in_loop = False
    if I.loop_stack:
        L = I.loop_stack[-1]
        i_expr = L.rng.start + alg.atom_expr(L.ivar) * L.rng.step
        if not node_expr.eq(i_expr):
            return None
        in_loop = True
    return lv, node_expr, in_loop


def _level_store(I, new, slot, is_mean_point, sv, node, applies, env):
    pt = "mean" if is_mean_point else "generic"
    guard = I.guard_stack[-1] if I.guard_stack else None
    where = "%s:%s" % (I.cur_mod.name, node.lineno)
    if guard is None:
        I.event("unsupported", node, "store into a computed level slot outside a level-membership test")
        if isinstance(slot, Expr) and slot.as_const() is None:
            # a slot computed from the number of levels (an extra row, ...): what the rows hold afterwards is not followed
            bad = new.copy(val=Unknown("%s after a store into a level slot that is not part of the slot-counter idiom (line %s)" % (new.name or "level array", getattr(node, "lineno", "?"))))
            bad.meta = dict(new.meta)
            return bad
        return new
    ls = LevelStore(new.name, slot, pt, sv, guard, where, bool(I.loop_stack))
    if I.loop_stack:
        L = I.loop_stack[-1]
        L.level_stores.append(ls)
        if applies and sv is not BOT:
            cont = guard.container
            lev = cont.val if isinstance(cont, Arr) and isinstance(cont.val, Expr) else Unknown("level element")
            pend = list(new.meta.get("pending_level", []))
            pend.append((L.id, pt, sv, lev))
            new.meta["pending_level"] = pend
    else:
        if I.loops:
            I.loops[-1].level_stores.append(ls)
        else:
            I.event("unsupported", node, "level-slot store with no preceding sweep")
    return new


# --------------------------------------------------------------------------
# constructors of package classes / methods


def construct(I, f, args, kwargs, node):
    cls = f.node
    obj = Opaque(f.dotted, {"__class__": (f.module, cls), "__args__": (args, kwargs)})
    if any((dotted_name(b) or "").split(".")[-1] == "NamedTuple" for b in cls.bases):
        # typing.NamedTuple: a tuple of the fields in declaration order, with the field names as attributes
        fields = [n for n in cls.body if isinstance(n, ast.AnnAssign) and isinstance(n.target, ast.Name)]
        names = [n.target.id for n in fields]
        given = dict(zip(names, args))
        for k, v in kwargs.items():
            if k in given or k not in names:
                raise I_.raise_exc("TypeError", node, "%s() got an unexpected or repeated field %s" % (cls.name, k))
            given[k] = v
        vals = []
        saved = I.cur_mod
        I.cur_mod = f.module
        try:
            for n in fields:
                if n.target.id in given:
                    vals.append(given[n.target.id])
                elif n.value is not None:
                    vals.append(I.eval(n.value, {}))
                else:
                    raise I_.raise_exc("TypeError", node, "%s() missing field %s" % (cls.name, n.target.id))
        finally:
            I.cur_mod = saved
        t = Tup(vals, "tuple")
        t.fields = names
        return t
    if any((dotted_name(d.func if isinstance(d, ast.Call) else d) or "").split(".")[-1] == "dataclass" for d in cls.decorator_list):
        # a dataclass: the generated constructor binds the fields in declaration order, fills the defaults and runs __post_init__
        fields = [n for n in cls.body if isinstance(n, ast.AnnAssign) and isinstance(n.target, ast.Name)]
        given = dict(zip([n.target.id for n in fields], args))
        for k, v in kwargs.items():
            if k in given:
                raise I_.raise_exc("TypeError", node, "%s() got multiple values for field %s" % (cls.name, k))
            given[k] = v
        saved = I.cur_mod
        I.cur_mod = f.module
        try:
            for n in fields:
                nm = n.target.id
                if nm in given:
                    obj.attrs[nm] = given.pop(nm)
                elif n.value is None:
                    raise I_.raise_exc("TypeError", node, "%s() missing field %s" % (cls.name, nm))
                elif isinstance(n.value, ast.Call) and (dotted_name(n.value.func) or "").split(".")[-1] == "field":
                    kw = {k.arg: k.value for k in n.value.keywords}
                    if "default_factory" in kw:
                        obj.attrs[nm] = I.call(I.eval(kw["default_factory"], {}), [], {}, node, {})
                    elif "default" in kw:
                        obj.attrs[nm] = I.eval(kw["default"], {})
                    else:
                        raise I_.raise_exc("TypeError", node, "%s() missing field %s" % (cls.name, nm))
                else:
                    obj.attrs[nm] = I.eval(n.value, {})
        finally:
            I.cur_mod = saved
        if given:
            raise I_.raise_exc("TypeError", node, "%s() got unexpected fields %s" % (cls.name, sorted(given)))
        post = next((n for n in cls.body if isinstance(n, ast.FunctionDef) and n.name == "__post_init__"), None)
        if post is not None:
            I.call_package(FuncRef("pkg", f.module.name + "." + cls.name + ".__post_init__", f.module, post), [obj], {}, node)
    return obj


def method(I, f, args, kwargs, node):
    b = f.bound
    name = f.dotted.split(".")[-1]
    if isinstance(b, Arr):
        if name in ("copy", "astype", "flatten"):
            r = b.copy()
            if name == "astype" and args and isinstance(args[0], str):
                if args[0] in NARROW_DTYPES and (b.dtype or "float") not in NARROW_DTYPES:
                    I.event("narrowing-cast", node, "%s of dtype %s is cast to %s" % (b.name or "a computed array", b.dtype or "float", args[0]))
                r.dtype = args[0]
            return r
        if name in ("ravel", "flatten", "reshape") and kwargs.get("order") not in (None, "C"):
            I.event("layout", node, "%s(order=%r): the order of the flattened elements depends on the memory layout of the array, not on its indices" % (name, kwargs.get("order")))
        if name == "reshape" and b.shape is not None:
            shp0 = args[0] if len(args) == 1 else Tup(args)
            dims = [shp0] if isinstance(shp0, Expr) else list(shp0.items) if isinstance(shp0, Tup) else None
            if dims is not None and all(isinstance(x, Expr) for x in dims):
                free = [k for k, x in enumerate(dims) if x.eq(-ONE)]
                if len(free) == 1:
                    tot, rest = ONE, ONE
                    for d in b.shape:
                        tot = tot * d
                    for k, x in enumerate(dims):
                        if k != free[0]:
                            rest = rest * x
                    dims[free[0]] = (tot / rest).simp() if hasattr(tot / rest, "simp") else tot / rest  # the one dimension numpy infers
                if len(dims) == 1:
                    name = "ravel"  # a flat view in index order
                else:
                    args = [Tup(dims)]
        if name == "ravel" and b.ndim == 1 and not isinstance(b, SymArr):
            r = b.copy()
            r.meta = dict(b.meta)  # already flat: the same entries in the same order, whatever is known about them included
            return r
        if name == "ravel":
            t = ONE
            for d in b.shape:
                t = t * d
            dt = b.dtype
            if isinstance(b, SymArr):
                dt = "inherit:%s" % b.name
            m = {"ravel_of": b, "param_derived": b.meta.get("param") or b.meta.get("param_derived")}
            if b.ndim == 2 and grid_axes(b) == (0, 1) and (b.meta.get("spec") is not None or b.meta.get("spec1d") or b.meta.get("meshgrid") or b.meta.get("modegrid")):
                m["flatmodes"] = b  # row-major: the mean mode [0, 0] is element 0
            return Arr((t,), b.val, dt, m)
        if name == "reshape":
            shp = args[0] if len(args) == 1 else Tup(args)
            if isinstance(shp, Tup) and all(isinstance(x, Expr) for x in shp.items):
                m = dict(b.meta)
                new_shape = tuple(shp.items)
                if (b.ndim == 3 and len(new_shape) == 2 and dim_eq(new_shape[0], b.shape[0]) and dim_eq(new_shape[1], b.shape[1] * b.shape[2])
                        and grid_axes(b) == (1, 2)):
                    m["flatmodes"] = b  # (levels, ny, nx) -> (levels, ny*nx): the mean mode is column 0
                    m.pop("spec", None)
                    register_mode_dim(new_shape[1])
                elif "flatmodes" in m:
                    m.pop("flatmodes")
                return Arr(new_shape, b.val, b.dtype, m)
            return Arr(None, b.val, b.dtype, dict(b.meta))
        if name == "tolist":
            return Opaque("list-of-array", {"of": b})
        if name in ("tobytes",):
            return Opaque("bytes", {"of": b})
        if name in ("any", "all") and not args:
            els = _elements_of(b)
            if els is not None:
                preds = [I.cmp_expr(e, "!=") for e in els]
                if all(isinstance(p, bool) for p in preds):
                    return any(preds) if name == "any" else all(preds)
                return BoolCombo("or" if name == "any" else "and", preds)
            q = _quantified(I, name, b)
            if q is not None:
                return q
            return Unknown("array.%s()" % name)
        if name in ("sum", "max", "min", "mean"):
            return alg.fn(name, b.val) if isinstance(b.val, Expr) else Unknown(name)
        if name == "item":
            return b.val
        return Unknown("array method %s" % name)
    if isinstance(b, Expr):
        if name == "item":
            return b
        if name in ("copy",):
            return b
        return Unknown("scalar method %s" % name)
    if isinstance(b, Tup):
        if name in ("append", "insert", "extend", "remove", "pop", "clear", "update", "setdefault", "sort", "reverse", "popitem"):
            I.note_table_write(b, node, "%s()" % name)
        if name == "append":
            if I.loop_stack and b.kind == "list":
                L = I.loop_stack[-1]
                last = b.items[-1] if b.items else None
                if isinstance(last, GenList) and last.ivar is L.ivar:
                    # several appends per iteration interleave: [a(0), b(0), a(1), b(1), ...]
                    grp = last.elem.items if isinstance(last.elem, Tup) and last.elem.kind == "group" else [last.elem]
                    b.items[-1] = GenList(Tup(grp + [args[0]], "group"), L.ivar, L.rng)
                else:
                    b.items.append(GenList(args[0], L.ivar, L.rng))
            elif getattr(I, "generic_depth", 0):
                b.items.append(Unknown("the elements appended in the loop at line %s, which is followed for one generic element only" % getattr(node, "lineno", "?")))
            else:
                b.items.append(args[0])
            return None
        if name == "get" and b.kind == "dict":
            for k, v in reversed(b.items):
                if k == args[0]:
                    return v
            return args[1] if len(args) > 1 else None
        if name in ("keys", "values", "items") and b.kind == "dict":
            if name == "keys":
                return Tup([k for k, _ in b.items], "list")
            if name == "values":
                return Tup([v for _, v in b.items], "list")
            return Tup([Tup([k, v]) for k, v in b.items], "list")
        if name == "pop":
            if b.kind == "dict":
                if not args:
                    return Unknown("dict.pop()")
                for i, (k, v) in enumerate(b.items):
                    if I_.key_equal(k, args[0]):
                        del b.items[i]
                        return v
                if len(args) > 1:
                    return args[1]
                return Unknown("KeyError %r" % (args[0],))
            if any(isinstance(x, I_.GenList) for x in b.items):
                return Unknown("pop from a generated list")
            if args:
                k = const_int(args[0]) if isinstance(args[0], Expr) else None
                if k is None or not (-len(b.items) <= k < len(b.items)):
                    return Unknown("pop(%r)" % (args[0],))
                return b.items.pop(k)
            return b.items.pop() if b.items else Unknown("pop")
        if name == "clear":
            del b.items[:]
            return None
        if name == "update" and b.kind == "dict" and args and isinstance(args[0], Tup) and args[0].kind == "dict":
            for k, v in args[0].items:
                for i, (k0, _) in enumerate(b.items):
                    if I_.key_equal(k0, k):
                        b.items[i] = (k, v)
                        break
                else:
                    b.items.append((k, v))
            return None
        if name == "setdefault" and b.kind == "dict" and args:
            for k, v in b.items:
                if I_.key_equal(k, args[0]):
                    return v
            b.items.append((args[0], args[1] if len(args) > 1 else None))
            return b.items[-1][1]
        plain = b.kind in ("list", "tuple") and not any(isinstance(x, I_.GenList) for x in b.items)
        if name == "index" and plain and args:
            for k, x in enumerate(b.items):
                if I_.key_equal(x, args[0]):
                    return alg.const(k)
            raise I_.raise_exc("ValueError", node, "%r is not in list" % (args[0],))
        if name == "count" and plain and args:
            return alg.const(sum(1 for x in b.items if I_.key_equal(x, args[0])))
        if name == "insert" and b.kind == "list" and plain and len(args) == 2:
            k = const_int(args[0]) if isinstance(args[0], Expr) else None
            if k is not None:
                b.items.insert(k, args[1])  # in place: every alias of the list sees it
                return None
        if name == "extend" and b.kind == "list" and plain and args and isinstance(args[0], Tup) and args[0].kind != "dict" and not any(isinstance(x, I_.GenList) for x in args[0].items):
            b.items.extend(args[0].items)
            return None
        if name == "remove" and b.kind == "list" and plain and args:
            for k, x in enumerate(b.items):
                if I_.key_equal(x, args[0]):
                    del b.items[k]
                    return None
            raise I_.raise_exc("ValueError", node, "list.remove(x): x not in list")
        if name == "copy" and b.kind in ("list", "dict"):
            return Tup(list(b.items), b.kind)
        if name == "reverse" and b.kind == "list" and plain:
            b.items.reverse()
            return None
        if name == "sort" and b.kind == "list" and len(b.items) == 1 and isinstance(b.items[0], GenList) and not args and kwargs.get("reverse") in (None, False):
            srt = _sort_generated(I, b.items[0], kwargs.get("key"), node)
            if srt is not None:
                b.items[0] = srt
                return None
        if name in ("insert", "extend", "remove", "sort", "reverse", "__setitem__", "__delitem__") and b.kind in ("list", "dict"):
            # a mutation that is not followed: what the container holds afterwards is not known
            b.items.append(Unknown("contents after %s() with arguments that are not modelled" % name) if b.kind == "list" else (Unknown("key"), Unknown("value")))
            return None
        return Unknown("tuple method %s" % name)
    if isinstance(b, SetV):
        if name == "pop":
            return b.items.pop() if b.items else Unknown("pop from an empty set")
        if name == "add":
            b.items = I.make_set(b.items + [args[0]]).items
            return None
        return Unknown("set method %s" % name)
    if isinstance(b, str):
        return "<str>"
    if isinstance(b, Opaque):
        cls = b.attrs.get("__class__")
        if cls is not None:
            m, c = cls
            for n in c.body:
                if isinstance(n, ast.FunctionDef) and n.name == name:
                    fr = FuncRef("pkg", m.name + "." + c.name + "." + name, m, n)
                    static = any((dotted_name(d) or "") == "staticmethod" for d in n.decorator_list)
                    return I.call_package(fr, ([] if static else [b]) + list(args), kwargs, node)
        if name in ("info", "debug", "warning", "error", "critical", "exception", "setLevel"):
            return None
        if name in ("isEnabledFor",) and b.name in ("logger",) or (name == "isEnabledFor" and "logg" in b.name.lower()):
            # how verbose the logging system is configured is the user's choice: both answers are possible on every call
            return I.decide("the logging system is configured to emit this level (line %s)" % getattr(node, "lineno", "?"))
        I.event("opaque-call", node, (b.name, name, args, kwargs))
        return Unknown("%s.%s()" % (b.name, name))
    return Unknown("method %s" % name)


# --------------------------------------------------------------------------
# builtins


def consume(x):
    """an iterator yields its items once: after that it is empty"""
    if isinstance(x, Tup) and x.kind == "iterator":
        items = list(x.items)
        del x.items[:]
        return Tup(items, "list")
    return x



PERMUTATIONS = ("completion_order@",)  # integer functions of a position that are known to be permutations of the positions


def _sort_generated(I, g, keyf, node):
    """[e(p(j)) for j in range(n)].sort(key=f) for an unknown permutation p of the positions (results collected in completion order):
    a key that increases with the position the element was produced for restores the original order; a key that reads data at
    that position orders the list by the data - another order, named `sorted_by_key@line` - ; anything else is not followed"""
    try:
        kv = I.call(keyf, [g.elem], {}, node, {}) if keyf is not None else g.elem
    except AnalysisError:
        return None
    if not isinstance(kv, Expr):
        return None
    iv = alg.atom_expr(g.ivar)
    perms = [a for a in kv.atoms() if a.kind == "fn" and a.name.startswith(PERMUTATIONS) and len(a.args) == 1 and isinstance(a.args[0], Expr) and a.args[0].eq(iv)]
    if not perms:
        try:
            d = kv.diff(g.ivar)
        except Exception:
            return None
        c = d.as_const() if isinstance(d, Expr) else None
        return g if c is not None and c.im == 0 and c.re > 0 else None  # already ascending in its key
    if len(perms) != 1:
        return None
    p = perms[0]
    rest = (kv - kv.coeff_of(p, 1) * alg.atom_expr(p)).expand()
    c = kv.coeff_of(p, 1).as_const()
    if c is not None and c.im == 0 and c.re > 0 and p not in rest.atoms() and g.ivar not in rest.atoms():
        return GenList(I_.subst_value(g.elem, {p: iv}), g.ivar, g.rng)
    order = alg.fn("sorted_by_key@%d" % getattr(node, "lineno", 0), iv, integer=True)
    I.event("data-ordered", node, "a list collected in completion order is sorted by %r: its order is that of the key's values, not of the positions" % (kv,))
    return GenList(I_.subst_value(g.elem, {p: order}), g.ivar, g.rng)


def builtin(I, name, args, kwargs, node, env):
    if name in ("list", "tuple", "dict", "set", "sorted", "sum", "max", "min", "any", "all", "enumerate", "zip", "map", "reversed", "next", "iter") and any(isinstance(a, Tup) and a.kind == "iterator" for a in args):
        args = [consume(a) for a in args]
    if name in ("set", "frozenset") and args and isinstance(args[0], Opaque) and args[0].name == "list-of-array" and isinstance(args[0].attrs.get("of"), Arr):
        return Opaque("set-of-array", {"of": args[0].attrs["of"]})  # the distinct values of that array, in no particular order
    if name == "sorted" and args and isinstance(args[0], Opaque) and args[0].name == "set-of-array" and not kwargs:
        # the distinct values in ascending order: what np.unique returns
        src = args[0].attrs["of"]
        flat = src if src.ndim == 1 else method(I, I_.FuncRef("method", "ravel", bound=src), [], {}, node)
        U = np_unique(I, [flat], {}, node)
        if isinstance(U, Arr):
            return Opaque("list-of-array", {"of": U, "distinct_of": flat})
    if name in ("list", "tuple") and args and isinstance(args[0], Opaque) and args[0].name == "set-of-array":
        # a set iterates in hash order, which is ascending only for small non-negative integers that happen not to collide
        src = args[0].attrs["of"]
        tag = "hash_order(%s)@%s:%s" % (src.name or "?", I.cur_mod.name, node.lineno)
        n = alg.fn("nunique", src.val if isinstance(src.val, Expr) else alg.sym(tag), integer=True, pos=True)
        return Opaque("list-of-array", {"of": Arr((n,), alg.fn("elem", alg.sym(tag)), src.dtype, {"hash_order": True, "distinct_of": src})})
    if name == "enumerate" and args and isinstance(args[0], Opaque) and args[0].name == "list-of-array" and len(args) == 1 and not kwargs:
        return Opaque("enumerate-of-array", {"of": args[0].attrs["of"], "distinct_of": args[0].attrs.get("distinct_of")})
    if name == "len":
        x = args[0]
        if isinstance(x, Tup):
            if any(isinstance(i, GenList) for i in x.items):
                tot = ZERO
                for i in x.items:
                    tot = tot + (i.rng.count * _gsize(i) if isinstance(i, GenList) else ONE)
                return tot
            return alg.const(len(x.items))
        if isinstance(x, Arr):
            return x.shape[0] if x.shape else Unknown("len of 0-d")
        if isinstance(x, str):
            return alg.const(len(x)) if not x.startswith("<") else Unknown("len of str")
        if isinstance(x, Opaque) and "of" in x.attrs and isinstance(x.attrs["of"], Arr):
            return x.attrs["of"].shape[0]
        if isinstance(x, PyList):
            return x.length
        if isinstance(x, SetV):
            return alg.const(len(x.items))
        return Unknown("len of %r" % (x,))
    if name == "int":
        x = args[0]
        if isinstance(x, Expr):
            c = x.as_const()
            if c is not None and c.im == 0:
                return alg.const(int(c.re))
            if _scalar_dtype(x) == "int" or any(x.eq(k) for k in getattr(I, "known_integers", ())):
                return x
            pos = I_.manifest_sign(x) <= {"+", "0"}
            r = alg.fn("int", x, integer=True, pos=False) if not pos else _nonneg_int(x)
            if getattr(node, "args", None) and env is not None:
                try:
                    I.event("rounding", node, (r, I.fterm(node.args[0], env)))  # which floating point expression is rounded here
                except Exception:
                    pass
            return r
        return Unknown("int of %r" % (x,))
    if name in ("float", "complex"):
        return args[0] if isinstance(args[0], (Expr, Unknown)) else Unknown("float()")
    if name == "bool":
        return I.truth(args[0]) if not isinstance(args[0], (Pred, BoolCombo)) else args[0]
    if name in ("max", "min"):
        xs = args[0].items if len(args) == 1 and isinstance(args[0], Tup) else args
        if len(args) == 1 and isinstance(args[0], Arr):
            return alg.fn(name, args[0].val) if isinstance(args[0].val, Expr) else Unknown(name)
        if not xs:
            if "default" in kwargs:
                return kwargs["default"]
            raise I_.raise_exc("ValueError", node, "%s() of an empty sequence" % name)
        if any(isinstance(x, GenList) for x in xs):
            return Unknown("%s of a generated list" % name)
        if all(isinstance(x, Expr) for x in xs):
            cs = [x.as_const() for x in xs]
            if all(c is not None for c in cs):
                f = max if name == "max" else min
                return alg.const(f(c.re for c in cs))
            # decide through sign facts when possible (needed for min(k, n-1) etc.)
            if len(xs) == 2:
                d = xs[0] - xs[1]
                poss = I.facts.possible(d)
                # a positive integer is at least one
                if not (poss <= {"+", "0"} or poss <= {"-", "0"}):
                    if _scalar_dtype(d) == "int" and I_.manifest_sign(d + ONE) <= {"+"}:
                        poss = {"+", "0"}
                    elif _scalar_dtype(d) == "int" and I_.manifest_sign(ONE - d) <= {"+"}:
                        poss = {"-", "0"}
                if poss <= {"+", "0"}:
                    return xs[0] if name == "max" else xs[1]
                if poss <= {"-", "0"}:
                    return xs[1] if name == "max" else xs[0]
            return (alg.fmax if name == "max" else alg.fmin)(*xs)
        return Unknown(name)
    if name == "abs":
        return map_unary(I, _abs, args[0], node)
    if name == "range":
        xs = list(args)
        if not all(isinstance(x, Expr) for x in xs):
            return Unknown("range of non-scalars")
        if len(xs) == 1:
            return RangeV(ZERO, xs[0], ONE)
        if len(xs) == 2:
            return RangeV(xs[0], xs[1], ONE)
        return RangeV(xs[0], xs[1], xs[2])
    if name in ("tuple", "list"):
        if not args:
            return Tup([], name)
        x = args[0]
        if isinstance(x, Tup):
            return Tup(list(x.items), name)
        if isinstance(x, GenList):
            return Tup([x], name)
        if isinstance(x, RangeV):
            n = const_int(x.count)
            if n is not None and n <= 64:
                return Tup([x.start + alg.const(k) * x.step for k in range(n)], name)
            return Arr((x.count,), x.start + alg.fn("idx", x.count, integer=True) * x.step, "int", {"range": x, "sorted_unique": True})
        if isinstance(x, Arr):
            return x
        return Unknown("%s(%r)" % (name, x))
    if name in ("str", "repr"):
        return "<str>"
    if name == "isinstance":
        x, t = args
        tn = t.dotted if isinstance(t, FuncRef) else None
        if tn == "list":
            return isinstance(x, PyList) or (isinstance(x, Tup) and x.kind == "list")
        if tn == "tuple":
            return isinstance(x, Tup) and x.kind == "tuple"
        if tn == "str":
            return isinstance(x, str)
        if tn in ("float", "int"):
            return isinstance(x, Expr)
        if tn == "dict":
            if isinstance(x, Tup):
                return x.kind == "dict"
            if isinstance(x, Opaque) and "is_dict" in x.attrs:
                return bool(x.attrs["is_dict"])
            if isinstance(x, (Expr, str, Arr)) or x is None:
                return False
        return Unknown("isinstance")
    if name == "sum":
        x = args[0]
        if isinstance(x, Tup) and all(isinstance(i, Expr) for i in x.items):
            t = ZERO
            for i in x.items:
                t = t + i
            return t
        return Unknown("sum")
    if name in ("ValueError", "RuntimeError", "FileNotFoundError", "TypeError", "Exception", "KeyError", "IndexError", "ImportError"):
        return Opaque(name)
    if name == "print":
        return None
    if name == "enumerate":
        x = args[0]
        start = kwargs.get("start", args[1] if len(args) > 1 else ZERO)
        if not isinstance(start, Expr):
            return Unknown("enumerate from %r" % (start,))
        if isinstance(x, Tup) and x.kind != "dict" and len(x.items) == 1 and isinstance(x.items[0], GenList):
            g = x.items[0]
            return Tup([GenList(Tup([start + alg.atom_expr(g.ivar), g.elem]), g.ivar, g.rng)], "list")  # position = the generic index of the element
        if isinstance(x, Tup) and x.kind != "dict" and not any(isinstance(i, GenList) for i in x.items):
            return Tup([Tup([start + alg.const(k), v]) for k, v in enumerate(x.items)], "list")
        return Unknown("enumerate")
    if name == "filter" and len(args) == 2 and isinstance(args[1], Tup) and args[1].kind != "dict" and not any(isinstance(i, GenList) for i in args[1].items):
        f, seq = args
        out = []
        for it in seq.items:
            t = I.truth(it) if f is None else I.truth(I.call(f, [it], {}, node, env))  # filter(None, xs) keeps the truthy items
            if t:
                out.append(it)
        return Tup(out, "list")
    if name == "map":
        f, seqs = args[0], args[1:]
        if seqs and all(isinstance(x, Tup) and x.kind != "dict" and not any(isinstance(i, GenList) for i in x.items) for x in seqs):
            return Tup([I.call(f, list(t), {}, node, env) for t in zip(*[x.items for x in seqs])], "list")
        if len(seqs) == 1 and isinstance(seqs[0], Tup) and len(seqs[0].items) == 1 and isinstance(seqs[0].items[0], GenList):
            g = seqs[0].items[0]
            return Tup([GenList(I.call(f, [g.elem], {}, node, env), g.ivar, g.rng)], "list")
        return Unknown("builtin map")
    if name == "zip" and len(args) >= 2 and all(isinstance(x, Tup) and x.kind != "dict" and len(x.items) == 1 and isinstance(x.items[0], GenList) for x in args):
        # generated lists zipped position by position: one generated list of tuples, as long as the shortest
        gs = [x.items[0] for x in args]
        short = gs[0]
        for g in gs[1:]:
            d = I.facts.possible((g.rng.count - short.rng.count).expand())
            if d <= {"-"}:
                short = g
            elif not d <= {"0", "+"}:
                return Unknown("zip of generated lists whose lengths cannot be compared")
        elems = [I_.subst_value(g.elem, {g.ivar: alg.atom_expr(short.ivar)}) if g.ivar is not short.ivar else g.elem for g in gs]
        return Tup([GenList(Tup(elems), short.ivar, short.rng)], "list")
    if name == "zip" and any(isinstance(x, Opaque) and "unpack" in x.attrs for x in args):
        args = [Tup(list(x.attrs["unpack"]), "list") if isinstance(x, Opaque) and "unpack" in x.attrs else x for x in args]
    if name == "zip":
        if all(isinstance(x, Tup) and not any(isinstance(i, GenList) for i in x.items) for x in args):
            return Tup([Tup(list(t)) for t in zip(*[x.items for x in args])], "list")
        return Unknown("zip")
    if name == "getattr":
        return I.getattr(args[0], args[1], node) if isinstance(args[1], str) else Unknown("getattr")
    if name == "round":
        return alg.fn("round", args[0]) if isinstance(args[0], Expr) else Unknown("round")
    if name == "set":
        if not args:
            return SetV([])
        if isinstance(args[0], Tup) and args[0].kind != "dict":
            return I.make_set(args[0].items)
        if isinstance(args[0], SetV):
            return SetV(args[0].items)
        return Unknown("set(%r)" % (args[0],))
    if name in ("any", "all"):
        x = args[0]
        if isinstance(x, Tup) and x.kind != "dict" and not any(isinstance(i, GenList) for i in x.items):
            preds = []
            for i in x.items:
                if isinstance(i, Expr):
                    i = I.cmp_expr(i, "!=")
                elif i is None:
                    i = False
                elif isinstance(i, (str, Tup)):
                    i = bool(i if isinstance(i, str) else i.items)
                if not isinstance(i, (bool, Pred, BoolCombo)):
                    return Unknown("%s() over %r" % (name, i))
                preds.append(i)
            if all(isinstance(p, bool) for p in preds):
                return any(preds) if name == "any" else all(preds)
            short = [p for p in preds if not isinstance(p, bool)]
            if name == "any" and any(p is True for p in preds):
                return True
            if name == "all" and any(p is False for p in preds):
                return False
            return BoolCombo("or" if name == "any" else "and", short)
        return Unknown("%s(%r)" % (name, x))
    if name == "sorted":
        x = args[0]
        if isinstance(x, Tup) and x.kind == "dict":
            x = Tup([k for k, _ in x.items], "list")
        if isinstance(x, SetV):
            x = Tup(list(x.items), "list")
        if "key" in kwargs or not isinstance(x, Tup) or any(isinstance(i, GenList) for i in x.items):
            return Unknown("sorted(%r)" % (x,))
        items = list(x.items)
        rev = kwargs.get("reverse") is True
        if all(isinstance(i, str) and type(i) is str for i in items):
            return Tup(sorted(items, reverse=rev), "list")
        if all(isinstance(i, Expr) and i.as_const() is not None and i.as_const().im == 0 for i in items):
            return Tup(sorted(items, key=lambda e: e.as_const().re, reverse=rev), "list")
        if all(isinstance(i, Expr) for i in items) and len(items) <= 4:
            # the order of symbolic values is decided comparison by comparison (one explored path per ordering)
            out = []
            for it in items:
                pos = len(out)
                for k, o in enumerate(out):
                    lt = I.cmp_expr(it - o, "<")
                    if I.truth(lt) if not isinstance(lt, bool) else lt:
                        pos = k
                        break
                out.insert(pos, it)
            return Tup(out[::-1] if rev else out, "list")
        return Unknown("sorted(%r)" % (x,))
    if name == "slice":
        xs = list(args) + [None] * (3 - len(args))
        if len(args) == 1:
            xs = [None, args[0], None]
        return SliceV(xs[0], xs[1], xs[2])
    if name == "iter":
        x = args[0]
        if isinstance(x, Tup):
            return Tup([k for k, _ in x.items], "list") if x.kind == "dict" else x
        return Unknown("iter(%r)" % (x,))
    if name == "next":
        x = args[0]
        if isinstance(x, Tup) and x.kind != "dict" and not any(isinstance(i, I_.GenList) for i in x.items[:1]):
            if x.items:
                return x.items[0]
            if len(args) > 1:
                return args[1]
            raise I_.AbstractRaise("StopIteration") if hasattr(I_, "AbstractRaise") else AnalysisError("next() of an empty iterator")
        return Unknown("next(%r)" % (x,))
    if name == "dict":
        out = Tup([], "dict")
        if args:
            src = args[0]
            if isinstance(src, Tup) and src.kind == "dict":
                out.items.extend(src.items)
            elif isinstance(src, Tup) and all(isinstance(p, Tup) and len(p.items) == 2 for p in src.items):
                for p in src.items:
                    k, v = p.items
                    for i, (k0, _) in enumerate(out.items):
                        if I_.key_equal(k0, k):
                            out.items[i] = (k, v)
                            break
                    else:
                        out.items.append((k, v))
            else:
                return Unknown("dict(%r)" % (src,))
        for k, v in kwargs.items():
            out.items.append((k, v))
        return out
    return Unknown("builtin %s" % name)


def _gsize(g):
    return len(g.elem.items) if isinstance(g.elem, Tup) and g.elem.kind == "group" else 1


def _nonneg_int(x):
    a = alg._atom("fn", "int", (x,), pos=False, integer=True)
    return alg.atom_expr(a)


def _abs(x):
    s = I_.manifest_sign(x)
    if s <= {"+", "0"}:
        return x
    if s <= {"-", "0"}:
        return -x
    if alg._lead_negative(x):
        x = -x
    return alg.fn("abs", x)


# --------------------------------------------------------------------------
# external library functions


def _kw(args, kwargs, pos, name, default=None):
    if len(args) > pos:
        return args[pos]
    return kwargs.get(name, default)


def _shape_arg(x):
    if isinstance(x, Tup) and all(isinstance(i, Expr) for i in x.items):
        return tuple(x.items)
    if isinstance(x, Expr):
        return (x,)
    return None


def _dtype_arg(x):
    if x is None:
        return None
    if isinstance(x, str):
        return x
    if isinstance(x, FuncRef):
        return {"complex": "complex128", "float": "float", "int": "int", "bool": "bool"}.get(x.dotted.split(".")[-1], x.dotted.split(".")[-1])
    return None


MISSING = Opaque("dataclasses.MISSING")


def dc_fields(I, args, kwargs, node):
    """dataclasses.fields(cls): the schema read from the class body (name, default or MISSING)"""
    c = args[0] if args else None
    if isinstance(c, Opaque) and "__class__" in c.attrs:
        mod, cls = c.attrs["__class__"]
    elif isinstance(c, I_.FuncRef) and c.kind == "class":
        mod, cls = c.module, c.node
    else:
        return Unknown("dataclasses.fields(%r)" % (c,))
    out = []
    for n in cls.body:
        if isinstance(n, ast.AnnAssign) and isinstance(n.target, ast.Name):
            d, fac = MISSING, MISSING
            if n.value is not None:
                if isinstance(n.value, ast.Call) and (dotted_name(n.value.func) or "").split(".")[-1] == "field":
                    for kw in n.value.keywords:
                        if kw.arg == "default":
                            d = I.eval_in_module(mod, kw.value)
                        if kw.arg == "default_factory":
                            fac = I.eval_in_module(mod, kw.value)
                else:
                    d = I.eval_in_module(mod, n.value)
            out.append(Opaque("dataclasses.Field", {"name": n.target.id, "default": d, "default_factory": fac}))
    return Tup(out, "tuple")


def external(I, dotted, args, kwargs, node):
    if dotted == "dataclasses.fields":
        return dc_fields(I, args, kwargs, node)
    if dotted in ("copy.copy", "copy.deepcopy") and len(args) == 1:
        x = args[0]
        if isinstance(x, Opaque) and "__class__" in x.attrs:
            new = Opaque(x.name, dict(x.attrs))  # another object with the same fields (a deep copy's nested objects are not followed)
            new.attrs["__replaced_from__"] = x
            return new
        if isinstance(x, Tup):
            return Tup(list(x.items), x.kind)
        if isinstance(x, Arr):
            return x.copy()
        if isinstance(x, (Expr, str, bool)) or x is None:
            return x
        return Unknown("copy of %r" % (x,))
    if dotted == "dataclasses.replace" and args and isinstance(args[0], Opaque) and len(args) == 1:
        # a copy of the dataclass instance with some fields given anew (the constructor's own checks are not re-run here)
        src = args[0]
        new = Opaque(src.name, dict(src.attrs))
        for k, v in kwargs.items():
            if k not in src.attrs:
                raise I_.raise_exc("TypeError", node, "replace() got an unexpected field %s" % k)
            new.attrs[k] = v
        new.attrs["__replaced_from__"] = src
        return new
    h = EXT.get(dotted)
    if h is None:
        short = dotted.split(".")[-1]
        if dotted.startswith("logging") or short in ("getLogger", "warn"):
            return Opaque("logger") if short == "getLogger" else None
        I.event("unknown-call", node, dotted)
        return Unknown("call of %s" % dotted)
    return h(I, args, kwargs, node)


def np_asarray(I, args, kwargs, node):
    r = np_array(I, args, kwargs, node)
    x = args[0]
    derived = getattr(I, "param_objs", {}).get(id(x)) is x or isinstance(x, SymArr) or (isinstance(x, Arr) and (x.meta.get("param") or x.meta.get("alias_of_param"))) or (
        isinstance(x, Tup) and any(isinstance(i, Expr) and any(a.kind == "sym" and a.meta == "param" for a in i.atoms()) for i in x.items))
    if isinstance(r, SymArr):
        return r  # the caller's own array (stores into it are reported as such)
    if isinstance(r, Arr) and derived:
        if r is x:
            r = r.copy()
        r.meta = dict(r.meta)
        r.meta["alias_of_param"] = True  # np.asarray hands back the caller's own array when it already has the requested dtype
    return r


def np_ascontiguous(I, args, kwargs, node):
    r = np_asarray(I, args, kwargs, node)
    if isinstance(r, Arr):
        if r is args[0]:
            r = r.copy()
        r.meta = dict(r.meta)
        r.meta["contiguous"] = True
    return r


def np_array(I, args, kwargs, node):
    x = args[0]
    dt = _dtype_arg(kwargs.get("dtype"))
    if isinstance(x, Opaque) and x.name == "list-of-array" and isinstance(x.attrs.get("of"), Arr):
        r = x.attrs["of"]
        if dt and not str(dt).startswith("inherit"):
            r = r.copy(dtype=dt)
            r.meta = dict(x.attrs["of"].meta)
        return r
    if isinstance(x, Tup) and len(x.items) == 1 and isinstance(x.items[0], GenList) and isinstance(x.items[0].elem, Expr):
        g = x.items[0]
        inv = getattr(g, "inverse_of", None)
        if inv is not None:
            U, src = inv
            return Arr((g.rng.count,), g.elem, dt or "int", {"inverse_of": (U, src)})
    if isinstance(x, Arr):
        r = x.copy() if not isinstance(x, SymArr) else x
        if dt:
            r = r.copy(dtype=dt)
        return r
    if isinstance(x, Expr):
        return Arr((), x, dt or _scalar_dtype(x), {})
    if isinstance(x, Tup) and dt in ("float", "float64") and x.items and all(isinstance(i, Expr) or i is None for i in x.items) and any(i is None for i in x.items):
        x = Tup([alg.sym("nan") if i is None else i for i in x.items], x.kind)  # None converts to NaN in a float array
    if isinstance(x, Tup):
        if all(isinstance(i, Expr) for i in x.items):
            n = len(x.items)
            pd = [a.name for i in x.items for a in i.top_atoms() if a.kind == "sym" and a.meta == "param"] if all(len(i.n) == 1 for i in x.items) else []
            if pd and dt is None and all(i.as_mono() is not None and i.as_mono()[0] in (alg.C1, -alg.C1) and len(i.as_mono()[1]) == 1 for i in x.items):
                dt = "inherit:%s" % pd[0]
            if n == 1:
                return Arr((ONE,), x.items[0], dt or _scalar_dtype(x.items[0]), {"ident": "array@%s" % node.lineno, "elements": list(x.items), "sorted_unique": True})
            same = all(i.eq(x.items[0]) for i in x.items)
            return Arr((alg.const(n),), x.items[0] if same else alg.fn("elem", alg.sym("array@%s:%s" % (I.cur_mod.name, node.lineno))), dt or "float", {"elements": list(x.items)})
        if all(isinstance(i, Arr) for i in x.items) and x.items:
            return Arr((alg.const(len(x.items)),) + tuple(x.items[0].shape or ()), Unknown("stacked"), dt, {})
        return Arr((alg.const(len(x.items)),), Unknown("array of mixed items"), dt, {})
    if isinstance(x, Opaque):
        return Arr(None, Unknown("array of opaque"), dt, {})
    return Unknown("np.array(%r)" % (x,))


def np_full_like(kind):
    def h(I, args, kwargs, node):
        x = args[0]
        dt = _dtype_arg(_kw(args, kwargs, 1, "dtype"))
        val = {"ones": ONE, "zeros": ZERO, "empty": alg.sym("uninitialised")}[kind]
        if isinstance(x, Arr):
            if dt is None:
                if (x.dtype or "").startswith("inherit"):
                    dt = x.dtype
                elif isinstance(x, SymArr) or x.meta.get("param_derived"):
                    dt = "inherit:%s" % (x.meta.get("param") or x.meta.get("param_derived") or x.name)
                else:
                    dt = x.dtype
            # *_like keeps the memory layout of its model: C order for a fresh array, the caller's layout for a caller's array
            lay = x.meta.get("layout_of") or (x.name if isinstance(x, SymArr) or x.meta.get("param") else None)
            m = {"layout_of": lay} if lay else {"c_order": True} if x.meta.get("c_order") else {}
            shp = x.shape
            if kwargs.get("shape") is not None:
                shp2 = _shape_arg(kwargs["shape"])
                shp = shp2 if shp2 is not None else None
            return Arr(shp, val, dt, m)
        if isinstance(x, Expr):
            if dt is None:
                atoms = [a for a in x.atoms() if a.kind == "sym" and a.meta == "param"]
                dt = "inherit:%s" % atoms[0].name if atoms else _scalar_dtype(x)
            return Arr((), val, dt, {})
        return Unknown("%s_like" % kind)

    return h


def np_fill_like(I, args, kwargs, node):
    """np.full_like(x, value): an array shaped (and, unless a dtype is given, typed) like x, every entry the value"""
    base = np_full_like("zeros")(I, [args[0]] + list(args[2:]), kwargs, node)
    v = args[1] if len(args) > 1 else kwargs.get("fill_value")
    if isinstance(base, Arr) and isinstance(v, Expr):
        r = base.copy(val=v)
        r.meta = dict(base.meta)
        return r
    return Unknown("np.full_like")


def np_full(kind):
    def h(I, args, kwargs, node):
        shp = _shape_arg(args[0])
        dt = _dtype_arg(_kw(args, kwargs, 1, "dtype")) or "float"
        if kind == "full":
            val = args[1]
            dt = _dtype_arg(kwargs.get("dtype")) or "float"
        else:
            val = {"ones": ONE, "zeros": ZERO, "empty": alg.sym("uninitialised")}[kind]
        if shp is None:
            return Arr(None, val, dt, {})
        meta = {"c_order": True} if kwargs.get("order") in (None, "C") else {}  # a freshly allocated array is C-contiguous
        if dt == "bool":
            meta["ident"] = "mask@%s:%s" % (I.cur_mod.name, node.lineno)
            val = True if kind == "ones" else False
        return Arr(shp, val, dt, meta)

    return h


def np_copy(I, args, kwargs, node):
    x = args[0]
    return x.copy() if isinstance(x, Arr) else x


def np_diff(I, args, kwargs, node):
    x = args[0]
    if isinstance(x, Arr) and x.ndim == 1:
        n1 = x.shape[0] - ONE
        # differences keep the dtype of their operand (an integer grid gives integer spacings)
        dt = x.dtype
        if isinstance(x, SymArr) and (dt is None or not str(dt).startswith("inherit")) and dt in (None, "float"):
            dt = "inherit:%s" % x.name if x.dtype is None else x.dtype
        if isinstance(x, SymArr):
            gen = lambda k, x=x: x.at(k + ONE) - x.at(k)
            m = {"diff_of": x, "gen": gen, "param_derived": x.name}
            if x.dtype in ("int", "int64", "uint", "integer"):
                m["int_diff_of_param"] = x.name  # for unsigned integer input the differences wrap around instead of going negative
            return Arr((n1,), gen(alg.fn("idx", n1, integer=True)), dt or "float", m)
        g = x.meta.get("gen")
        if g is not None:
            gen = lambda k, g=g: g(k + ONE) - g(k)
            return Arr((n1,), gen(alg.fn("idx", n1, integer=True)), dt or "float", {"gen": gen})
        return Arr((n1,), Unknown("generic element of diff"), dt or "float", {"diff_of": x})
    return Unknown("np.diff")


def np_size(I, args, kwargs, node):
    x = args[0] if args else None
    if isinstance(x, Arr) and x.shape is not None and len(args) == 1:
        t = ONE
        for d in x.shape:
            t = t * d
        return t
    if isinstance(x, (Expr, bool)) or isinstance(x, str):
        return ONE
    if isinstance(x, I_.PyList):
        return x.length
    if isinstance(x, Tup) and x.kind in ("list", "tuple") and not any(isinstance(i, (Tup, I_.PyList, Arr, GenList)) for i in x.items):
        return alg.const(len(x.items))
    return Unknown("np.size of %r" % (x,))


def np_ndim(I, args, kwargs, node):
    x = args[0]
    if isinstance(x, Arr):
        return alg.const(x.ndim) if x.shape is not None else Unknown("ndim")
    if isinstance(x, Expr):
        return ZERO
    if isinstance(x, Tup):
        return ONE
    return Unknown("ndim")


def np_shape(I, args, kwargs, node):
    x = args[0]
    if isinstance(x, Arr):
        return Tup(list(x.shape)) if x.shape is not None else Unknown("shape")
    if isinstance(x, Expr):
        return Tup([])
    return Unknown("np.shape")


def np_pad(I, args, kwargs, node):
    x = args[0]
    pw = _kw(args, kwargs, 1, "pad_width")
    mode = kwargs.get("mode", args[2] if len(args) > 2 else "constant")
    cv = kwargs.get("constant_values", ZERO)
    if not isinstance(x, Arr) or not isinstance(pw, Tup):
        return Unknown("np.pad")
    pairs = []
    for p in pw.items:
        if isinstance(p, Tup) and len(p.items) == 2 and all(isinstance(i, Expr) for i in p.items):
            pairs.append((p.items[0], p.items[1]))
        else:
            return Unknown("np.pad widths")
    if len(pairs) != x.ndim:
        I.event("shape", node, "pad_width has %d pairs for an array of %d dimensions" % (len(pairs), x.ndim))
        return Unknown("np.pad rank")
    shape = tuple(d + b + a for d, (b, a) in zip(x.shape, pairs))
    meta = {k: v for k, v in x.meta.items() if k in ("spec", "field", "lvl0", "param", "role", "kept")}
    zero_pad = mode == "constant" and isinstance(cv, Expr) and cv.is_zero()
    spec = x.meta.get("spec")
    gax = grid_axes(x)
    if spec is not None or (x.ndim >= 2 and "param" not in x.meta and "padded" not in x.meta and x.meta.get("spectral_hint")):
        pass
    if spec is not None:
        if spec.layout != "cen":
            I.event("typestate", node, "zero-padding of a spectrum in natural (unshifted) layout")
        cut = list(spec.cut) if spec.cut is not None else None
        for k, ax in enumerate(gax):
            b, a = pairs[ax]
            if not b.eq(a):
                I.event("typestate", node, "asymmetric spectral padding (%r, %r)" % (b, a))
            if cut is not None:
                cut[k] = cut[k] - b
        for ax in range(x.ndim):
            if ax not in gax and not (pairs[ax][0].is_zero() and pairs[ax][1].is_zero()):
                I.event("typestate", node, "padding along a non-spectral axis")
        if not zero_pad:
            I.event("typestate", node, "spectral padding with a non-zero constant")
        meta["spec"] = spec.with_(cut=tuple(cut) if cut is not None else None)
        meta["kept"] = tuple(x.shape[ax] for ax in gax)
        meta["respec_pad"] = tuple(pairs[ax] for ax in gax)
        return Arr(shape, x.val, x.dtype, meta)
    # spatial padding of a field
    meta["padded"] = {"widths": tuple(pairs), "zero": zero_pad, "mode": mode, "value": cv, "of": x}
    if not zero_pad:
        I.event("pad-nonzero", node, "source padded with mode=%r value=%r" % (mode, cv))
    return Arr(shape, x.val, x.dtype, meta)


def np_meshgrid(I, args, kwargs, node):
    ind = kwargs.get("indexing", "xy")
    xs = list(args)
    if not all(isinstance(x, Arr) and x.ndim == 1 for x in xs):
        return Unknown("np.meshgrid")
    lens = [x.shape[0] for x in xs]
    if ind == "xy" and len(xs) >= 2:
        shape = (lens[1], lens[0]) + tuple(lens[2:])
        axes = [1, 0] + list(range(2, len(xs)))
    else:
        shape = tuple(lens)
        axes = list(range(len(xs)))
    out = []
    for x, ax in zip(xs, axes):
        m = {"varies_along": ax}
        if "spec" in x.meta:
            m["spec"] = x.meta["spec"]
        if x.meta.get("spec1d") or x.meta.get("modegrid"):
            m["modegrid"] = True  # wave numbers: one value per Fourier mode
        out.append(Arr(shape, x.val, x.dtype, m))
    return Tup(out, "list")


def np_linspace(I, args, kwargs, node):
    a, b = args[0], args[1]
    n = _kw(args, kwargs, 2, "num", alg.const(50))
    ep = _kw(args, kwargs, 3, "endpoint", True)
    if not all(isinstance(x, Expr) for x in (a, b, n)):
        return Unknown("np.linspace")
    idx = alg.fn("idx", n, integer=True)
    den = (n - ONE) if ep else n
    step = (b - a) / den
    return Arr((n,), a + idx * step, "float", {"gen": (lambda k, a=a, step=step: a + k * step), "linspace": (a, b, n, ep)})


def np_arange(I, args, kwargs, node):
    xs = [x for x in args]
    if not all(isinstance(x, Expr) for x in xs):
        return Unknown("np.arange")
    if len(xs) == 1:
        a, b, s = ZERO, xs[0], ONE
    elif len(xs) == 2:
        a, b, s = xs[0], xs[1], ONE
    else:
        a, b, s = xs
    n = alg.fn("ceil", (b - a) / s, integer=True, pos=True)
    if s.eq(ONE):
        n = (b - a).expand()
    idx = alg.fn("idx", n, integer=True)
    meta = {"gen": (lambda k, a=a, s=s: a + k * s), "arange": (a, b, s)}
    if s.eq(ONE):
        meta["ivec"] = IV.arange(n, a)
    return Arr((n,), a + idx * s, "float", meta)


def unary(f, dtype=None):
    def h(I, args, kwargs, node):
        return map_unary(I, f, args[0], node, dtype)

    return h


def np_power(I, args, kwargs, node):
    x, p = args[0], args[1]
    if isinstance(p, Expr):
        r = map_unary(I, lambda v: alg.power(v, p), x, node)
        return r
    return Unknown("np.power")


def np_classify(kind):
    """np.isnan / isinf / isfinite: an elementwise predicate nothing is known about (both outcomes are possible for a free input)"""
    def h(I, args, kwargs, node):
        x = args[0] if args else None
        if isinstance(x, Arr) and isinstance(x.val, Expr):
            return Arr(x.shape, I_.Pred(alg.fn(kind, x.val), "!="), "bool")
        if isinstance(x, Expr):
            if x.as_const() is not None:
                return kind == "isfinite"
            return I_.Pred(alg.fn(kind, x), "!=")
        return Unknown("np.%s" % kind)
    return h


ELEMENTWISE_FNS = ("elem", "cumsum", "gather", "scatter", "idx", "fftidx", "permidx", "pick", "dft", "dft0", "idft", "idft0")


def _scalar_atom(a, depth=0):
    """is this atom one number for the whole array (not a function of the position)?"""
    if a.kind == "sym":
        return not str(a.name).startswith(("?", "array@"))
    if a.kind in ("fn", "base", "def") and depth < 8:
        if a.kind == "fn" and a.name in ELEMENTWISE_FNS:
            return False
        return all(_scalar_atom(b, depth + 1) for x in a.args if isinstance(x, Expr) for b in x.atoms())
    return False


def _last_of(val):
    """the last entry of an array known through its generic entry; a factor that is one number for the whole array is the same
    factor of the last entry (and the product is the same floating point operation either way)"""
    cm = val.as_mono()
    if cm is None:
        return alg.fn("last", val)
    c0, facs = cm
    out = alg.const(c0.re) if c0.im == 0 else alg.const(c0.re) + alg.IMAG * alg.const(c0.im)
    inner = ONE
    for a, p in facs:
        if _scalar_atom(a):
            out = out * alg.power(alg.atom_expr(a), p)
        else:
            inner = inner * alg.power(alg.atom_expr(a), p)
    if inner.eq(ONE):
        return out
    return out * alg.fn("last", inner)


def np_ndim(I, args, kwargs, node):
    x = args[0] if args else None
    if isinstance(x, Arr):
        return alg.const(x.ndim)
    if isinstance(x, (Expr, bool)) or (isinstance(x, str) and True):
        return ZERO
    if isinstance(x, I_.PyList) or (isinstance(x, Tup) and x.kind in ("list", "tuple") and not any(isinstance(i, (Tup, I_.PyList, Arr)) for i in x.items)):
        return ONE
    return Unknown("np.ndim of %r" % (x,))


def np_broadcast_shapes(I, args, kwargs, node):
    """np.broadcast_shapes of one-dimensional shapes: a dimension of 1 stretches to any other, two other dimensions must agree"""
    dims = []
    for a in args:
        if not (isinstance(a, Tup) and len(a.items) == 1 and isinstance(a.items[0], Expr)):
            return Unknown("np.broadcast_shapes of %r" % (a,))
        dims.append(a.items[0])
    cur = ONE
    for d in dims:
        if I.truth(I.cmp_expr(cur - ONE, "==")):
            cur = d
        elif I.truth(I.cmp_expr(d - ONE, "==")) or I.truth(I.cmp_expr(d - cur, "==")):
            pass
        else:
            raise I_.raise_exc("ValueError", node, "shape mismatch: objects cannot be broadcast to a single shape")
    return Tup([cur])


def np_isclose(whole):
    """np.isclose / np.allclose(a, b, rtol=1e-5, atol=1e-8): |a - b| <= atol + rtol * |b| - a threshold test, not a test against zero"""
    def h(I, args, kwargs, node):
        if len(args) < 2:
            return Unknown("np.isclose")
        a, b = args[0], args[1]
        rtol = _kw(args, kwargs, 2, "rtol", alg.const(Q(1, 100000)))
        atol = _kw(args, kwargs, 3, "atol", alg.const(Q(1, 100000000)))
        va, vb = val_of(a), val_of(b)
        if not (isinstance(va, Expr) and isinstance(vb, Expr) and isinstance(rtol, Expr) and isinstance(atol, Expr)):
            return Unknown("np.isclose of %r and %r" % (a, b))
        shape = ()
        for x in (a, b):
            if isinstance(x, Arr):
                shape = broadcast(I, shape, x.shape, node)
        e = _abs(va - vb) - atol - rtol * _abs(vb)
        p = I.cmp_expr(e, "<=")
        if shape:
            arr = Arr(shape, p, "bool")
            if whole:
                q = _quantified(I, "all", arr)
                return q if q is not None else Unknown("np.allclose")
            return arr
        return p
    return h


def _quantified(I, name, x):
    """any / all of a boolean array known through its generic element"""
    v = x.val
    if isinstance(v, bool):
        return v
    if isinstance(v, I_.Pred):
        return I_.Pred(alg.fn("%s:%s0" % (name, v.op), v.e), "!=")
    if isinstance(v, Expr):
        if v.is_zero():
            return False
        return I_.Pred(alg.fn("%s:!=0" % name, v), "!=")  # truth of a number is `!= 0`
    return None


def np_anyall(name):
    def h(I, args, kwargs, node):
        x = args[0] if args else None
        if isinstance(x, Arr) and not kwargs and len(args) == 1:
            if _elements_of(x) is not None:
                return method(I, I_.FuncRef("method", name, bound=x), [], {}, node)
            q = _quantified(I, name, x)
            if q is not None:
                return q
        return Unknown("np.%s" % name)
    return h


def np_where(I, args, kwargs, node):
    if len(args) != 3:
        return Unknown("np.where (1-arg form)")
    c, a, b = args
    cmpm = c.meta.get("ivec_cmp") if isinstance(c, Arr) else None
    if cmpm is not None and isinstance(a, Arr) and isinstance(b, Arr) and a.meta.get("ivec") is not None and b.meta.get("ivec") is not None:
        iv, sym, thr = cmpm
        # j < t (or j <= t-1) over j = 0 .. n-1: the first t entries come from a, the rest from b
        if len(iv.segs) == 1 and iv.segs[0][1].is_zero() and sym in ("<", "<=", ">=", ">"):
            t = thr if sym in ("<", ">=") else thr + ONE
            first, second = (a, b) if sym in ("<", "<=") else (b, a)
            sa, sb = first.meta["ivec"].split(t), second.meta["ivec"].split(t)
            if sa is not None and sb is not None:
                return Arr(a.shape, Unknown("index vector"), "int", {"ivec": sa[0].concat(sb[1])})
        return Arr(a.shape, Unknown("np.where on index vectors"), "int", {})
    cv = val_of(c)
    if cv is BOT:
        return BOT
    if isinstance(cv, Expr):
        t = I.truth(cv)
    else:
        t = I.decide_pred(cv)
    pick = a if t else b
    shape = ()
    for x in (c, a, b):
        if isinstance(x, Arr):
            shape = broadcast(I, shape, x.shape, node)
    pv = val_of(pick)
    if isinstance(pv, Expr):
        # the operands were computed before the condition was decided: what the decision says about signs applies to the
        # entries that are picked (np.where(x > 0, f(abs(x)), 0) is f(x) where it is taken)
        sub = {}
        for at in pv.atoms():
            if at.kind == "fn" and at.name == "abs" and at.args and isinstance(at.args[0], Expr):
                p = I.facts.possible(at.args[0])
                if p <= {"+", "0"}:
                    sub[at] = at.args[0]
                elif p <= {"-", "0"}:
                    sub[at] = -at.args[0]
        if sub:
            pv = pv.subs(sub)
    if shape:
        return Arr(shape, pv, (pick.dtype if isinstance(pick, Arr) else _scalar_dtype(pick)), {})
    return pv


def np_select(I, args, kwargs, node):
    conds = args[0] if args else kwargs.get("condlist")
    choices = args[1] if len(args) > 1 else kwargs.get("choicelist")
    default = args[2] if len(args) > 2 else kwargs.get("default", ZERO)
    if not (isinstance(conds, Tup) and isinstance(choices, Tup) and len(conds.items) == len(choices.items)):
        return Unknown("np.select")
    out = default
    for c, v in reversed(list(zip(conds.items, choices.items))):
        out = np_where(I, [c, v, out], {}, node)  # the first condition that holds wins
    return out


def np_squeeze(I, args, kwargs, node):
    x = args[0]
    if isinstance(x, Arr):
        r = x.copy()
        r.meta = dict(x.meta)
        r.meta["squeezed"] = True
        if x.shape is not None:
            r.shape = tuple(d for d in x.shape if not dim_is_one(d))
            r.meta["presqueeze_shape"] = x.shape
        return r
    return x


def np_unique(I, args, kwargs, node):
    x = args[0]
    if not isinstance(x, Arr):
        return Unknown("np.unique")
    tag = "unique(%s)@%s:%s" % (x.name or x.meta.get("ident") or "?", I.cur_mod.name, node.lineno)
    ident = "unique@%s:%s" % (I.cur_mod.name, node.lineno)
    n = alg.fn("nunique", x.val if isinstance(x.val, Expr) else alg.sym(tag), integer=True, pos=True)
    if x.shape is not None and all(dim_is_one(d) for d in x.shape):
        n = ONE  # one value has one distinct value
    U = Arr((n,), alg.fn("elem", alg.sym(tag)), x.dtype, {"sorted_unique": True, "unique_of": x, "ident": ident})
    I.__dict__.setdefault("unique_registry", []).append((U, x))
    if isinstance(x.val, Expr):
        I.facts.refine(U.val, I.facts.possible(x.val))  # the distinct values have the sign of the values
        xa = _single_atom(x.val)
        if xa is not None:
            # ... and satisfy every bound the values satisfy (levels < nz, ...)
            for ent in list(I.facts.signs):
                if xa in ent[0].atoms() and not ent[0].eq(x.val):
                    I.facts.refine(ent[0].subs({xa: U.val}), set(ent[1]))
    want_index = kwargs.get("return_index") is True or (len(args) > 1 and args[1] is True)
    want_inverse = kwargs.get("return_inverse") is True or (len(args) > 2 and args[2] is True)
    want_counts = kwargs.get("return_counts") is True or (len(args) > 3 and args[3] is True)
    out = [U]
    if want_index:
        # positions of the first occurrences: U = x[index]; NOT the map from requests to slots
        out.append(Arr((n,), alg.fn("elem", alg.sym("first_index:" + tag), integer=True), "int", {"first_index_of": (U, x)}))
    if want_inverse:
        out.append(Arr(x.shape, alg.fn("elem", alg.sym("inverse:" + tag), integer=True), "int", {"inverse_of": (U, x)}))
    if want_counts:
        out.append(Arr((n,), alg.fn("elem", alg.sym("counts:" + tag), integer=True, pos=True), "int", {}))
    return Tup(out) if len(out) > 1 else U


def np_sort(I, args, kwargs, node):
    x = args[0]
    if isinstance(x, Arr):
        flat = "axis" in kwargs and kwargs["axis"] is None  # np.sort(a, axis=None) sorts the flattened array
        if (x.ndim == 1 or flat) and isinstance(x.val, Expr) and (flat or "axis" not in kwargs or const_int(kwargs["axis"]) in (-1, 0)) and len(args) == 1:
            # the sorted values are the array gathered through its own ascending order
            n = ONE
            for d in x.shape:
                n = n * d
            return Arr((n,), alg.fn("gather", x.val, alg.fn("permidx", "asc", x.val)), x.dtype, {"sorted": True, "sorted_of": x})
        tag = "sort(%s)@%s:%s" % (x.name or "?", I.cur_mod.name, node.lineno)
        return Arr(x.shape, alg.fn("elem", alg.sym(tag)), x.dtype, {"sorted": True, "sorted_of": x})
    if isinstance(x, Opaque):
        return Opaque("sorted(%s)" % x.name, {"sorted_of": x})  # a definite, different value: the entries in ascending order
    return Unknown("np.sort")


def np_deg2rad(I, args, kwargs, node):
    return map_unary(I, lambda v: v * alg.atom_expr(alg.PI) / 180, args[0], node)


def np_rad2deg(I, args, kwargs, node):
    return map_unary(I, lambda v: v * 180 / alg.atom_expr(alg.PI), args[0], node)


def np_arctan2(I, args, kwargs, node):
    y, x = args
    sy = y.shape if isinstance(y, Arr) else ()
    sx = x.shape if isinstance(x, Arr) else ()
    shape = broadcast(I, sy, sx, node)
    vy, vx = val_of(y), val_of(x)
    v = alg.fn("arctan2", vy, vx) if isinstance(vy, Expr) and isinstance(vx, Expr) else Unknown("arctan2")
    return Arr(shape, v, "float", {}) if shape else v


def np_minmax2(name):
    def h(I, args, kwargs, node):
        a, b = args[0], args[1]
        sa = a.shape if isinstance(a, Arr) else ()
        sb = b.shape if isinstance(b, Arr) else ()
        shape = broadcast(I, sa, sb, node)
        va, vb = val_of(a), val_of(b)
        v = (alg.fmax if name == "max" else alg.fmin)(va, vb) if isinstance(va, Expr) and isinstance(vb, Expr) else Unknown("np.%simum" % name)
        return Arr(shape, v, "float", {}) if shape else v

    return h


def np_clip(I, args, kwargs, node):
    x, lo, hi = args[0], _kw(args, kwargs, 1, "a_min"), _kw(args, kwargs, 2, "a_max")
    v = val_of(x)
    if isinstance(v, Expr):
        if isinstance(lo, Expr):
            v = alg.fmax(v, lo)
        if isinstance(hi, Expr):
            v = alg.fmin(v, hi)
        return Arr(x.shape, v, "float", {}) if isinstance(x, Arr) else v
    return Unknown("np.clip")


def np_argsort(I, args, kwargs, node):
    x = args[0]
    if not (isinstance(x, Arr) and isinstance(x.val, Expr)):
        return Unknown("np.argsort")
    key, direction = x.val, "asc"
    if alg._lead_negative(key) and len(key.n) == 1:
        key, direction = -key, "desc"  # argsort(-k) sorts k descending
    return Arr(x.shape, alg.fn("permidx", direction, key), "int", {"perm": (direction, key)})


def np_flip(I, args, kwargs, node):
    x = args[0]
    if isinstance(x, Arr):
        return _reverse(x)
    return Unknown("np.flip")


def _reverse(x):
    p = x.meta.get("perm")
    if p is not None:
        d = "desc" if p[0] == "asc" else "asc"
        return Arr(x.shape, alg.fn("permidx", d, p[1]), x.dtype, {"perm": (d, p[1])})
    if isinstance(x.val, Expr):
        g = _single_atom(x.val)
        if g is not None and g.kind == "fn" and g.name == "gather" and isinstance(g.args[1], Expr):
            pa = _single_atom(g.args[1])
            if pa is not None and pa.kind == "fn" and pa.name == "permidx":
                d = "desc" if pa.args[0] == "asc" else "asc"
                return Arr(x.shape, alg.fn("gather", g.args[0], alg.fn("permidx", d, pa.args[1])), x.dtype, {})
        return Arr(x.shape, alg.fn("reversed", x.val), x.dtype, {})
    return Unknown("reversed array")


def np_concatenate(I, args, kwargs, node):
    parts = args[0]
    if not isinstance(parts, Tup) or kwargs.get("axis") not in (None,) and const_int(kwargs.get("axis")) != 0:
        return Unknown("np.concatenate")
    arrs = []
    for p in parts.items:
        if isinstance(p, Tup) and all(isinstance(x, Expr) for x in p.items):
            p = np_array(I, [p], {}, node)
        if isinstance(p, Expr):
            return Unknown("np.concatenate of a scalar")
        if not (isinstance(p, Arr) and p.ndim == 1):
            return Unknown("np.concatenate")
        arrs.append(p)
    n = ZERO
    for p in arrs:
        n = n + p.shape[0]
    dt = arrs[0].dtype
    for p in arrs[1:]:
        dt = join_dtype(dt, p.dtype)
    if (len(arrs) == 2 and dim_is_one(arrs[0].shape[0]) and isinstance(arrs[0].val, Expr) and arrs[0].val.is_zero()
            and "gen" in arrs[1].meta and arrs[1].meta.get("cumsum_of") is not None):
        # a zero followed by inclusive prefix sums: the exclusive prefix sums, which are zero at position 0 as well
        g = arrs[1].meta["gen"]
        gen = lambda k, g=g: g(k - ONE)
        return Arr((n,), gen(alg.fn("idx", n, integer=True)), dt, {"gen": gen})
    return Arr((n,), Unknown("concatenated array"), dt, {"concat_parts": arrs})


def np_accumulate(kind):
    def h(I, args, kwargs, node):
        x = args[0]
        if not (isinstance(x, Arr) and x.ndim == 1):
            return Unknown("ufunc.accumulate")
        from interp import psum
        if kind == "add" and "gen" in x.meta and isinstance(x.val, Expr):
            return np_cumsum(I, [x], {}, node)
        parts = x.meta.get("concat_parts")
        if parts and len(parts) == 2 and dim_is_one(parts[0].shape[0]) and "gen" in parts[1].meta:
            first = parts[0].meta["elements"][0] if parts[0].meta.get("elements") else parts[0].val
            g = parts[1].meta["gen"]
            if isinstance(first, Expr):
                iv = alg.sym_atom("j#accumulate", integer=True)
                sign = -ONE if kind == "sub" else ONE
                # entry k is the first entry (-/+) the sum of the following k entries
                gen = lambda k, first=first, g=g, iv=iv, sign=sign: first + sign * psum(g(alg.atom_expr(iv)), iv, ZERO, k)
                return Arr(x.shape, gen(alg.fn("idx", x.shape[0], integer=True)), x.dtype, {"gen": gen})
        return Unknown("ufunc.accumulate")

    return h


def functools_partial(I, args, kwargs, node):
    f = args[0]
    if isinstance(f, FuncRef):
        return FuncRef("partial", "partial(%s)" % f.dotted, bound=(f, list(args[1:]), dict(kwargs)))
    return Unknown("functools.partial")


def np_isin(I, args, kwargs, node):
    a, b = args[0], args[1]
    if isinstance(a, Arr) and a.ndim == 1:
        m = {"ident": "isin@%s" % getattr(node, "lineno", 0)}
        ar = a.meta.get("arange")
        if ar is not None and ar[0].is_zero() and ar[2].eq(ONE) and isinstance(b, Arr) and b.ndim == 1 and b.meta.get("sorted_unique"):
            m["positions_of"] = b  # mask over range(n) that is true exactly at the (sorted, distinct) entries of b
        return Arr(a.shape, Unknown("membership mask"), "bool", m)
    return Unknown("np.isin")


def np_count_nonzero(I, args, kwargs, node):
    x = args[0]
    if isinstance(x, Arr) and x.meta.get("positions_of") is not None:
        return x.meta["positions_of"].shape[0]  # entries assumed in range, as the membership loop assumes
    if isinstance(x, Arr) and isinstance(x.val, Pred) and kwargs.get("axis") is None:
        return alg.fn("countwhere", x.val.e, x.val.op, integer=True)  # number of entries e with  e op 0
    if isinstance(x, Arr) and x.dtype == "bool" and isinstance(x.val, bool) and kwargs.get("axis") is None:
        # the same number that indexing with the mask produces
        return alg.fn("count", alg.sym("mask:%s" % (x.meta.get("ident") or x.name or "?")), integer=True, pos=True)
    return Unknown("np.count_nonzero")


def np_logical(op):
    def h(I, args, kwargs, node):
        xs = list(args)
        shapes = [x.shape if isinstance(x, Arr) else () for x in xs]
        shape = shapes[0]
        for s2 in shapes[1:]:
            shape = broadcast(I, shape, s2, node)
        vals = [val_of(x) for x in xs]
        if any(v is BOT for v in vals):
            val = BOT
        elif any(isinstance(v, Unknown) for v in vals):
            val = Unknown("np.logical_%s of an unmodelled mask" % op)
        elif all(isinstance(v, bool) for v in vals):
            val = (all(vals) if op == "and" else any(vals)) if op != "not" else (not vals[0])
        else:
            val = BoolCombo(op, vals)
        return Arr(shape, val, "bool") if shape else val

    return h


def np_reduce(name):
    def h(I, args, kwargs, node):
        x = args[0]
        if kwargs.get("axis") is not None or len(args) > 1:
            return Unknown("np.%s over an axis" % name)
        if isinstance(x, Arr) and isinstance(x.val, Expr):
            return alg.fn(name, x.val)  # one number for the whole array
        if isinstance(x, Expr):
            return x
        return Unknown("np.%s" % name)

    return h


def np_ix_(I, args, kwargs, node):
    out = []
    n = len(args)
    for k, a in enumerate(args):
        if not (isinstance(a, Arr) and a.ndim == 1):
            return Unknown("np.ix_")
        shp = tuple(a.shape[0] if j == k else ONE for j in range(n))
        m = {key: a.meta[key] for key in ("ivec",) if key in a.meta}
        m["open_axis"] = k
        out.append(Arr(shp, a.val, a.dtype, m))
    return Tup(out)


def _roll_kind(I, shift, dim):
    """is a roll by `shift` along an axis of length dim numpy's fftshift (dim // 2) or ifftshift (-(dim // 2))?
    -> set of {"F", "I"} that hold for every parity the facts allow, or None when the shift is something else / undecided"""
    h = alg.fn("floordiv", dim, alg.const(2), integer=True)
    out = set()
    for kind, ref in (("F", h), ("I", dim - h), ("I", -h), ("F", h - dim)):
        ok, _ = IV.scalar_equal(I, shift, ref)
        if ok is None:
            return None
        if ok:
            out.add(kind)
    return out


def _roll_spectrum(I, x, shifts, axes, node):
    gax = grid_axes(x)
    if sorted(axes) != list(gax):
        return None
    kinds = []
    for sh, ax in zip(shifts, axes):
        k = _roll_kind(I, sh, x.shape[ax])
        if k is None:
            return Arr(x.shape, Unknown("np.roll of a spectrum by a shift that could not be compared with half its length"), x.dtype, {})
        kinds.append(k)
    common = set.intersection(*kinds) if kinds else set()
    kw = {} if x.ndim == 2 else {"axes": Tup([alg.const(a) for a in sorted(axes)])}
    spec = x.meta.get("spec") or Spec("nat", None)
    if not common:
        I.event("typestate", node, "np.roll by %s along the spectral axes is neither fftshift (n // 2) nor ifftshift (-(n // 2)) for every admissible size" % (", ".join(repr(s) for s in shifts)))
        return Arr(x.shape, Unknown("spectrum rolled by something else than half its length"), x.dtype, {})
    if common == {"F", "I"}:
        # even sizes: the two coincide; it is whichever the current layout needs
        return fftshift(I, [x], kw, node) if spec.layout == "nat" else ifftshift(I, [x], kw, node)
    return fftshift(I, [x], kw, node) if "F" in common else ifftshift(I, [x], kw, node)


def np_roll(I, args, kwargs, node):
    x, shift = args[0], _kw(args, kwargs, 1, "shift")
    axis = _kw(args, kwargs, 2, "axis")
    if isinstance(x, Arr) and x.ndim >= 2 and axis is not None:
        shifts = list(shift.items) if isinstance(shift, Tup) else [shift]
        axes = [const_int(a) for a in (axis.items if isinstance(axis, Tup) else [axis])]
        if all(isinstance(s_, Expr) for s_ in shifts) and all(a is not None for a in axes) and len(shifts) == len(axes):
            axes = [a if a >= 0 else x.ndim + a for a in axes]
            r = _roll_spectrum(I, x, shifts, axes, node)
            if r is not None:
                return r
        return Unknown("np.roll along an axis")
    if isinstance(x, Arr) and x.ndim == 1 and isinstance(x.val, Expr) and isinstance(shift, Expr) and kwargs.get("axis") is None:
        return Arr(x.shape, alg.fn("roll", x.val, shift), x.dtype, {"roll_of": (x, shift)})
    return Unknown("np.roll")


# Contracts of arrays that a check hands in as opaque inputs: {atom of the array's generic element: (value of the last entry,
# index of the last entry)} for a strictly increasing 1-D grid whose last node equals that value in exact arithmetic (the
# vertical grid of vertical_profiles ends at the measurement height: C09 R-GRID).  Set and cleared by the check that uses it.
GRID_CONTRACTS = {}


def _grid_contract(x):
    if isinstance(x, Arr) and isinstance(x.val, Expr):
        a = _single_atom(x.val)
        if a is not None:
            return GRID_CONTRACTS.get(a)
    return None


def np_argmin(I, args, kwargs, node):
    """argmin(|g - t|) over a strictly increasing grid g whose last node is t: the last index (the other nodes are at least one
    grid spacing away, so this also holds for the rounded values)"""
    x = args[0] if args else None
    if isinstance(x, Arr) and x.ndim == 1 and isinstance(x.val, Expr) and not kwargs:
        a = _single_atom(x.val)
        if a is not None and a.kind == "fn" and a.name == "abs" and isinstance(a.args[0], Expr):
            inner = a.args[0].expand()
            for g, (top, idx) in GRID_CONTRACTS.items():
                if (inner.coeff_of(g, 1).eq(ONE) and (inner - alg.atom_expr(g) + top).is_zero()) or (inner.coeff_of(g, 1).eq(-ONE) and (inner + alg.atom_expr(g) - top).is_zero()):
                    I.__dict__.setdefault("known_integers", []).append(idx)  # an index is an integer whatever the symbol's flags say
                    return idx
    return Unknown("np.argmin")


def np_searchsorted(I, args, kwargs, node):
    a, v = args[0], args[1]
    side = _kw(args, kwargs, 2, "side", "left")
    gc = _grid_contract(a)
    if gc is not None and isinstance(v, Expr) and v.eq(gc[0]):
        # the searched value is hit exactly only in exact arithmetic: whether the computed node lies a rounding error below
        # or above it decides between two different answers
        I.event("fragile-search", node, "np.searchsorted for the value the grid's last node equals only up to rounding: the answer is %r or %r depending on the rounding of that node" % (gc[1], gc[1] + ONE))
        return alg.fn("searchsorted_at_exact_hit", a.val, v, side if isinstance(side, str) else "?", integer=True)
    if isinstance(a, Arr) and a.meta.get("sorted_unique") and a.meta.get("unique_of") is not None and isinstance(v, Arr) and side == "left":
        src = a.meta["unique_of"]
        if v is src or (isinstance(v.val, Expr) and isinstance(src.val, Expr) and v.val.eq(src.val) and v.shape == src.shape):
            # position of every request among the sorted distinct requests: exactly np.unique's inverse
            ua = _single_atom(a.val)
            tag = ua.args[0].top_atoms().pop().name if ua is not None and ua.kind == "fn" and ua.args and isinstance(ua.args[0], Expr) and len(ua.args[0].top_atoms()) == 1 else "unique"
            return Arr(v.shape, alg.fn("elem", alg.sym("inverse:" + tag), integer=True), "int", {"inverse_of": (a, src)})
    if isinstance(a, Arr) and isinstance(a.val, Expr) and isinstance(v, Expr) and isinstance(side, str):
        return alg.fn("searchsorted", a.val, v, side, integer=True)
    return Unknown("np.searchsorted")


def np_sum(I, args, kwargs, node):
    x = args[0]
    if isinstance(x, Arr) and isinstance(x.val, Expr):
        return alg.fn("sum", x.val)
    return Unknown("np.sum")


def np_cumsum(I, args, kwargs, node):
    x = args[0]
    if isinstance(x, Arr) and x.ndim == 1 and x.meta.get("concat_parts") and not isinstance(x.val, Expr):
        r = np_accumulate("add")(I, [x], {}, node)
        if isinstance(r, Arr):
            return r
    if isinstance(x, Arr) and isinstance(x.val, Expr):
        m = {"cumsum_of": x, "param_derived": x.meta.get("param_derived")}
        g = x.meta.get("gen")
        if g is not None and x.ndim == 1:
            from interp import psum
            iv = alg.sym_atom("j#cumsum", integer=True)
            m["gen"] = lambda k, g=g, iv=iv: psum(g(alg.atom_expr(iv)), iv, ZERO, k + ONE)  # inclusive prefix sum
        return Arr(x.shape, alg.fn("cumsum", x.val), x.dtype, m)
    return Unknown("np.cumsum")


# ---- FFT family


def fftfreq(I, args, kwargs, node):
    n = args[0]
    d = _kw(args, kwargs, 1, "d", ONE)
    if not (isinstance(n, Expr) and isinstance(d, Expr)):
        return Unknown("fftfreq")
    k = ZERO if I.ctx == "mean" else alg.fn("fftidx", n, integer=True)
    if I.ctx != "mean":
        # the analysis point is a generic mode other than the mean mode: its two integer wavenumbers are not both zero
        seen = I.__dict__.setdefault("fftidx_seen", [])
        if not any(k.eq(x) for x in seen):
            for x in seen:
                I.facts.refine((k * k + x * x - ONE).expand(), {"0", "+"})
            seen.append(k)
    return Arr((n,), k / (n * d), "float", {"spec1d": True, "modegrid": True, "fftfreq": (n, d)})


def _spec_axes_ok(I, x, kwargs, node, fname):
    axes = kwargs.get("axes")
    if axes is None:
        if x.ndim != 2:
            I.event("typestate", node, "%s over all axes of a %d-d array (level axis included)" % (fname, x.ndim))
        return
    if isinstance(axes, Tup):
        got = sorted(const_int(a) if const_int(a) is None or const_int(a) >= 0 else x.ndim + const_int(a) for a in axes.items)
        if got != list(grid_axes(x)):
            I.event("typestate", node, "%s over axes %r, spectral axes are %r" % (fname, got, grid_axes(x)))


def _shift_1d(I, x, name):
    """fftshift / ifftshift of an index vector or another plain 1-D array: a rotation, no Fourier-layout typestate"""
    iv = x.meta.get("ivec")
    if iv is not None:
        L = x.shape[0]
        h = I.scalar_binop(ast.FloorDiv(), L, alg.const(2), None)
        r = iv.roll_left(L - h if name == "fftshift" else h)
        if r is not None:
            return Arr(x.shape, Unknown("index vector"), x.dtype, {"ivec": r})
    return Arr(x.shape, Unknown("%s of a 1-D array" % name), x.dtype, {})


def fftshift(I, args, kwargs, node):
    x = args[0]
    if not isinstance(x, Arr):
        return Unknown("fftshift")
    if x.ndim == 1 and x.meta.get("spec") is None:
        return _shift_1d(I, x, "fftshift")
    _spec_axes_ok(I, x, kwargs, node, "fftshift")
    spec = x.meta.get("spec") or Spec("nat", None)
    if spec.layout != "nat":
        I.event("typestate", node, "fftshift applied to an array that is already in centred layout")
    r = x.copy()
    r.meta = dict(x.meta)
    r.meta["spec"] = spec.with_(layout="cen")
    return r


def ifftshift(I, args, kwargs, node):
    x = args[0]
    if not isinstance(x, Arr):
        return Unknown("ifftshift")
    if x.ndim == 1 and x.meta.get("spec") is None:
        return _shift_1d(I, x, "ifftshift")
    _spec_axes_ok(I, x, kwargs, node, "ifftshift")
    spec = x.meta.get("spec") or Spec("nat", None)
    if spec.layout != "cen":
        I.event("typestate", node, "ifftshift applied to an array in natural layout")
    r = x.copy()
    r.meta = dict(x.meta)
    r.meta["spec"] = spec.with_(layout="nat")
    return r


def _norm_scale(direction, norm, N):
    """scale factor of numpy's (i)fft2 for the given norm"""
    if norm is None:
        norm = "backward"
    if norm == "ortho":
        return alg.power(N, Q(-1, 2))
    if direction == "fwd":
        return ONE / N if norm == "forward" else ONE
    return ONE / N if norm == "backward" else ONE


def fft_family(direction):
    def h(I, args, kwargs, node):
        x = args[0]
        norm = _kw(args, kwargs, 1, "norm", None) if "norm" in kwargs or len(args) > 1 else None
        if norm is not None and not isinstance(norm, str):
            return Unknown("fft norm not constant")
        if "axes" in kwargs or "s" in kwargs:
            I.event("typestate", node, "transform with explicit axes/s")
        if not isinstance(x, Arr) or x.ndim < 2:
            return Unknown("fft2 of non-array")
        ny, nx = x.shape[-2], x.shape[-1]
        N = ny * nx
        scale = _norm_scale(direction, norm, N)
        spec = x.meta.get("spec")
        if spec is None and "spec1d" not in x.meta and (x.meta.get("padded") or x.meta.get("param")) and "field" not in x.meta and not x.meta.get("spectral_guess"):
            # transform of a spatial field -> spectrum in natural layout
            pad = x.meta.get("padded")
            src = pad["of"] if pad else x
            srcsym = x.val if isinstance(x.val, Expr) else alg.sym(src.name or "field")
            widths = pad["widths"] if pad else tuple((ZERO, ZERO) for _ in x.shape)
            name = "dft0" if I.ctx == "mean" else "dft"
            if direction == "inv":
                name = "i" + name
            # the transform is linear: factors that are one number for the whole field (constants, scalar parameters,
            # reductions such as max|q|) are pulled out of the coefficient atom
            factor = ONE
            mono = srcsym.as_mono() if isinstance(srcsym, Expr) else None
            if mono is not None and len(mono[1]) > 1 or (mono is not None and mono[0] != alg.C1):
                c0, facs = mono
                point = ONE
                factor = alg.const(c0.re) if c0.im == 0 else alg.const(c0.re) + alg.IMAG * alg.const(c0.im)
                for a, p in facs:
                    scalar = (a.kind == "sym" and not a.name.startswith(("?", "array@"))) or (a.kind == "fn" and a.name in ("max", "min", "sum", "mean", "count", "nunique", "len", "last"))
                    if scalar:
                        factor = factor * alg.power(alg.atom_expr(a), p)
                    else:
                        point = point * alg.power(alg.atom_expr(a), p)
                srcsym = point
            coeff = alg.fn(name, srcsym, widths[-2][0], widths[-1][0], ny, nx) * factor
            I.event("analysis", node, {"src": src, "pad": pad, "dir": direction, "norm": norm, "scale": scale, "N": (ny, nx)})
            meta = {"spec": Spec("nat", (ny, nx), (ZERO, ZERO)), "analysis_of": {"src": src, "pad": pad, "dir": direction, "norm": norm, "scale": scale, "N": (ny, nx), "where": "%s:%s" % (I.cur_mod.name, node.lineno)}}
            return Arr(x.shape, coeff * scale, "complex128", meta)
        # synthesis from a spectrum
        if spec is None:
            spec = Spec("nat", None)
        if spec.layout != "nat":
            I.event("typestate", node, "transform applied to a spectrum in centred layout (missing ifftshift)")
        for c in (spec.cut or ()):
            if not c.is_zero():
                I.event("typestate", node, "transform applied to a spectrum whose truncation was not undone (cut %r)" % (c,))
        basis = alg.sym("basis0:%s" % direction if I.ctx == "mean" else "basis:%s" % direction)
        v = x.val
        val = v * scale * basis if isinstance(v, Expr) else v
        field = {"synth": {"dir": direction, "scale": scale, "norm": norm, "coeff": v, "N": (ny, nx), "lvl0": x.meta.get("lvl0"),
                           "kept": x.meta.get("kept"), "respec_pad": x.meta.get("respec_pad"), "where": "%s:%s" % (I.cur_mod.name, node.lineno)}, "crop": (ZERO, ZERO)}
        meta = {"field": field}
        if "lvl0" in x.meta and isinstance(x.meta["lvl0"], Expr):
            meta["lvl0"] = x.meta["lvl0"] * scale * basis
        return Arr(x.shape, val, "complex128", meta)

    return h


def noop(I, args, kwargs, node):
    return None


def opaque(name):
    def h(I, args, kwargs, node):
        return Opaque(name, {"args": args, "kwargs": kwargs})

    return h


def sp_gamma(I, args, kwargs, node):
    return map_unary(I, lambda v: alg.fn("gamma", v, pos=True), args[0], node)


def np_isscalar_like(I, args, kwargs, node):
    return Unknown("predicate")


EXT = {
    "numpy.array": np_array,
    "numpy.asarray": np_asarray,
    "numpy.asanyarray": np_asarray,
    "numpy.ascontiguousarray": np_ascontiguous,
    "numpy.asfortranarray": np_asarray,
    "numpy.ones": np_full("ones"),
    "numpy.zeros": np_full("zeros"),
    "numpy.empty": np_full("empty"),
    "numpy.full": np_full("full"),
    "numpy.ones_like": np_full_like("ones"),
    "numpy.zeros_like": np_full_like("zeros"),
    "numpy.full_like": np_fill_like,
    "numpy.empty_like": np_full_like("empty"),
    "numpy.copy": np_copy,
    "numpy.diff": np_diff,
    "numpy.ndim": np_ndim,
    "numpy.shape": np_shape,
    "numpy.pad": np_pad,
    "numpy.meshgrid": np_meshgrid,
    "numpy.linspace": np_linspace,
    "numpy.arange": np_arange,
    "numpy.roll": np_roll,
    "numpy.ix_": np_ix_,
    "numpy.max": np_reduce("max"),
    "numpy.amax": np_reduce("max"),
    "numpy.min": np_reduce("min"),
    "numpy.amin": np_reduce("min"),
    "numpy.mean": np_reduce("mean"),
    "numpy.logical_and": np_logical("and"),
    "numpy.logical_or": np_logical("or"),
    "numpy.logical_not": np_logical("not"),
    "numpy.concatenate": np_concatenate,
    "numpy.isin": np_isin,
    "numpy.count_nonzero": np_count_nonzero,
    "numpy.argmin": np_argmin,
    "numpy.isnan": np_classify("isnan"), "numpy.isinf": np_classify("isinf"), "numpy.isfinite": np_classify("isfinite"),
    "numpy.any": np_anyall("any"), "numpy.all": np_anyall("all"),
    "numpy.isclose": np_isclose(False), "numpy.allclose": np_isclose(True),
    "numpy.ndim": np_ndim, "numpy.size": np_size, "numpy.broadcast_shapes": np_broadcast_shapes,
    "numpy.sqrt": unary(alg.sqrt),
    "numpy.exp": unary(alg.exp),
    "numpy.log": unary(alg.log),
    "numpy.sin": unary(alg.sin),
    "numpy.cos": unary(alg.cos),
    "numpy.arctan": unary(alg.arctan),
    "numpy.abs": unary(_abs),
    "numpy.absolute": unary(_abs),
    "numpy.square": unary(lambda v: v * v),
    "numpy.negative": unary(lambda v: -v),
    "numpy.real": unary(lambda v: v),
    "numpy.power": np_power,
    "numpy.where": np_where,
    "numpy.select": np_select,
    "numpy.subtract.accumulate": np_accumulate("sub"),
    "numpy.add.accumulate": np_accumulate("add"),
    "functools.partial": functools_partial,
    "numpy.squeeze": np_squeeze,
    "numpy.unique": np_unique,
    "numpy.sort": np_sort,
    "numpy.deg2rad": np_deg2rad,
    "numpy.radians": np_deg2rad,
    "numpy.degrees": np_rad2deg,
    "numpy.rad2deg": np_rad2deg,
    "numpy.arctan2": np_arctan2,
    "numpy.sum": np_sum,
    "numpy.argsort": np_argsort,
    "numpy.flip": np_flip,
    "numpy.searchsorted": np_searchsorted,
    "numpy.maximum": np_minmax2("max"),
    "numpy.minimum": np_minmax2("min"),
    "numpy.fmax": np_minmax2("max"),
    "numpy.fmin": np_minmax2("min"),
    "numpy.clip": np_clip,
    "numpy.cumsum": np_cumsum,
    "numpy.fft.fftfreq": fftfreq,
    "numpy.fft.fftshift": fftshift,
    "numpy.fft.ifftshift": ifftshift,
    "numpy.fft.fft2": fft_family("fwd"),
    "numpy.fft.ifft2": fft_family("inv"),
    "pyfftw.interfaces.numpy_fft.fft2": fft_family("fwd"),
    "pyfftw.interfaces.numpy_fft.ifft2": fft_family("inv"),
    "scipy.fft.fft2": fft_family("fwd"),
    "scipy.fft.ifft2": fft_family("inv"),
    "math.radians": np_deg2rad,
    "math.degrees": np_rad2deg,
    "math.cos": unary(alg.cos),
    "math.sin": unary(alg.sin),
    "math.sqrt": unary(alg.sqrt),
    "math.exp": unary(alg.exp),
    "math.log": unary(alg.log),
    "scipy.special.gamma": sp_gamma,
    "numba.set_num_threads": noop,
    "numba.prange": lambda I, a, k, n: builtin(I, "range", a, k, n, None),  # the iterations of a parallel range, in any order
    "numba.get_num_threads": lambda I, a, k, n: alg.sym("numba_threads", pos=True, integer=True),
    "warnings.warn": noop,
    "atexit.register": noop,
    "pyfftw.interfaces.cache.enable": noop,
    "pyfftw.interfaces.cache.set_keepalive_time": noop,
    "pathlib.Path": opaque("Path"),
}
