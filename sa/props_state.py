"""C12 (a solve is a pure function of its arguments) and C14 (drivers equal the single runs):
effect / memo-key analysis over the call graph, semantic comparison of abstract runs,
ordered-executor and positional re-assembly rules."""

import ast

import alg
from alg import Expr, ZERO, ONE
from front import AnalysisError, dotted_name
from interp import Interp, Opaque, Tup, Arr, explore
from report import Result, Ob, eq_ob, req_ob
import config_model as CM
import rules_solver as RS

TRUST12 = "numba.jit(parallel=True/False) compiles the same function to the same mathematical map; pyfftw transforms are deterministic functions of (input, norm); dtype only affects rounding"


# --------------------------------------------------------------------------
# call graph and module state


def local_names(fn):
    names = {a.arg for a in fn.args.posonlyargs + fn.args.args + fn.args.kwonlyargs}
    if fn.args.vararg:
        names.add(fn.args.vararg.arg)
    if fn.args.kwarg:
        names.add(fn.args.kwarg.arg)
    globs = set()
    for n in ast.walk(fn):
        if isinstance(n, ast.Global):
            globs.update(n.names)
    for n in ast.walk(fn):
        if isinstance(n, ast.Name) and isinstance(n.ctx, ast.Store) and n.id not in globs:
            names.add(n.id)
        elif isinstance(n, (ast.FunctionDef, ast.ClassDef)) and n is not fn:
            names.add(n.name)
        elif isinstance(n, (ast.Import, ast.ImportFrom)):
            for a in n.names:
                names.add((a.asname or a.name).split(".")[0])
        elif isinstance(n, ast.ExceptHandler) and n.name:
            names.add(n.name)
    return names, globs


class CallGraph:
    def __init__(self, P, roots):
        self.P = P
        self.nodes = {}  # key -> (module, FunctionDef, enclosing FunctionDef or None)
        self.order = []
        todo = list(roots)
        methods = {}
        for mn, m in P.modules.items():
            for cn, c in m.classes.items():
                for n in c.body:
                    if isinstance(n, ast.FunctionDef):
                        methods.setdefault(n.name, []).append((m, n, cn))
        self.methods = methods
        while todo:
            mod, fn, encl = todo.pop()
            key = (mod.name, fn.lineno, fn.name)
            if key in self.nodes:
                continue
            self.nodes[key] = (mod, fn, encl)
            self.order.append(key)
            for n in ast.walk(fn):
                if isinstance(n, (ast.FunctionDef,)) and n is not fn:
                    todo.append((mod, n, fn))
            # decorators of package functions wrap the call
            for d in fn.decorator_list:
                dn = dotted_name(d) or (dotted_name(d.func) if isinstance(d, ast.Call) else None)
                if dn:
                    self._follow(mod, fn, dn, todo)
            for n in ast.walk(fn):
                if isinstance(n, ast.Call):
                    dn = dotted_name(n.func)
                    if dn:
                        self._follow(mod, fn, dn, todo)
                    if isinstance(n.func, ast.Attribute) and n.func.attr in methods and mod.name.split(".")[0] == "bldfm":
                        base = dotted_name(n.func.value)
                        # method calls on values: every package method of that name (over-approximation), except on numpy/stdlib modules
                        if base is None or base.split(".")[0] not in ("np", "numpy", "os", "math", "logging", "pyfftw", "pickle", "h", "hashlib"):
                            for m2, f2, cn in methods[n.func.attr]:
                                if m2.name in ("bldfm.fft_manager",) or m2.name == mod.name:
                                    todo.append((m2, f2, None))

    def _follow(self, mod, fn, dn, todo):
        head = dn.split(".")[0]
        limp = mod.local_imports(fn)
        target = None
        if head in limp:
            target = ".".join([limp[head]] + dn.split(".")[1:])
        elif head in mod.functions and "." not in dn:
            todo.append((mod, mod.functions[head], None))
            return
        elif head in mod.classes:
            c = mod.classes[head]
            for n in c.body:
                if isinstance(n, ast.FunctionDef) and n.name == "__init__":
                    todo.append((mod, n, None))
            return
        elif head in mod.imports:
            target = ".".join([mod.imports[head]] + dn.split(".")[1:])
        if target:
            r = self.P.resolve(mod.name, target)
            if r[0] == "func":
                todo.append((r[1], r[2], None))
            elif r[0] == "class":
                for n in r[2].body:
                    if isinstance(n, ast.FunctionDef) and n.name == "__init__":
                        todo.append((r[1], n, None))


def module_state(P):
    """module-level variables that some function rebinds (global) or that hold a mutable container"""
    out = {}
    for mn, m in P.modules.items():
        rebinding = set()
        for n in ast.walk(m.tree):
            if isinstance(n, ast.FunctionDef):
                _, g = local_names(n)
                rebinding |= g
        for name in rebinding:
            if name not in m.assigns:
                out[(mn, name)] = "rebound"
        for name, val in m.assigns.items():
            mutable = isinstance(val, (ast.Dict, ast.List, ast.Set, ast.DictComp, ast.ListComp, ast.SetComp)) or (
                isinstance(val, ast.Call) and (dotted_name(val.func) or "").split(".")[-1] in ("dict", "list", "set", "defaultdict", "OrderedDict", "deque"))
            if name in rebinding or mutable:
                if name not in rebinding and _constant_table(P, mn, name):
                    continue  # a literal table that the package only ever reads: a constant, not state
                out[(mn, name)] = "rebound" if name in rebinding else "container"
    return out


READ_METHODS = {"get", "items", "keys", "values", "index", "count", "copy"}


def _constant_table(P, mn, name):
    """module-level container used only through reads (subscript load, membership, iteration, len, read-only methods) in
    its own module, and not imported by any other module: nothing can change it after import"""
    for on, om in P.modules.items():
        if on != mn and any(tgt == "%s.%s" % (mn, name) for tgt in om.imports.values()):
            return False
        for fn in [n for n in ast.walk(om.tree) if isinstance(n, ast.FunctionDef)]:
            if any(tgt == "%s.%s" % (mn, name) for tgt in om.local_imports(fn).values()):
                return False
    m = P.modules[mn]
    parents = {}
    for n in ast.walk(m.tree):
        for ch in ast.iter_child_nodes(n):
            parents[ch] = n
    for n in ast.walk(m.tree):
        if not (isinstance(n, ast.Name) and n.id == name):
            continue
        p = parents.get(n)
        if isinstance(n.ctx, ast.Store):
            if isinstance(p, (ast.Assign, ast.AnnAssign)) and isinstance(parents.get(p), ast.Module):
                continue  # the defining assignment
            return False
        if isinstance(n.ctx, ast.Del):
            return False
        if isinstance(p, ast.Subscript) and p.value is n and isinstance(p.ctx, ast.Load):
            continue
        if isinstance(p, ast.Compare) and n in p.comparators and all(isinstance(o, (ast.In, ast.NotIn)) for o in p.ops):
            continue
        if isinstance(p, (ast.For, ast.comprehension)) and p.iter is n:
            continue
        if isinstance(p, ast.Call) and n in p.args and (dotted_name(p.func) or "") in ("len", "sorted", "list", "tuple", "set", "frozenset", "dict", "iter", "enumerate", "max", "min", "sum", "any", "all"):
            continue
        if isinstance(p, ast.Attribute) and p.value is n and p.attr in READ_METHODS and isinstance(parents.get(p), ast.Call) and parents[p].func is p:
            continue
        return False
    return True


SETTINGS = {("bldfm.config", "NUM_THREADS"), ("bldfm.config", "MAX_WORKERS"), ("bldfm.config", "USE_CACHE"), ("bldfm.config", "OUTPUT_DIR")}
ALLOWED_STATE = {
    ("bldfm.config", "NUM_THREADS"): "thread count: selects between two compilations of the same kernel and the FFT thread count (R-PURE checks both branches give identical normal forms)",
    ("bldfm.fft_manager", "_fft_manager"): "FFT manager singleton: its transform methods read no instance state (R-NOSTATE)",
}


def state_accesses(P, G):
    """(reads, writes) of module-level mutable state inside the functions of the call graph"""
    state = module_state(P)
    reads, writes = [], []
    for key in G.order:
        mod, fn, encl = G.nodes[key]
        locs, globs = local_names(fn)
        outer = set()
        e = encl
        while e is not None:
            ol, _ = local_names(e)
            outer |= ol
            e = None
        for n in ast.walk(fn):
            if isinstance(n, ast.Name):
                if n.id in locs and n.id not in globs:
                    continue
                if n.id in outer:
                    continue
                if (mod.name, n.id) in state:
                    (reads if isinstance(n.ctx, ast.Load) else writes).append(((mod.name, n.id), mod.name, fn.name, n.lineno))
            if isinstance(n, ast.Attribute):
                dn = dotted_name(n)
                if dn and "." in dn:
                    head, attr = dn.rsplit(".", 1)
                    limp = mod.local_imports(fn)
                    tgt = limp.get(head.split(".")[0]) or mod.imports.get(head.split(".")[0])
                    if tgt:
                        full = ".".join([tgt] + head.split(".")[1:])
                        if full in P.modules and attr in P.modules[full].assigns:
                            is_state = (full, attr) in state or (full, attr) in SETTINGS
                            if is_state:
                                (reads if isinstance(n.ctx, ast.Load) else writes).append(((full, attr), mod.name, fn.name, n.lineno))
    return state, reads, writes


def deps_of(fn, expr_nodes, encl_locals=()):
    """parameters/free variables that the given expressions depend on through local def-use chains (flow-insensitive, data + control)"""
    defs = {}
    # names tested by the conditions an assignment is nested in (control dependence)
    ctl = {}

    def mark(node, tests):
        for ch in ast.iter_child_nodes(node):
            if isinstance(ch, (ast.FunctionDef, ast.AsyncFunctionDef, ast.Lambda, ast.ClassDef)):
                continue
            t2 = tests
            if isinstance(node, (ast.If, ast.While)) and ch is not node.test:
                t2 = tests | {x.id for x in ast.walk(node.test) if isinstance(x, ast.Name)}
            elif isinstance(node, ast.IfExp) and ch is not node.test:
                t2 = tests | {x.id for x in ast.walk(node.test) if isinstance(x, ast.Name)}
            ctl[id(ch)] = t2
            mark(ch, t2)

    mark(fn, frozenset())
    for n in ast.walk(fn):
        if isinstance(n, ast.Assign):
            src = {x.id for x in ast.walk(n.value) if isinstance(x, ast.Name)} | set(ctl.get(id(n), ()))
            for t in n.targets:
                for x in ast.walk(t):
                    if isinstance(x, ast.Name) and isinstance(x.ctx, ast.Store):
                        defs.setdefault(x.id, set()).update(src)
        elif isinstance(n, ast.AugAssign) and isinstance(n.target, ast.Name):
            defs.setdefault(n.target.id, set()).update({x.id for x in ast.walk(n.value) if isinstance(x, ast.Name)} | {n.target.id} | set(ctl.get(id(n), ())))
        elif isinstance(n, ast.For):
            src = {x.id for x in ast.walk(n.iter) if isinstance(x, ast.Name)}
            for x in ast.walk(n.target):
                if isinstance(x, ast.Name):
                    defs.setdefault(x.id, set()).update(src)
    seen, todo = set(), set()
    for e in expr_nodes:
        todo |= {x.id for x in ast.walk(e) if isinstance(x, ast.Name)}
    while todo:
        nm = todo.pop()
        if nm in seen:
            continue
        seen.add(nm)
        todo |= defs.get(nm, set()) - seen
    params = {a.arg for a in fn.args.posonlyargs + fn.args.args + fn.args.kwonlyargs}
    if fn.args.vararg:
        params.add(fn.args.vararg.arg)
    if fn.args.kwarg:
        params.add(fn.args.kwarg.arg)
    roots = {nm for nm in seen if nm in params or (nm not in defs)}
    return roots, params


def deps_paths(fn, expr_nodes):
    """access paths (root name, attr, ...) rooted at parameters or free names that the expressions depend on, through local
    def-use chains (flow-insensitive; data and control).  `ny, nx = q0.shape` makes ny depend on q0.shape, not on q0."""
    defs = {}
    ctl = {}

    def mark(node, tests):
        for ch in ast.iter_child_nodes(node):
            if isinstance(ch, (ast.FunctionDef, ast.AsyncFunctionDef, ast.Lambda, ast.ClassDef)):
                continue
            t2 = tests
            if isinstance(node, (ast.If, ast.While, ast.IfExp)) and ch is not node.test:
                t2 = tests | frozenset(_paths(node.test))
            ctl[id(ch)] = t2
            mark(ch, t2)

    mark(fn, frozenset())
    for n in ast.walk(fn):
        if isinstance(n, ast.Assign):
            src = set(_paths(n.value)) | set(ctl.get(id(n), ()))
            for t in n.targets:
                for x in ast.walk(t):
                    if isinstance(x, ast.Name) and isinstance(x.ctx, ast.Store):
                        defs.setdefault(x.id, set()).update(src)
        elif isinstance(n, ast.AugAssign) and isinstance(n.target, ast.Name):
            defs.setdefault(n.target.id, set()).update(set(_paths(n.value)) | {(n.target.id,)} | set(ctl.get(id(n), ())))
        elif isinstance(n, ast.For):
            src = set(_paths(n.iter))
            for x in ast.walk(n.target):
                if isinstance(x, ast.Name):
                    defs.setdefault(x.id, set()).update(src)
    params = {a.arg for a in fn.args.posonlyargs + fn.args.args + fn.args.kwonlyargs}
    if fn.args.vararg:
        params.add(fn.args.vararg.arg)
    if fn.args.kwarg:
        params.add(fn.args.kwarg.arg)
    seen, todo, roots = set(), [], set()
    for e in expr_nodes:
        todo.extend(_paths(e))
    while todo:
        p = todo.pop()
        if p in seen:
            continue
        seen.add(p)
        r = p[0]
        if r in params or r not in defs:
            roots.add(p)
            continue
        for q in defs[r]:
            # an attribute of a local that is itself a plain path keeps the attribute; otherwise the whole source is needed
            todo.append(q + p[1:] if len(p) > 1 and q[0] not in defs else q)
    return roots, params


def covered_by_key(p, key_paths):
    for k in key_paths:
        if k[0] != p[0]:
            continue
        if p[: len(k)] == k:
            return True  # the key holds the object itself, or an object the used part belongs to
        if k[: len(p)] == p and len(k) == len(p) + 1 and k[-1] in LOSSLESS_ATTRS:
            return True  # the key holds an identifying attribute of the object used
    return False


MUTATORS = {"append", "extend", "insert", "update", "setdefault", "pop", "popitem", "clear", "add", "remove", "discard", "sort", "reverse", "fill", "resize", "put"}


def mutable_default_obligations(P, G):
    """A default argument is evaluated once, when the function is defined: a mutable default that the function writes to (or
    hands out) is state shared by all calls that rely on the default - whatever an earlier call left in it is seen by the next"""
    obs = []
    for key in G.order:
        mod, fn, encl = G.nodes[key]
        a = fn.args
        pos = a.posonlyargs + a.args
        pairs = list(zip(pos[len(pos) - len(a.defaults):], a.defaults)) + [(p, d) for p, d in zip(a.kwonlyargs, a.kw_defaults) if d is not None]
        for p, d in pairs:
            mutable = isinstance(d, (ast.Dict, ast.List, ast.Set, ast.ListComp, ast.DictComp, ast.SetComp)) or (
                isinstance(d, ast.Call) and (dotted_name(d.func) or "").split(".")[-1] in ("dict", "list", "set", "defaultdict", "OrderedDict", "zeros", "empty", "ones", "array", "bytearray"))
            if not mutable:
                continue
            name = p.arg
            uses = []
            parents = {}
            for n in ast.walk(fn):
                for ch in ast.iter_child_nodes(n):
                    parents[id(ch)] = n
            aliases = {name}
            for n in ast.walk(fn):
                if isinstance(n, ast.Name) and n.id in aliases:
                    par = parents.get(id(n))
                    if isinstance(par, ast.Subscript) and par.value is n and isinstance(par.ctx, (ast.Store, ast.Del)):
                        uses.append("item store (line %d)" % n.lineno)
                    elif isinstance(par, ast.AugAssign) and par.target is n:
                        uses.append("in-place update (line %d)" % n.lineno)
                    elif isinstance(par, ast.Attribute) and par.value is n and par.attr in MUTATORS and isinstance(parents.get(id(par)), ast.Call):
                        uses.append("%s() (line %d)" % (par.attr, n.lineno))
                    elif isinstance(par, ast.Return) or (isinstance(par, ast.Tuple) and isinstance(parents.get(id(par)), ast.Return)):
                        uses.append("returned to the caller (line %d)" % n.lineno)
            site = "src/%s.py::%s" % (mod.name.replace(".", "/"), fn.name)
            obs.append(req_ob("R-STATE", site, "the mutable default of parameter %s is never written to or handed out (it is one object shared by every call)" % name, not uses,
                              detail="; ".join(uses[:3]) or None, key={"state": "%s.%s(%s=)" % (mod.name, fn.name, name)}))
    return obs


def memo_obligations(P, G):
    """every keyed store into module-level or closure state on the solve path is fully keyed"""
    obs = []
    state = module_state(P)
    import builtins

    for key in G.order:
        mod, fn, encl = G.nodes[key]
        locs, globs = local_names(fn)
        outer = set()
        if encl is not None:
            outer, _ = local_names(encl)
        stores = []
        for n in ast.walk(fn):
            if isinstance(n, ast.Assign):
                for t in n.targets:  # chained assignments (a = memo[key] = value) included
                    if isinstance(t, ast.Subscript):
                        stores.append((n, t))
        for n, t in stores:
            base = t.value
            if not isinstance(base, ast.Name):
                continue
            is_closure = base.id in outer and base.id not in locs
            is_global = (mod.name, base.id) in state and (base.id not in locs or base.id in globs)
            if not (is_closure or is_global):
                continue
            site = "src/%s.py::%s::store into %s" % (mod.name.replace(".", "/"), fn.name, base.id)
            vdeps, params = deps_of(fn, [n.value])
            kdeps, _ = deps_of(fn, [t.slice])
            # the memoised object may be written to after it was stored or fetched (buf = memo[key] = zeros(...); buf[...] = q0):
            # what it then holds depends on everything written into it, on this call and on earlier ones
            aliases = {x.id for tt in n.targets if isinstance(tt, ast.Name) for x in [tt]}
            for m in ast.walk(fn):
                if isinstance(m, ast.Assign) and len(m.targets) == 1 and isinstance(m.targets[0], ast.Name):
                    v = m.value
                    fetch = (isinstance(v, ast.Subscript) and isinstance(v.value, ast.Name) and v.value.id == base.id) or (
                        isinstance(v, ast.Call) and isinstance(v.func, ast.Attribute) and v.func.attr in ("get", "setdefault") and isinstance(v.func.value, ast.Name) and v.func.value.id == base.id)
                    if fetch:
                        aliases.add(m.targets[0].id)
            written = []
            for m in ast.walk(fn):
                if isinstance(m, ast.Assign):
                    for tt in m.targets:
                        if isinstance(tt, ast.Subscript) and isinstance(tt.value, ast.Name) and tt.value.id in aliases:
                            written.append(m.value)
                elif isinstance(m, ast.AugAssign):
                    tt = m.target
                    if (isinstance(tt, ast.Name) and tt.id in aliases) or (isinstance(tt, ast.Subscript) and isinstance(tt.value, ast.Name) and tt.value.id in aliases):
                        written.append(m.value)
            if written:
                wdeps, _ = deps_of(fn, written)
                vdeps = vdeps | wdeps
            ignore = set(dir(builtins)) | set(mod.imports) | set(mod.functions) | set(mod.classes) | {base.id}
            if is_closure:
                ignore |= {x for x in outer if x not in locs}  # the enclosing scope's own constants (one memo per enclosing call)
            missing = sorted(d for d in vdeps - kdeps - ignore if d in params or (mod.name, d) in state or d in locs)
            if not missing:
                # by access path: a key built from q0.shape does not determine the contents of q0
                vp, _ = deps_paths(fn, [n.value] + written)
                kp, _ = deps_paths(fn, [t.slice])
                missing = sorted(".".join(p) for p in vp if p[0] not in ignore and (p[0] in params or (mod.name, p[0]) in state) and not covered_by_key(p, kp))
            # settings read through module attributes
            vattr = {dotted_name(x) for x in ast.walk(n.value) if isinstance(x, ast.Attribute) and dotted_name(x)}
            obs.append(req_ob("R-MEMO", site, "the memoised value depends only on what its key depends on", not missing,
                              detail=None if not missing else "not determined by the key: %s (value depends on %s, key on %s)" % (missing, sorted(vdeps - ignore), sorted(kdeps - ignore)), key={"state": base.id}))
    return obs


THREAD_SINKS = ("set_num_threads", "get_fft_manager")


def thread_flow_obligations(P, G):
    """the configured thread count may only be compared (selecting thread set-up / a compilation of the same kernel) or
    handed to the thread-setting calls; it must never become a value.  Local names bound to it (n = config.NUM_THREADS)
    are followed: every use of such a name is held to the same rule."""
    obs = []
    for key in G.order:
        mod, fn, encl = G.nodes[key]
        parents = {}
        for n in ast.walk(fn):
            for ch in ast.iter_child_nodes(n):
                parents[ch] = n

        def is_setting(n):
            if not (isinstance(n, ast.Attribute) and n.attr == "NUM_THREADS" and isinstance(n.ctx, ast.Load)):
                return False
            dn = dotted_name(n) or ""
            head = dn.split(".")[0]
            tgt = mod.local_imports(fn).get(head) or mod.imports.get(head)
            return tgt == "bldfm.config"

        sources = [n for n in ast.walk(fn) if is_setting(n)]
        aliases = set()
        work = list(sources)
        uses = []
        seen = set()
        while work:
            n = work.pop()
            if id(n) in seen:
                continue
            seen.add(id(n))
            p = parents.get(n)
            # int(...) around the setting, or a conditional expression choosing between it and a constant, is still the setting
            while (isinstance(p, ast.Call) and (dotted_name(p.func) or "") in ("int",) and n in p.args) or (
                    isinstance(p, ast.IfExp) and n is not p.test and isinstance(p.orelse if p.body is n else p.body, ast.Constant)):
                n, p = p, parents.get(p)
            if isinstance(p, ast.Assign) and p.value is n and all(isinstance(t, ast.Name) for t in p.targets):
                for t in p.targets:
                    if t.id not in aliases:
                        aliases.add(t.id)
                        work.extend(x for x in ast.walk(fn) if isinstance(x, ast.Name) and x.id == t.id and isinstance(x.ctx, ast.Load))
                continue
            uses.append((n, p))
        for n, p in uses:
            ok = False
            how = type(p).__name__
            if isinstance(p, ast.Compare):
                ok, how = True, "compared"
            elif isinstance(p, ast.Call) and (dotted_name(p.func) or "").split(".")[-1] in THREAD_SINKS:
                ok, how = True, "argument of %s" % dotted_name(p.func)
            elif isinstance(p, ast.keyword):
                pc = parents.get(p)
                if isinstance(pc, ast.Call) and (dotted_name(pc.func) or "").split(".")[-1] in THREAD_SINKS:
                    ok, how = True, "argument of %s" % dotted_name(pc.func)
                else:
                    how = "keyword argument of %s" % (dotted_name(pc.func) if isinstance(pc, ast.Call) else "?")
            elif isinstance(p, ast.Call):
                how = "argument of %s" % (dotted_name(p.func) or "a call")
            elif isinstance(p, (ast.JoinedStr, ast.FormattedValue)) or (isinstance(p, ast.Call) and (dotted_name(p.func) or "").split(".")[0] in ("logger", "logging")):
                ok, how = True, "logged"
            obs.append(req_ob("R-PURE", "src/%s.py::%s" % (mod.name.replace(".", "/"), fn.name),
                              "the configured thread count is only compared or handed to the thread-setting calls (never used as a value)", ok,
                              detail=None if ok else "config.NUM_THREADS is used as %s (line %d)" % (how, n.lineno), key={"use": how}))
    return obs


EXECUTION_KEYWORDS = {"threads", "num_threads", "planner_effort", "flags", "timeout"}  # keywords that steer execution, not values
LOSSLESS_ATTRS = {"char", "str", "name", "descr"}  # an attribute that identifies the whole object it is read from (a dtype's code)
LOSSY_ATTRS = {"kind", "itemsize", "ndim", "size", "nbytes", "alignment", "real", "imag", "T", "flags"}


def _paths(expr):
    """access paths ('name', 'attr', ...) read by an expression; method calls contribute their receiver"""
    out = set()

    def chain(n):
        parts = []
        while isinstance(n, ast.Attribute):
            parts.append(n.attr)
            n = n.value
        if isinstance(n, ast.Name):
            return (n.id,) + tuple(reversed(parts))
        return None

    def walk(n):
        if isinstance(n, ast.Call):
            f = n.func
            if isinstance(f, ast.Attribute):
                c = chain(f.value)
                if c is not None:
                    out.add(c)
                else:
                    walk(f.value)
            for a in n.args:
                walk(a)
            for k in n.keywords:
                walk(k.value)
            return
        if isinstance(n, (ast.Attribute, ast.Name)):
            c = chain(n)
            if c is not None:
                out.add(c)
                return
        for ch in ast.iter_child_nodes(n):
            walk(ch)

    walk(expr)
    return out


def instance_memo_obligations(P, mod, cls, site):
    """Instance state of the FFT wrapper.  Attributes set once in __init__ from the constructor's arguments are per-instance
    constants.  A dict attribute is accepted as state only as a completely keyed memo: everything the stored value is built
    from must be determined by the key (a whole object, or one of its identifying attributes such as dtype.char; a lossy
    attribute such as dtype.kind does not determine it).  Any other instance state read by the transforms is reported."""
    import builtins

    obs = []
    init = next((n for n in cls.body if isinstance(n, ast.FunctionDef) and n.name == "__init__"), None)
    consts, memos, other = set(), set(), set()
    if init is not None:
        for n in ast.walk(init):
            if isinstance(n, ast.Assign):
                for t in n.targets:
                    if isinstance(t, ast.Attribute) and isinstance(t.value, ast.Name) and t.value.id == "self":
                        v = n.value
                        if isinstance(v, ast.Dict) and not v.keys or (isinstance(v, ast.Call) and (dotted_name(v.func) or "").split(".")[-1] in ("dict", "OrderedDict")):
                            memos.add(t.attr)
                        elif isinstance(v, ast.Call) and (dotted_name(v.func) or "").split(".")[-1] in ("Lock", "RLock"):
                            consts.add(t.attr)
                        else:
                            consts.add(t.attr)
    methods = [n for n in cls.body if isinstance(n, ast.FunctionDef) and n.name != "__init__"]
    # attributes rebound outside __init__ are state, not constants
    for fn in methods:
        for n in ast.walk(fn):
            if isinstance(n, (ast.Assign, ast.AugAssign)):
                tg = n.targets if isinstance(n, ast.Assign) else [n.target]
                for t in tg:
                    if isinstance(t, ast.Attribute) and isinstance(t.value, ast.Name) and t.value.id == "self":
                        consts.discard(t.attr)
                        other.add(t.attr)
    ignore = set(dir(builtins)) | set(mod.imports) | set(mod.functions) | set(mod.classes) | set(mod.assigns)
    transform_methods = set()
    work = [n.name for n in methods if n.name in ("fft2", "ifft2")]
    by_name = {n.name: n for n in methods}
    while work:
        nm = work.pop()
        if nm in transform_methods or nm not in by_name:
            continue
        transform_methods.add(nm)
        for n in ast.walk(by_name[nm]):
            if isinstance(n, ast.Call) and isinstance(n.func, ast.Attribute) and isinstance(n.func.value, ast.Name) and n.func.value.id == "self":
                work.append(n.func.attr)
    for nm in sorted(transform_methods):
        fn = by_name[nm]
        msite = "%s.%s" % (site, nm)
        reads = set()
        for n in ast.walk(fn):
            if isinstance(n, ast.Attribute) and isinstance(n.value, ast.Name) and n.value.id == "self" and n.attr not in by_name:
                reads.add(n.attr)
        bad = sorted(a for a in reads if a not in consts and a not in memos)
        # a per-instance constant may steer how the transform is executed (thread count, planner flags, a lock), not what it
        # computes: the singleton is created once, so a constant that reaches a value (a dtype, a factor) makes a solve depend
        # on which solve created the manager
        parents = {}
        for n in ast.walk(fn):
            for ch in ast.iter_child_nodes(n):
                parents[ch] = n
        for n in ast.walk(fn):
            if isinstance(n, ast.Attribute) and isinstance(n.value, ast.Name) and n.value.id == "self" and n.attr in consts and n.attr not in by_name and isinstance(n.ctx, ast.Load):
                p = parents.get(n)
                ok_use = (isinstance(p, ast.keyword) and p.arg in EXECUTION_KEYWORDS) or isinstance(p, (ast.withitem, ast.Compare, ast.JoinedStr, ast.FormattedValue)) or (
                    isinstance(p, ast.Call) and (dotted_name(p.func) or "").split(".")[0] in ("logger", "logging")) or (
                    isinstance(p, ast.Attribute) and p.attr in ("acquire", "release", "exists", "open"))
                if not ok_use:
                    bad.append("%s (used as %s at line %d)" % (n.attr, ("keyword %s" % p.arg) if isinstance(p, ast.keyword) else type(p).__name__, n.lineno))
        obs.append(req_ob("R-NOSTATE", msite, "the transform reads no instance state other than per-instance constants and completely keyed memos (which manager instance serves a call, and what it served before, cannot influence a value)", not bad,
                          detail="reads %s" % ", ".join("self." + a for a in bad) if bad else None))
        # keyed stores into the memo attributes
        assigns = {}
        for n in ast.walk(fn):
            if isinstance(n, ast.Assign):
                for t in n.targets:
                    if isinstance(t, ast.Name):
                        assigns.setdefault(t.id, []).append(n.value)
                    elif isinstance(t, (ast.Tuple, ast.List)):
                        for x in t.elts:
                            if isinstance(x, ast.Name):
                                assigns.setdefault(x.id, []).append(n.value)
            if isinstance(n, (ast.With, ast.withitem)):
                pass
        params = {a.arg for a in fn.args.args + fn.args.kwonlyargs}
        for n in ast.walk(fn):
            if not isinstance(n, ast.Assign):
                continue
            for t in n.targets:
                if not (isinstance(t, ast.Subscript) and isinstance(t.value, ast.Attribute) and isinstance(t.value.value, ast.Name) and t.value.value.id == "self" and t.value.attr in memos):
                    continue
                kp = _paths(t.slice)
                # key given by a local name: open it once (key = (a, b.c, d))
                opened = set()
                for p in list(kp):
                    if len(p) == 1 and p[0] in assigns and p[0] not in params:
                        kp.discard(p)
                        for e in assigns[p[0]]:
                            opened |= _paths(e)
                kp |= opened
                keyroots = {p[0] for p in kp}
                # value dependences, locals opened down to parameters and key variables
                deps, seen, todo = set(), set(), list(_paths(n.value))
                while todo:
                    p = todo.pop()
                    if p in seen:
                        continue
                    seen.add(p)
                    r = p[0]
                    if r in ignore and r not in params and r not in assigns:
                        continue
                    if r == "self" or r in keyroots or r in params or r not in assigns:
                        deps.add(p)
                        continue
                    for e in assigns[r]:
                        todo.extend(_paths(e))
                missing = []
                for p in sorted(deps):
                    r, suf = p[0], p[1:]
                    if r == "self":
                        if len(suf) >= 1 and (suf[0] in consts or suf[0] in by_name or suf[0] == t.value.attr):
                            continue
                        missing.append(".".join(p))
                        continue
                    ks = [k[1:] for k in kp if k[0] == r]
                    covered = False
                    for k in ks:
                        if suf[: len(k)] == k:  # the key holds the object itself or an ancestor of what is used
                            covered = True
                        elif k[: len(suf)] == suf and len(k) == len(suf) + 1 and k[-1] in LOSSLESS_ATTRS:
                            covered = True  # the key holds an identifying attribute of the object used
                    if not covered:
                        missing.append(".".join(p) + (" (key has only %s)" % ", ".join(".".join((r,) + k) for k in ks) if ks else ""))
                obs.append(req_ob("R-MEMO", msite, "the memo self.%s is completely keyed: the stored value depends only on what the key determines" % t.value.attr, not missing,
                                  detail="value also depends on %s" % "; ".join(missing) if missing else None, key={"state": t.value.attr}))
    return obs


def fft_wrapper_obligations(P):
    m = P.module("bldfm.fft_manager")
    c = m.classes.get("FFTManager")
    site = "src/bldfm/fft_manager.py::FFTManager"
    if c is None:
        return [req_ob("R-NOSTATE", site, "FFTManager exists", None)]
    obs = []
    for name in ("fft2", "ifft2"):
        if not any(isinstance(n, ast.FunctionDef) and n.name == name for n in c.body):
            obs.append(req_ob("R-NOSTATE", site + "." + name, "transform method exists", None))
    obs.extend(instance_memo_obligations(P, m, c, site))
    return obs


def purity_runs(P):
    """semantic part: thread-count branches and precision leave every output normal form unchanged; arguments are not mutated"""
    obs = []
    SA = RS.SolverAnalysis(P)
    for fp in (False, True):
        S, res = SA.run(fp, False, "generic")
        rets = [r for r in res if r.kind == "return"]
        if rets and all(any(d[0].startswith("unknown test") for d in r.path) for r in rets):
            raise AnalysisError("every returning path of the solver rests on a test that is not modelled (footprint=%s)" % fp)
        rets = [r for r in rets if not any(d[0].startswith("unknown test") for d in r.path)]
        tower = {RS.atom_of(S.xm), RS.atom_of(S.ym)}
        general = [r for r in rets if not RS.special_atoms(r, tower)]  # special-case paths (an input quantity vanishes) are R-PATHS' matter
        if general:
            rets = general
        th = alg.sym("bldfm.config.NUM_THREADS") - ONE
        groups = {}
        for r in rets:
            v = RS.PathView(S, r)
            p = r.facts.possible(th)
            side = "many" if p <= {"+"} else "one" if p <= {"-", "0"} else "?"
            k = (v.clamp_state(), v.shifted())
            groups.setdefault(k, {})[side] = v
        site = "src/bldfm/solver.py::steady_state_transport_solver::thread set-up (footprint=%s)" % fp
        npairs = 0
        for k, g in groups.items():
            if "one" in g and "many" in g:
                npairs += 1
                for nm in ("conc", "flx"):
                    a, b = g["one"].coeff(nm), g["many"].coeff(nm)
                    obs.append(eq_ob("R-PURE", site, "%s is the same function of the arguments for one and for several numerical threads (path %s)" % (nm, k), b, a, key={"out": nm}))
                    sa, sb = g["one"].fields[nm]["synth"], g["many"].fields[nm]["synth"]
                    obs.append(req_ob("R-PURE", site, "%s passes the same output transform for both thread settings (path %s)" % (nm, k), sa["dir"] == sb["dir"] and sa["scale"].eq(sb["scale"])))
        if npairs == 0:
            unaffected = all("?" in g for g in groups.values())
            obs.append(req_ob("R-PURE", site, "the thread count does not select between different computations", unaffected, detail="no pair of paths differing in the thread count was found" if not unaffected else None))
        # precision
        import props_solver as _psv
        if fp is False:
            obs.extend(_psv.partition_obs(SA))
        S2, res2 = SA.run(fp, False, "generic", precision="single")
        r1 = [RS.PathView(S, r) for r in rets]
        res2g = [r for r in res2 if r.kind == "return" and not any(d[0].startswith("unknown test") for d in r.path)]
        if any(not RS.special_atoms(r, tower) for r in res2g):
            res2g = [r for r in res2g if not RS.special_atoms(r, tower)]
        r2 = [RS.PathView(S2, r) for r in res2g]
        site = "src/bldfm/solver.py::steady_state_transport_solver::precision (footprint=%s)" % fp
        obs.append(req_ob("R-PREC", site, "both precisions have the same set of paths", len(r1) == len(r2)))
        narrow = {}
        for r in res2:
            for e in r.events:
                if e[0] == "narrowing-cast":
                    narrow.setdefault((e[1], e[2]), True)
        obs.append(req_ob("R-PREC", site, "single precision narrows only the stores into the output spectra: no intermediate quantity (wavenumbers, phases, propagators) is cast down before it is used",
                          not narrow, detail="; ".join("%s %s" % k for k in sorted(narrow)[:3]) or None, key={"clause": "narrowing"}))
        for a in r1:
            for b in r2:
                if a.clamp_state() == b.clamp_state() and a.shifted() == b.shifted() and a.r.facts.possible(th) == b.r.facts.possible(th):
                    for nm in ("conc", "flx"):
                        obs.append(eq_ob("R-PREC", site, "%s: single precision computes the same normal form as double (storage type only)" % nm, b.coeff(nm), a.coeff(nm), key={"out": nm}))
                        sa, sb = getattr(a, nm), getattr(b, nm)
                        ok = sa.shape is not None and sb.shape is not None and len(sa.shape) == len(sb.shape) and all(x.eq(y) for x, y in zip(sa.shape, sb.shape))
                        obs.append(req_ob("R-PREC", site, "%s: same shape in both precisions" % nm, ok))
                    break
        # invalid precision raises
        S3, res3 = SA.run(fp, False, "generic", precision="quad")
        obs.append(req_ob("R-PREC", site, "an unknown precision is rejected", bool(res3) and all(r.kind == "raise" for r in res3)))
        for r in rets:
            mut = [e for e in r.events if e[0] == "param-mutation"]
            obs.append(req_ob("R-PURE", "src/bldfm/solver.py::steady_state_transport_solver (footprint=%s)" % fp, "no argument array is modified in place", not mut, detail=str(mut[:2]) if mut else None))
    obs.extend(SA.fault_obs())
    return obs, SA


def solve_state_obligations(P):
    """R-STATE / R-MEMO over the call graph rooted at the solver: what one solve can leave behind for the next"""
    out = []
    m = P.module("bldfm.solver")
    G = CallGraph(P, [(m, P.function("bldfm.solver", "steady_state_transport_solver"), None)])
    state, reads, writes = state_accesses(P, G)
    memo = memo_obligations(P, G)
    keyed_ok = {}
    for o in memo:
        keyed_ok.setdefault(o.key.get("state"), []).append(o.verdict == "holds")
    seen = set()
    for (st, modname, fname, line) in reads + writes:
        if (st, modname, fname) in seen:
            continue
        seen.add((st, modname, fname))
        ok = st in ALLOWED_STATE
        if not ok and state.get(st) == "container" and keyed_ok.get(st[1]) and all(keyed_ok[st[1]]):
            out.append(req_ob("R-STATE", "src/%s.py::%s" % (modname.replace(".", "/"), fname), "module state %s.%s is a completely keyed memo (accepted; see R-MEMO)" % st, True, key={"state": "%s.%s" % st}))
            continue
        out.append(req_ob("R-STATE", "src/%s.py::%s" % (modname.replace(".", "/"), fname), "module state %s.%s accessed on the solve path is a confirmed, value-neutral instance" % st, ok,
                          detail=ALLOWED_STATE.get(st) if ok else "new module-level state on the solve path: a later solve can observe an earlier one unless the state is completely keyed (see R-MEMO)", key={"state": "%s.%s" % st}))
    out.extend(memo)
    out.extend(mutable_default_obligations(P, G))
    return out, G


def check_C12(P, tier):
    R = Result("C12", tier)
    R.min_obligations = 30
    R.explanation = ("Effect analysis over the call graph rooted at the solver (solver, ivp_solver, the parallelize wrapper, the FFT layer): (R-STATE) every read or "
                     "write of module-level mutable state on the solve path is enumerated and must be one of the two confirmed instances (config.NUM_THREADS, the "
                     "FFT-manager singleton); (R-PURE) the abstract runs that differ only in the thread-count decision yield identical normal forms and output "
                     "transforms, and no argument array is stored into; (R-MEMO) for every keyed store into module-level or closure state, the stored value's "
                     "dependences are contained in the key's dependences (so a correct memo is accepted and an under-keyed one reported); (R-NOSTATE) the FFT "
                     "transform methods read no instance state; (R-PREC) 'single' and 'double' compute the same normal forms with the same shapes and any other "
                     "value raises. Bit-identity, the 1e-12/1e-5 agreement and FFTW planner effects are rounding/runtime clauses and are not decided.")
    R.trusted = [TRUST12]
    obs, G = solve_state_obligations(P)
    R.add(obs)
    state = module_state(P)
    # module-level containers written on the path but never keyed (plain global lists etc.) are caught by R-STATE; keyed ones by R-MEMO
    R.add(fft_wrapper_obligations(P))
    R.add(thread_flow_obligations(P, G))
    try:
        o, SA = purity_runs(P)
        R.add(o)
    except (AnalysisError, TypeError, AttributeError, KeyError, ValueError, IndexError) as e:
        SA = RS.SolverAnalysis(P)
        R.add(req_ob("R-PURE", "src/bldfm/solver.py::steady_state_transport_solver", "the solver can be interpreted abstractly for the thread/precision comparison", None, detail=str(e)))
    # the decorator forwards its arguments unchanged
    mu = P.module("bldfm.utils")
    par = mu.functions.get("parallelize")
    site = "src/bldfm/utils.py::parallelize"
    if par is None:
        R.add(req_ob("R-PURE", site, "parallelize exists", None))
    else:
        wr = [n for n in par.body if isinstance(n, ast.FunctionDef)]
        ok = False
        if len(wr) == 1:
            w = wr[0]
            rets = [n for n in ast.walk(w) if isinstance(n, ast.Return) and n.value is not None]
            va, kw = (w.args.vararg.arg if w.args.vararg else None), (w.args.kwarg.arg if w.args.kwarg else None)
            ok = bool(rets) and all(isinstance(r.value, ast.Call) and [ast.unparse(a) for a in r.value.args] == ["*" + str(va)] and [ast.unparse(k.value) for k in r.value.keywords] == [str(kw)] for r in rets)
            jit = [n for n in ast.walk(w) if isinstance(n, ast.Call) and isinstance(n.func, ast.Call) and (dotted_name(n.func.func) or "").endswith("jit")]
            ok = ok and bool(jit) and all(len(j.args) == 1 and isinstance(j.args[0], ast.Name) and j.args[0].id == par.args.args[0].arg for j in jit)
        R.add(req_ob("R-PURE", site, "the wrapper calls a compilation of the decorated function itself with the caller's arguments unchanged", ok))
    R.analysed = {"files": sorted({"src/%s.py" % k[0].replace(".", "/") for k in G.order}), "functions": sorted({k[2] for k in G.order}), "paths": SA.nruns,
                  "module_state": {"%s.%s" % k: v for k, v in state.items()}, "call_graph_size": len(G.order)}
    return R, "effect / memo-key analysis over the solver's call graph; semantic equality of thread/precision variants"


# --------------------------------------------------------------------------
# C14 drivers

from interp import GenList, PyList, Unknown, has_unknown
import props_wiring as pw


def _ideal_source_stub(P):
    """ideal_source(...) as the value 'the ideal source for these bound arguments' (bound through the callee's own signature)"""
    mod = P.module("bldfm.utils")
    fn = P.function("bldfm.utils", "ideal_source")

    def stub(I, args, kwargs, node):
        try:
            bound = I.bind(mod, fn, list(args), dict(kwargs))
        except AnalysisError:
            return Unknown("ideal_source with arguments that cannot be bound")
        return Opaque("ideal_source", {"bound": bound})

    return stub


def _same_source_as_single(cfg, flux):
    """is this the source run_bldfm_single builds for itself when it is handed none (S-WIRE: nxy = (nx, ny), domain =
    (xmax, ymax), src_loc and shape from config.solver)?  -> True | False | None"""
    b = flux.attrs.get("bound") if isinstance(flux, Opaque) else None
    if not isinstance(b, dict):
        return None
    dom, sol = cfg.attrs["domain"].attrs, cfg.attrs["solver"].attrs
    want = {"nxy": Tup([dom["nx"], dom["ny"]]), "domain": Tup([dom["xmax"], dom["ymax"]]), "src_loc": sol["src_loc"], "shape": sol["surface_flux_shape"]}
    import props_wiring as pw

    for k, w in want.items():
        if k not in b:
            return None
        if has_unknown(b[k]):
            return None
        if not pw.same_value(b[k], w):
            return False
    return set(b) <= set(want) or None


def _step_values(I, cfg, index, node=None):
    """what a single run reads from the forcing: the values of MetConfig.get_step(index) of that configuration, as interpreted
    from the source (so a one-step copy of the forcing that stands for step i is the same run as step i of the series)"""
    met = cfg.attrs.get("met") if isinstance(cfg, Opaque) else None
    if not isinstance(met, Opaque):
        return None
    saved_depth = I.depth
    I.depth = 0  # (the stub stands where the callee's own call stack would begin)
    try:
        f = I.getattr(met, "get_step", node)
        step = I.call(f, [index], {}, node, {})
    except AnalysisError:
        return None
    finally:
        I.depth = saved_depth
    if not (isinstance(step, Tup) and step.kind == "dict"):
        return None
    out = []
    for k, v in sorted(((k, v) for k, v in step.items if isinstance(k, str)), key=lambda kv: kv[0]):
        out.append(k)
        out.append(v if isinstance(v, Expr) else "none" if v is None else Unknown("step value %s" % k))
    return out


def _rest_of_config(cfg):
    """the parts of a configuration other than the forcing (identity of the objects: a replaced copy shares them)"""
    return tuple(id(v) for k, v in sorted(cfg.attrs.items()) if k not in ("met", "__class__", "__replaced_from__")) if isinstance(cfg, Opaque) else None


def _single_stub(log, cfg=None):
    def stub(I, args, kwargs, node):
        names = ["config", "tower", "met_index", "surface_flux", "cache"]
        b = dict(zip(names, args))
        b.update(kwargs)
        b.setdefault("met_index", ZERO)
        b.setdefault("surface_flux", None)
        b.setdefault("cache", None)
        log.append((b, I.seq, list(I.events), [c[0] for c in I.calls]))
        t = b["tower"]
        for role, obj, cls in (("config", b["config"], "BLDFMConfig"), ("tower", t, "TowerConfig")):
            oc = obj.attrs.get("__class__") if isinstance(obj, Opaque) else None
            if oc is not None and oc[1].name != cls and oc[1].name in ("BLDFMConfig", "TowerConfig", "DomainConfig", "MetConfig", "SolverConfig"):
                import interp as _I
                raise _I.raise_exc("AttributeError", node, "run_bldfm_single is handed a %s as its %s" % (oc[1].name, role))
        tn = t.attrs["name"] if isinstance(t, Opaque) and "name" in t.attrs else alg.sym("?tower")
        flux = b["surface_flux"]
        if flux is None:
            fx = alg.sym("no_flux")
        elif isinstance(flux, Expr):
            fx = flux
        elif (isinstance(flux, Arr) and isinstance(b.get("config"), Opaque) and b["config"].attrs["solver"].attrs.get("footprint") is True and flux.shape is not None and len(flux.shape) == 2
              and flux.shape[0].eq(b["config"].attrs["domain"].attrs["ny"]) and flux.shape[1].eq(b["config"].attrs["domain"].attrs["nx"])):
            fx = alg.sym("no_flux")  # footprint mode reads only the shape of the field: any field on the configured grid gives the same run
        else:
            same = _same_source_as_single(b["config"], flux) if isinstance(b.get("config"), Opaque) else None
            if same is None:
                return Unknown("a single run with a surface flux the driver built itself (%r)" % (flux,))
            # the source single would build for itself, or definitely another one
            fx = alg.sym("no_flux") if same else alg.sym("another source than the configured one")
        c = b["cache"]
        cx = alg.sym("cache:%s" % (c.name if isinstance(c, Opaque) else repr(c)))
        mi = b["met_index"] if isinstance(b["met_index"], Expr) else alg.sym("?index")
        sv = _step_values(I, b.get("config"), mi, node)
        if sv is None or any(isinstance(x, Unknown) for x in sv):
            return Unknown("a single run whose forcing step cannot be read (%r)" % (b.get("config"),))
        return alg.fn("single", tn, fx, cx, *sv)

    return stub


def _driver_config(P, use_cache=False, z0=False):
    # (z0=True: the full forcing - a configured roughness length and free-form time labels, which then stand in the results' "timestamp")
    ov = {"config.parallel.use_cache": use_cache, "config.solver.footprint": True,
          "config.met.timestamps": PyList("config.met.timestamps", length=alg.sym("n_steps", pos=True, integer=True)) if z0 else None}
    for f in ("ustar", "mol", "wind_speed", "wind_dir"):
        ov["config.met." + f] = PyList("config.met." + f, length=alg.sym("n_steps", pos=True, integer=True))
    # (a configured roughness length is part of every step's forcing: a one-step copy that leaves it behind is another run)
    ov["config.met.z0"] = alg.sym("z0_configured", pos=True) if z0 else None
    return CM.make_obj(P, "BLDFMConfig", "config", ov)


def _unk(pred, v):
    """a failed comparison on a value the interpreter could not model completely is 'uninterpretable', not a violation"""
    ok, why = pred(v)
    if not ok and has_unknown(v):
        return None, "not modelled: " + str(why)
    return ok, why


def _expect_series(tower, nsteps, flux, cache_name, cfg=None, P=None):
    """predicate: value is [single(tower, forcing of step i, flux, cache) for i in range(n_steps)]"""
    def step_sig(i):
        import props_wiring as pw

        res = pw._run_method(P, "MetConfig", "get_step", cfg.attrs["met"], [i])
        rets = [r for r in res if r.kind == "return"]
        if len(res) != 1 or len(rets) != 1 or not (isinstance(rets[0].value, Tup) and rets[0].value.kind == "dict"):
            return None
        out = []
        for k, v in sorted(((k, v) for k, v in rets[0].value.items if isinstance(k, str)), key=lambda kv: kv[0]):
            out.append(k)
            out.append(v if isinstance(v, Expr) else "none")
        return out

    def check(v):
        if not (isinstance(v, Tup) and v.kind == "list" and len(v.items) == 1 and isinstance(v.items[0], GenList)):
            return False, "not a list generated over the time steps: %s" % repr(v)[:200]
        g = v.items[0]
        if not g.rng.count.eq(nsteps):
            return False, "steps run over range(%r, %r, %r)" % (g.rng.start, g.rng.stop, g.rng.step)
        # the k-th element (k = 0 .. n_steps-1, whatever the loop variable is called or where it starts) must be step k
        i = alg.atom_expr(g.ivar)
        sig = step_sig(i)
        if sig is None:
            return False, "the forcing of a step cannot be read from MetConfig.get_step"
        want = alg.fn("single", tower.attrs["name"], flux if isinstance(flux, Expr) else alg.sym("no_flux"), alg.sym("cache:%s" % cache_name), *sig)
        if not (isinstance(g.elem, Expr) and g.elem.eq(want)):
            return False, "element is %s, expected %s" % (repr(g.elem)[:200], want)
        return True, None

    return check


def step_state_obligations(res, site, tag):
    """R-STEP-INDEP: a mapping that the step loop both fills and consults carries state from one step to the next; that is only harmless
    when its key names the step (contains the loop index itself), otherwise a step can be answered with another step's result"""
    obs = []
    n = 0
    for r in res:
        reads = {e[2][1] for e in r.events if e[0] == "loop-dict-read"}
        for e in r.events:
            if e[0] != "loop-dict-store" or e[2][3] not in reads:
                continue
            key, val, L = e[2][0], e[2][1], e[2][2]
            comps = key.items if isinstance(key, Tup) else [key]
            iv = alg.atom_expr(L.ivar)
            names = False
            for c in comps:
                if isinstance(c, Expr):
                    try:
                        d = c.diff(L.ivar)
                    except Exception:
                        d = None
                    if d is not None and d.as_const() is not None and d.as_const() != 0:
                        names = True
            n += 1
            obs.append(req_ob("R-STEP-INDEP", site, "a mapping filled and consulted inside the step loop is keyed by the step itself (%s)" % tag, names,
                              detail=None if names else "line %s: the key %s does not contain the loop index, so a later step with an equal key is answered from an earlier step's entry" % (getattr(e[1], "lineno", "?") if not isinstance(e[1], int) else e[1], repr(key)[:160]),
                              key={"driver": tag}))
    if n == 0:
        obs.append(req_ob("R-STEP-INDEP", site, "no mapping is both filled and consulted inside a step loop: steps share no state (%s)" % tag, True))
    return obs


def driver_obligations(P):
    obs = []
    nsteps = alg.sym("n_steps", pos=True, integer=True)
    site_ts = "src/bldfm/interface.py::run_bldfm_timeseries"
    for use_cache, flux, full in ((False, alg.sym("user_flux"), False), (True, alg.sym("user_flux"), False), (False, None, False), (True, alg.sym("user_flux"), True)):
        cfg = _driver_config(P, use_cache, z0=full)
        tower = cfg.attrs["towers"].items[0]
        log = []
        res = CM.run_paths(P, "bldfm.interface", "run_bldfm_timeseries", [cfg, tower], {"surface_flux": flux}, stubs={"bldfm.interface.run_bldfm_single": _single_stub(log), "bldfm.utils.ideal_source": _ideal_source_stub(P)})
        rets = [r for r in res if r.kind == "return"]
        ok1 = len(res) == 1 and len(rets) == 1
        fl_tag = ("" if flux is not None else ", no flux supplied") + (", roughness length and time labels configured" if full else "")
        obs.extend(step_state_obligations(res, site_ts, "timeseries, use_cache=%s%s" % (use_cache, fl_tag)))
        obs.append(req_ob("R-SERIAL", site_ts, "one straight path (use_cache=%s%s)" % (use_cache, fl_tag), ok1, detail=str([(r.kind, r.raise_desc, r.path) for r in res])[:300]))
        if ok1:
            cname = "None" if not use_cache else "bldfm.cache.GreensFunctionCache"
            ok, why = _unk(_expect_series(tower, nsteps, flux, cname, cfg, P), rets[0].value)
            obs.append(req_ob("R-SERIAL", site_ts, "returns the single runs of this tower for met_index = 0..n_timesteps-1, in time order, with %s (use_cache=%s)" % (
                "the supplied flux" if flux is not None else "the source each single run builds for itself from the configuration when none is supplied", "%s%s" % (use_cache, fl_tag)), ok, detail=why, key={"driver": "timeseries", "flux": flux is not None}))
            cfgs = [(b["config"] is cfg or _rest_of_config(b["config"]) == _rest_of_config(cfg)) and b["tower"] is tower for b, _, _, _ in log]
            obs.append(req_ob("R-SERIAL", site_ts, "every single run gets the driver's own configuration and tower (use_cache=%s%s)" % (use_cache, fl_tag), bool(cfgs) and all(cfgs)))
    # multitower
    site_mt = "src/bldfm/interface.py::run_bldfm_multitower"
    for flux, full in ((alg.sym("user_flux"), False), (None, False), (alg.sym("user_flux"), True)):
        cfg = _driver_config(P, z0=full)
        log = []
        res = CM.run_paths(P, "bldfm.interface", "run_bldfm_multitower", [cfg], {"surface_flux": flux}, stubs={"bldfm.interface.run_bldfm_single": _single_stub(log), "bldfm.utils.ideal_source": _ideal_source_stub(P)})
        rets = [r for r in res if r.kind == "return"]
        ok1 = len(res) == 1 and len(rets) == 1 and isinstance(rets[0].value, Tup) and rets[0].value.kind == "dict"
        fl_tag = ("" if flux is not None else " (no flux supplied)") + (" (roughness length and time labels configured)" if full else "")
        obs.extend(step_state_obligations(res, site_mt, "multitower" + fl_tag))
        obs.append(req_ob("R-SERIAL", site_mt, "returns a mapping" + fl_tag, ok1))
        towers = cfg.attrs["towers"].items
        if ok1:
            items = rets[0].value.items
            okk = len(items) == len(towers) and all(pw.same_value(k, t.attrs["name"]) for (k, _), t in zip(items, towers))
            obs.append(req_ob("R-SERIAL", site_mt, "results are keyed by tower name in configuration order" + fl_tag, okk, detail=repr([k for k, _ in items])[:200]))
            for (k, v), t in zip(items, towers):
                ok, why = _unk(_expect_series(t, nsteps, flux, "None", cfg, P), v)
                obs.append(req_ob("R-SERIAL", site_mt, "each entry is the time series of its own tower" + fl_tag, ok, detail=why, key={"driver": "multitower", "flux": flux is not None}))
    # parallel
    site_p = "src/bldfm/interface.py::run_bldfm_parallel"
    for strategy, with_z0 in (("towers", False), ("time", False), ("both", False), ("towers", True), ("time", True), ("both", True)):
        cfg = _driver_config(P, z0=with_z0)
        stag = repr(strategy) + (" (roughness length and time labels configured)" if with_z0 else "")
        towers = cfg.attrs["towers"].items
        log = []
        pool_calls = []
        chunk_checks = []

        def executor(I, args, kwargs, node):
            return Opaque("pool", {"max_workers": kwargs.get("max_workers", args[0] if args else None)})

        def at_least_one(I, c):
            """c >= 1 on this path?  -> True | False (a value below one is possible) | None"""
            if not isinstance(c, Expr):
                return None
            e = (c - ONE).expand()
            if I.facts.possible(e) <= {"0", "+"}:
                return True
            for a in e.top_atoms():
                if a.kind == "fn" and a.name == "max" and e.coeff_of(a, 1).eq(ONE):
                    rest = e - alg.atom_expr(a)
                    if any(isinstance(x, Expr) and I.facts.possible((rest + x).expand()) <= {"0", "+"} for x in a.args):
                        return True  # max(..., x, ...) >= x
            ce = c.expand()
            tops = list(ce.top_atoms())
            if len(tops) == 1 and tops[0].kind == "fn" and tops[0].name == "floordiv" and ce.eq(alg.atom_expr(tops[0])):
                num, den = tops[0].args
                if I.facts.possible((den - num).expand()) >= {"+"}:
                    return False  # a quotient rounded down is zero as soon as the divisor exceeds the dividend, which nothing excludes
            return None

        def pool_map(I, args, kwargs, node):
            f, tasks = args[0], args[1]
            pool_calls.append(("map", f))
            if isinstance(f, (Tup, GenList, PyList)) or (isinstance(f, Expr)):
                import interp as _I
                raise _I.raise_exc("TypeError", node, "Executor.map is handed %r as the function to call" % (f,))
            if kwargs.get("chunksize") is not None:
                chunk_checks.append((at_least_one(I, kwargs["chunksize"]), repr(kwargs["chunksize"])[:80], node.lineno))
            if not isinstance(tasks, Tup):
                return Unknown("map over %r" % (tasks,))
            out = []
            for t in tasks.items:
                if isinstance(t, GenList) and isinstance(t.elem, Tup) and t.elem.kind == "group":
                    out.append(GenList(Tup([I.call(f, [e], {}, node, {}) for e in t.elem.items], "group"), t.ivar, t.rng))
                elif isinstance(t, GenList):
                    out.append(GenList(I.call(f, [t.elem], {}, node, {}), t.ivar, t.rng))
                else:
                    out.append(I.call(f, [t], {}, node, {}))
            return Tup(out, "iterator")  # Executor.map hands back a one-shot iterator over the results, in task order

        def submit(I, args, kwargs, node):
            # Executor.submit(f, *args): the call happens in a worker; the Future carries its value
            pool_calls.append(("submit", args[0] if args else None))
            if not args:
                return Unknown("submit without a function")
            return Opaque("future", {"value": I.call(args[0], list(args[1:]), dict(kwargs), node, {})})

        def future_result(I, args, kwargs, node):
            f = I.cur_callee.bound
            if isinstance(f, Opaque) and f.name == "future":
                return f.attrs["value"]
            return Unknown("result of %r" % (f,))

        def vsubst(v, mp):
            if isinstance(v, Expr):
                return v.subs(mp)
            if isinstance(v, Opaque):
                return Opaque(v.name, {k: (x if k == "__class__" else vsubst(x, mp)) for k, x in v.attrs.items()})
            if isinstance(v, Tup):
                return Tup([(vsubst(x[0], mp), vsubst(x[1], mp)) if isinstance(x, tuple) else vsubst(x, mp) for x in v.items], v.kind)
            return v

        def completion_order(name):
            def stub(I, args, kwargs, node):
                # the order in which workers finish is not a function of the inputs: the k-th future handed out is the one submitted
                # at position perm(k), for a permutation nothing is known about
                pool_calls.append((name, None))
                fs = args[0] if args else None
                if name == "as_completed" and isinstance(fs, Tup) and len(fs.items) == 1 and isinstance(fs.items[0], GenList):
                    g = fs.items[0]
                    perm = alg.fn("completion_order@%d" % node.lineno, alg.atom_expr(g.ivar), integer=True)
                    return Tup([GenList(vsubst(g.elem, {g.ivar: perm}), g.ivar, g.rng)], "list")
                if name == "as_completed" and isinstance(fs, Tup) and fs.kind in ("list", "tuple") and not any(isinstance(x, GenList) for x in fs.items):
                    if len(fs.items) < 2:
                        return Tup(list(fs.items), "list")
                    # two of the possible schedules are followed: submission order and its reverse
                    if I.decide("the workers finish in submission order (as_completed at line %d)" % node.lineno):
                        return Tup(list(fs.items), "list")
                    return Tup(list(reversed(fs.items)), "list")
                return Unknown("futures in completion order (%s)" % name)
            return stub

        stubs = {"bldfm.interface.run_bldfm_single": _single_stub(log), "bldfm.utils.ideal_source": _ideal_source_stub(P), "concurrent.futures.ProcessPoolExecutor": executor,
                 "concurrent.futures.ThreadPoolExecutor": executor, "pool.map": pool_map, "pool.submit": submit, "future.result": future_result,
                 "concurrent.futures.as_completed": completion_order("as_completed"), "concurrent.futures.wait": completion_order("wait")}
        res = CM.run_paths(P, "bldfm.interface", "run_bldfm_parallel", [cfg], {"max_workers": alg.sym("workers", pos=True, integer=True), "parallel_over": strategy}, stubs=stubs)
        rets = [r for r in res if r.kind == "return"]
        okp = bool(rets) and len(res) == len(rets) and all(isinstance(r.value, Tup) and r.value.kind == "dict" for r in rets)
        obs.extend(step_state_obligations(res, site_p, "parallel over %s" % stag))
        obs.append(req_ob("R-ORDERED", site_p, "strategy %s returns a mapping on every path (one per schedule followed)" % stag, okp, detail=str([(r.kind, r.raise_desc) for r in res])[:200]))
        for okc, what, line in chunk_checks:
            obs.append(req_ob("R-ORDERED", site_p, "strategy %s: the chunk size handed to Executor.map is at least one for every worker count and task count (a smaller one makes map raise)" % stag, okc,
                              detail=None if okc else "line %s: chunksize = %s can be below one (more workers than tasks)" % (line, what)))
        used_pool = any(k in ("map", "submit") for k, _ in pool_calls)
        obs.append(req_ob("R-ORDERED", site_p, "strategy %s distributes work through the executor (Executor.map keeps task order, a Future carries its own task's result; completion order is an unknown sequence)" % stag, used_pool, detail=str(sorted({k for k, _ in pool_calls}))))
        for ret in (rets if okp else []):
            sched = "; ".join("%s=%s" % (d, c) for d, c in ret.path if "finish in submission order" in d)
            sched = " [%s]" % sched if sched else ""
            items = ret.value.items
            okk = len(items) == len(towers) and all(pw.same_value(k, t.attrs["name"]) for (k, _), t in zip(items, towers))
            if not okk and has_unknown(ret.value):
                okk = None
            obs.append(req_ob("R-ORDERED", site_p, "strategy %s: results keyed by tower name in configuration order" % stag, okk, detail=repr([k for k, _ in items])[:200] + sched))
            for (k, v), t in zip(items, towers):
                ok, why = _unk(_expect_series(t, nsteps, None, "None", cfg, P), v)
                obs.append(req_ob("R-ORDERED", site_p, "strategy %s: the entry of a tower is the time-ordered list of its own single runs" % stag, ok, detail=(why or "") + sched if why else None, key={"strategy": strategy}))
            mis = [e for e in ret.events if e[0] == "misaligned-slice"]
            obs.append(req_ob("R-ORDERED", site_p, "strategy %s: flat results are re-assembled at the task boundaries" % stag, not mis, detail=str(mis[:1]) if mis else None))
            frag = [e for e in ret.events if e[0] in ("fragile-partition", "partition-gap")]
            obs.append(req_ob("R-ORDERED", site_p, "strategy %s: work split into blocks covers every task exactly once (cut points computed exactly, first block starts at 0, last block ends at the number of tasks)" % stag,
                              not frag, detail="; ".join("line %s: %s" % (e[1], e[2]) for e in frag[:1]) or None, key={"strategy": strategy, "clause": "partition"}))
        # R-RESET: before each worker's solve the thread count is one and the FFT singleton is dropped
        for b, seq, events, calls in log:
            set1 = [e for e in events if e[0] == "attr-store" and e[2][1] == "NUM_THREADS" and isinstance(e[2][2], Expr) and e[2][2].eq(ONE)]
            reset = [c for c in calls if c.endswith("reset_fft_manager")]
            obs.append(req_ob("R-RESET", "src/bldfm/interface.py::worker (strategy %s)" % stag, "the worker sets the runtime thread count to one and drops the inherited FFT manager before solving", bool(set1) and bool(reset),
                              detail=None if set1 and reset else "NUM_THREADS=1: %s, reset_fft_manager: %s" % (bool(set1), bool(reset)), key={"strategy": strategy}))
    # unknown strategy raises
    cfg = _driver_config(P)
    res = CM.run_paths(P, "bldfm.interface", "run_bldfm_parallel", [cfg], {"max_workers": ONE, "parallel_over": "nonsense"}, stubs={"bldfm.interface.run_bldfm_single": _single_stub([])})
    obs.append(req_ob("R-ORDERED", site_p, "an unknown strategy is rejected", bool(res) and all(r.kind == "raise" for r in res)))
    return obs


def check_C14(P, tier):
    import props_cache as pc

    R = Result("C14", tier)
    R.min_obligations = 30
    R.explanation = ("The drivers are interpreted abstractly with run_bldfm_single replaced by an opaque function single(tower, met_index, flux, cache), lists built in "
                     "range loops represented by their generic element, and Executor.map given its contract (results in task order): run_bldfm_timeseries must return "
                     "[single(tower, i) for i in range(n_timesteps)] with the supplied flux and the per-series cache; run_bldfm_multitower a mapping keyed by tower name "
                     "in configuration order whose entries are those series; each parallel strategy ('towers', 'time', 'both') must use only Executor.map (no submit / "
                     "as_completed), hand each worker a task tuple that the worker unpacks into the same (config, tower, met_index) call, and re-assemble the flat "
                     "result list exactly at the task boundaries; every worker sets NUM_THREADS=1 and drops the FFT singleton before solving; a cache is attached only "
                     "in footprint mode with caching on, and - because the statement covers caching switched on - the cache's key-completeness, same-key, hit and freshness rules of C15 are "
                     "included as necessary conditions. (R-STEP-INDEP) a mapping filled and consulted inside a step loop must be keyed by the step. Actual completion orders are covered by the map contract (trusted), not explored.")
    R.trusted = ["concurrent.futures.Executor.map returns results in the order of its input regardless of completion order", "dict preserves insertion order", TRUST12]
    R.add(driver_obligations(P))
    R.add(pc.make_cache_obligation(P))
    # "with result caching switched on or off": the series shares one cache between its single runs, so the drivers equal
    # the single runs only if the cache is transparent (C15's key and hit rules are necessary conditions here)
    R.add(pc.solver_cache_obligations(P))
    R.add(pc.cache_entry_obligations(P))
    R.add([o for o in pw.range_steps_obligations(P)])
    R.add(pw.scratch_memo_obligations(P))
    R.add(pw.interface_memo_obligations(P))
    R.analysed = {"files": ["src/bldfm/interface.py", "src/bldfm/cli.py"], "functions": ["run_bldfm_timeseries", "run_bldfm_multitower", "run_bldfm_parallel", "_worker_single", "_worker_timeseries", "_make_cache", "cmd_run"], "paths": 8}
    return R, "ordered-executor contract, generic-element list semantics, positional re-assembly, worker tuples"
