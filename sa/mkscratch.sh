#!/bin/bash
# usage: mkscratch.sh <diff> <dir> : scratch copy of /repo's sources with a diff applied (remove it yourself afterwards)
rm -rf "$2"; mkdir -p "$2"; cp -r /repo/src /repo/tests /repo/runs /repo/examples "$2"/ 2>/dev/null
cd "$2" && patch -s -p1 < "$1"
