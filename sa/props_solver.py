"""Property checks that are decided on the abstract solver runs."""

import alg
from alg import Expr, ZERO, ONE, IMAG
from interp import Arr, Unknown, BOT, psum, IOTA
from front import AnalysisError
from report import Result, Ob, eq_ob, req_ob
import rules_solver as RS
from rules_solver import SolverAnalysis, views, pick, atom_of
from solver_model import run_solver

TRUST_NUMPY = "S-NUMPY: documented semantics of the numpy/pyfftw calls on the analysed paths (fft2/ifft2 direction and norm, fftshift/ifftshift, fftfreq, meshgrid, pad, linspace, diff, unique, boolean-mask indexing)"
TRUST_ALG = "the checker's exact algebra (rational functions over Q[i], equality by clearing denominators) and its abstract interpreter"


def solver_check(fn):
    """run a check with a fresh SolverAnalysis; a path that divides by an
    identically zero quantity is reported as a violation, not as an analysis error"""

    def wrapper(P, tier):
        SA = SolverAnalysis(P)
        holder = {}
        try:
            R, tech = fn(P, tier, SA, holder)
        except RS.NoPath as e:
            if "R" not in holder:
                raise
            R, tech = holder["R"], holder.get("tech", "abstract interpretation")
            if not SA.faults and not any(o.verdict == "differs" for o in grid_obs(SA)):
                R.add(req_ob("R-INTERP", "src/bldfm/solver.py::steady_state_transport_solver", "the property's own rules can be evaluated on the abstract solver runs", None, detail=str(e)))
        except (AnalysisError, IndexError, AttributeError, KeyError) as e:
            if not isinstance(e, AnalysisError):
                e = AnalysisError("a returning path lacks the structure the rule is stated on (%s: %s)" % (type(e).__name__, e))
            # the property's own rules could not be evaluated; the structural rules shared by all solver properties
            # (module state, FFT wrapper state, argument mutation, dtype / index discipline) are still decided, so a
            # definite defect among them is reported as such and the rest as an analysis gap
            if "R" not in holder:
                raise
            R, tech = holder["R"], holder.get("tech", "abstract interpretation")
            R.add(req_ob("R-INTERP", "src/bldfm/solver.py::steady_state_transport_solver", "the property's own rules can be evaluated on the abstract solver runs", None, detail=str(e)))
        # safety net: if some returned field of some run could not be modelled (its spectral coefficient is not an
        # algebraic value), a value rule that fails may fail because of that gap; such verdicts are analysis gaps
        gaps = output_gaps(SA)
        if gaps:
            for o in R.obs:
                if o.verdict == "differs":
                    o.verdict = "uninterpretable"
                    o.detail = "the abstract solver run has unmodelled parts (%s), so this failed comparison is not a verdict: %s" % (gaps[0], o.detail)
        R.add(SA.fault_obs())
        R.add(grid_obs(SA))
        R.add(dtype_obs(SA))
        R.add(index_obs(SA))
        R.add(level_list_obs(SA))
        R.add(partition_obs(SA))
        R.add(argument_obs(SA))
        R.add(zero_halo_obs(P))
        R.add(layout_obs(SA))
        # the solver rules are decided for one solve in a fresh process; they hold for every call only if a solve
        # cannot observe an earlier one (module-level state on the solve path: R-STATE / R-MEMO, shared with C12)
        import props_state as ps

        R.add(ps.solve_state_obligations(P)[0])
        R.add(ps.fft_wrapper_obligations(P))
        R.add(path_uniformity(SA))
        R.analysed["paths"] = SA.nruns
        return R, tech

    wrapper.__name__ = fn.__name__
    return wrapper


def dtype_obs(SA):
    """R-DTYPE: no computed (real or complex) value is stored into storage whose dtype is inherited from a caller's array:
    with integer-typed z, profiles or source the value would be truncated silently"""
    seen = {}
    n = 0
    for key, (S, res) in SA.runs.items():
        for r in res:
            n += 1
            for e in r.events:
                if e[0] == "dtype":
                    seen.setdefault((e[1], e[2]), key)
    site = "src/bldfm/solver.py::steady_state_transport_solver and callees"
    if not seen:
        return [req_ob("R-DTYPE", site, "no computed value is stored into storage typed by a caller's array (integer grids, profiles and sources are not truncated) (%d paths)" % n, True)]
    return [req_ob("R-DTYPE", site, "no computed value is stored into storage typed by a caller's array", False, detail="%s: %s" % k, key={"where": k[0]}) for k in sorted(seen)]


_ZERO_HALO = {}


def zero_halo_obs(P):
    """R-ARGS: a halo of width zero is a request like any other (no padding): only an absent halo selects the default.  The
    solver is interpreted with halo = 0; every transform must then be taken on the grid of the source field itself."""
    key = P.digest()
    if key in _ZERO_HALO:
        return _ZERO_HALO[key]
    site = "src/bldfm/solver.py::steady_state_transport_solver (halo = 0)"
    obs = []
    try:
        S, res = run_solver(P, True, False, halo="zero")
    except AnalysisError as e:
        obs.append(req_ob("R-ARGS", site, "the solver can be interpreted with a halo of width zero", None, detail=str(e)[:200]))
        _ZERO_HALO[key] = obs
        return obs
    rets = [r for r in res if r.kind == "return" and not any(d[0].startswith("unknown test") for d in r.path)]
    bad, seen = None, 0
    for r in rets:
        for c in r.calls:
            if c[0].split(".")[-1] in ("fft2", "ifft2") and c[1] and isinstance(c[1][0], Arr) and c[1][0].shape is not None and len(c[1][0].shape) >= 2:
                seen += 1
                sy, sx = c[1][0].shape[-2], c[1][0].shape[-1]
                direct = (sy.eq(S.ny) and sx.eq(S.nx)) or (sy.eq(S.nly) and sx.eq(S.nlx))
                if not direct and bad is None:
                    bad = "%s at line %s works on a %r x %r grid" % (c[0].split(".")[-1], getattr(c[3], "lineno", "?"), sy, sx)
    verdict = None if not seen else bad is None
    obs.append(req_ob("R-ARGS", site, "with halo = 0 every transform is taken on the unpadded source grid or on the retained modes (a zero width is not replaced by the default)", verdict,
                      detail=bad, key={"clause": "zero halo"}))
    _ZERO_HALO[key] = obs
    return obs


def argument_obs(SA):
    """R-ARGS: the solver does not modify the arrays it is given (a stored-into or in-place updated argument changes the
    caller's data, so the next solve with 'the same' inputs is a different request)"""
    seen = {}
    n = 0
    for key, (S, res) in SA.runs.items():
        for r in res:
            n += 1
            for e in r.events:
                if e[0] == "param-mutation":
                    seen.setdefault((e[1], e[2]), key)
    site = "src/bldfm/solver.py::steady_state_transport_solver and callees"
    if not seen:
        return [req_ob("R-ARGS", site, "no argument array is stored into or updated in place (%d paths)" % n, True)]
    return [req_ob("R-ARGS", site, "no argument array is stored into or updated in place", False, detail="%s: %s" % k, key={"where": k[0]}) for k in sorted(seen)]


def layout_obs(SA):
    """R-LAYOUT: on every returning path of every run - all clamp outcomes included, also those a rule's representative path
    does not take - the Fourier-layout typestate (natural / centred order, symmetric truncation window, re-padding, shapes of
    elementwise operands) is consistent.  E.g. `fftshift` where `ifftshift` is meant differs only for odd sizes, which arise
    only on the clamped paths."""
    seen = {}
    n = 0
    for key, (S, res) in SA.runs.items():
        for r in res:
            if r.kind != "return":
                continue
            n += 1
            for e in r.events:
                if e[0] in ("typestate", "shape"):
                    seen.setdefault((e[1], str(e[2])), (key, r))
    site = "src/bldfm/solver.py::steady_state_transport_solver (every returning path)"
    if not seen:
        return [req_ob("R-LAYOUT", site, "Fourier layout, truncation window, re-padding and operand shapes are consistent on every returning path (%d paths)" % n, True)]
    out = []
    for (where, what), (key, r) in sorted(seen.items())[:6]:
        out.append(req_ob("R-LAYOUT", site, "Fourier layout, truncation window, re-padding and operand shapes are consistent on every returning path", False,
                          detail="%s: %s (footprint=%s analytic=%s %s mode; path %s)" % (where, what, key[0], key[1], key[2], [(d[:50], b) for d, b in r.path][:5]), key={"where": where}))
    return out


def index_obs(SA):
    """R-INDEX: no array is read at an index that can be negative for legal inputs (numpy would wrap it around)"""
    seen = {}
    n = 0
    for key, (S, res) in SA.runs.items():
        for r in res:
            n += 1
            for e in r.events:
                if e[0] == "index-wrap":
                    seen.setdefault((e[1], e[2]), key)
    site = "src/bldfm/solver.py::steady_state_transport_solver and callees"
    if not seen:
        return [req_ob("R-INDEX", site, "no array is read at an index that can be negative for legal inputs (%d paths)" % n, True)]
    return [req_ob("R-INDEX", site, "no array is read at an index that can be negative for legal inputs", False, detail="%s: %s" % k, key={"where": k[0]}) for k in sorted(seen)]


def level_list_obs(SA):
    """R-LVL-ORDER (structural part, decided on every run whether or not its outputs can be modelled): the sweep writes slot
    `lvl` when `i in levels` and then advances `lvl` - one slot per distinct level, in ascending node order.  The list it tests
    must therefore be free of repetitions and ascending: np.unique's result is, a merely sorted copy or the caller's own list is not"""
    seen = {}
    n = 0
    for key, (S, res) in SA.runs.items():
        for r in res:
            for L in r.loops:
                for ls in getattr(L, "level_stores", ()):
                    cont = getattr(ls.guard, "container", None)
                    if not isinstance(cont, Arr):
                        continue
                    n += 1
                    if cont.meta.get("sorted_unique"):
                        continue
                    if cont.meta.get("sorted") or cont.meta.get("hash_order") or isinstance(cont, RS.SymArr) or cont.meta.get("param") or cont.meta.get("alias_of_param"):
                        what = ("a sorted copy that keeps repeated entries (np.sort)" if cont.meta.get("sorted") else
                                "the distinct levels in the iteration order of a set (ascending only by accident of the hash table)" if cont.meta.get("hash_order") else
                                "the caller's own list %s (any order, repetitions allowed)" % (cont.name or ""))
                        seen.setdefault((L.function, ls.array, what), key)
    site = "src/bldfm/solver.py::level sweep"
    if not seen:
        return [req_ob("R-LVL-ORDER", site, "every list tested by the slot-counter idiom is the sorted list of distinct levels (%d guarded stores)" % n, True if n else None)]
    return [req_ob("R-LVL-ORDER", site, "every list tested by the slot-counter idiom is the sorted list of distinct levels", False,
                   detail="%s: the store into %s is guarded by membership in %s: a repeated level fills one slot and leaves the next one empty" % (k[0], k[1], k[2]), key={"array": k[1]}) for k in sorted(seen)]


def partition_obs(SA):
    """R-BLOCKS: work that is split into blocks of an axis (one block per thread) must cover the axis exactly: contiguous
    blocks, the first starting at 0, the last ending at the axis length, cut points computed in exact integer arithmetic"""
    seen = {}
    n = 0
    for key, (S, res) in SA.runs.items():
        for r in res:
            for e in r.events:
                if e[0] == "block-loop":
                    n += 1
                if e[0] in ("partition-gap", "fragile-partition"):
                    seen.setdefault((e[1], e[2]), key)
    site = "src/bldfm/solver.py::steady_state_transport_solver and callees"
    if not seen:
        return [req_ob("R-BLOCKS", site, "every block-wise loop covers its axis exactly (%d block loops followed)" % n, True)] if n else []
    return [req_ob("R-BLOCKS", site, "every block-wise loop covers its axis exactly", False, detail="%s: %s" % k, key={"where": k[0]}) for k in sorted(seen)]


def output_gaps(SA):
    out = []
    for key, (S, res) in SA.runs.items():
        for r in res:
            if r.kind != "return":
                continue
            try:
                v = RS.PathView(S, r)
            except AnalysisError as e:
                out.append("footprint=%s analytic=%s %s mode: %s" % (key[0], key[1], key[2], str(e)[:120]))
                continue
            for nm in ("conc", "flx"):
                c = v.fields[nm]["synth"]["coeff"]
                if not isinstance(c, Expr):
                    out.append("footprint=%s analytic=%s %s mode: %s coefficient is %s" % (key[0], key[1], key[2], nm, repr(c)[:100]))
    return out


def grid_obs(SA):
    """R-GRID: on every returning path the back-transform is taken on the padded grid (nx + 2 px by ny + 2 py), so that the
    crop [py:py+ny, px:px+nx] addresses the user's cells; a path on which truncation and re-padding do not add up to the
    padded size returns fields on a shifted / differently sized grid"""
    obs = []
    seen = set()
    n = 0
    for key, (S, res) in SA.runs.items():
        for r in res:
            if r.kind != "return":
                continue
            try:
                v = RS.PathView(S, r)
            except AnalysisError:
                continue
            n += 1
            for nm, N, want in (("x", v.Nx, S.nx + 2 * v.px), ("y", v.Ny, S.ny + 2 * v.py)):
                if isinstance(N, Expr) and isinstance(want, Expr) and not N.eq(want):
                    k = (nm, repr(N), repr(want))
                    if k in seen:
                        continue
                    seen.add(k)
                    obs.append(req_ob("R-GRID", "src/bldfm/solver.py::steady_state_transport_solver (footprint=%s analytic=%s %s mode)" % (key[0], key[1], key[2]),
                                      "the back-transform is taken on the padded grid in %s" % nm, False,
                                      detail="transform size %r, padded size %r, on the path %s" % (N, want.expand(), [(d[:60], b) for d, b in r.path][:8]), key={"axis": nm}))
    if not obs and n:
        obs.append(req_ob("R-GRID", "src/bldfm/solver.py::steady_state_transport_solver", "the back-transform is taken on the padded grid on every returning path (%d paths)" % n, True))
    return obs


LINEAR_OPS = {"dft", "dft0", "sum", "cumsum", "gather", "scatter", "last", "meanmode"}  # f(0) = 0


_zero_atoms = RS.zero_atoms


def _ascending_equalities(S, r, exprs):
    """A path that established `not any(x[1:] <= x[:-1])` for the requested levels x knows x to be strictly ascending, hence
    free of repetitions: its sorted distinct values are x itself and there are len(x) of them.  -> substitution for the atoms
    that stand for `np.unique(x)` and its length in the given expressions (empty when the path has no such fact)"""
    if not isinstance(S.levels, Arr) or S.levels.shape is None:
        return {}
    lv = S.levels
    lvsym = next(iter(lv.sym.top_atoms())) if hasattr(lv, "sym") else None
    found = False
    for e, op, d in r.constraints:
        cm = e.as_mono()
        qa = cm[1][0][0] if cm is not None and cm[0] == alg.C1 and len(cm[1]) == 1 and cm[1][0][1] == 1 else None
        if qa is None or qa.kind != "fn" or qa.name not in ("any:<=0", "any:<0") or d or op != "!=":
            continue
        if qa.name == "any:<0":
            # only "never descending": free of repetitions as well when the path also established that there are as many
            # distinct values as entries
            nu = alg.fn("nunique", lv.val, integer=True, pos=True)
            if not r.facts.possible((nu - lv.shape[0]).expand()) <= {"0"}:
                continue
        inner = qa.args[0].expand() if isinstance(qa.args[0], Expr) else None
        if inner is None or len(inner.n) != 2:
            continue
        ats = [(m, c) for m, c in inner.n.items()]
        ok = all(len(m) == 1 and m[0][1] == 1 and m[0][0].kind == "fn" and m[0][0].name == "at" and isinstance(m[0][0].args[0], Expr) and lvsym in m[0][0].args[0].atoms() for m, c in ats)
        if not ok:
            continue
        (m1, c1), (m2, c2) = ats
        hi, lo = (m1[0][0], m2[0][0]) if c1.re > 0 else (m2[0][0], m1[0][0])
        if c1.re * c2.re == -1 and (hi.args[1] - lo.args[1]).expand().eq(ONE):
            found = True
    if not found:
        return {}
    sub = {}
    for x in exprs:
        if not isinstance(x, Expr):
            continue
        for a in x.expand().atoms():
            if a.kind == "fn" and a.name == "nunique" and isinstance(a.args[0], Expr) and a.args[0].eq(lv.val):
                sub[a] = lv.shape[0]
            if a.kind == "fn" and a.name == "elem" and isinstance(a.args[0], Expr):
                t = a.args[0].top_atoms()
                if len(t) == 1 and next(iter(t)).kind == "sym" and str(next(iter(t)).name).startswith("unique(%s)" % (lv.name,)):
                    sub[a] = lv.val
    return sub


def path_uniformity(SA):
    """Rules are evaluated on one representative path per (clamp outcome, shift) case.  Any further
    case distinction made by the code must not change the result: all return paths of a case must
    yield the same output coefficients, transforms and shapes as its representative."""
    obs = []
    for key, (S, res) in SA.runs.items():
        groups = {}
        for r in res:
            if r.kind != "return":
                continue
            try:
                v = RS.PathView(S, r)
            except AnalysisError:
                continue
            groups.setdefault((v.clamp_state(), v.shifted()), []).append(v)
        if key[0]:
            # footprint mode: a tower at the grid origin is no special case - the footprint is shifted by the tower position
            # plus the padded halo width wherever the tower stands - so a path taken only for the origin must give what the
            # general path gives at xm = ym = 0
            origin = {atom_of(S.xm): ZERO, atom_of(S.ym): ZERO}
            for (clamp, sh), vs in groups.items():
                if sh:
                    continue
                gen = groups.get((clamp, True))
                if not gen:
                    continue
                for w in vs:
                    for nm in ("conc", "flx"):
                        a, b = gen[0].coeff(nm), w.coeff(nm)
                        if isinstance(a, Expr) and isinstance(b, Expr):
                            try:
                                a0 = a.expand().subs(origin)
                            except ZeroDivisionError:
                                continue
                            obs.append(eq_ob("R-PATHS", "src/bldfm/solver.py::steady_state_transport_solver (footprint=True analytic=%s %s mode, halo %s)" % (key[1], key[2], key[3]),
                                             "a path taken only for a tower at the grid origin returns what the general path returns there (%s, clamp %s)" % (nm, clamp), b, a0, key={"clause": "origin", "out": nm}))
        for gk, vs in groups.items():
            if len(vs) < 2 or not any(getattr(w.r, "_used", False) for w in vs):
                continue
            ref = vs[0]
            for w in vs[1:]:
                same = True
                why = None
                zero = _zero_atoms(ref.r) | _zero_atoms(w.r)
                zsub = {a: ZERO for a in zero}
                asc_used = False
                for nm in ("conc", "flx"):
                    a, b = ref.coeff(nm), w.coeff(nm)
                    s1, s2 = getattr(ref, nm).shape, getattr(w, nm).shape
                    for pv in (ref, w):
                        eqs = _ascending_equalities(S, pv.r, [a, b] + list(s1 or ()) + list(s2 or ()))
                        if eqs:
                            asc_used = True
                            if isinstance(a, Expr) and isinstance(b, Expr):
                                a, b = a.expand().subs(eqs), b.expand().subs(eqs)
                            if s1 is not None and s2 is not None:
                                s1, s2 = tuple(x.subs(eqs) for x in s1), tuple(x.subs(eqs) for x in s2)
                    if isinstance(a, Expr) and isinstance(b, Expr):
                        if zsub:
                            # where one path established that a quantity vanishes, the two sides need only agree there;
                            # a linear operator applied to a vanishing array vanishes (the transform of an all-zero source)
                            zs2 = dict(zsub)
                            for x in (a, b):
                                for at in x.expand().atoms():
                                    if at.kind == "fn" and at.name in LINEAR_OPS and at.args and isinstance(at.args[0], Expr):
                                        try:
                                            if at.args[0].expand().subs(zsub).is_zero():
                                                zs2[at] = ZERO
                                        except ZeroDivisionError:
                                            pass
                            zsub_ = zs2
                            try:
                                a, b = a.expand().subs(zsub_), b.expand().subs(zsub_)
                            except ZeroDivisionError:
                                pass  # the vanishing quantity is a divisor on the other path: compared as they are
                        if not a.eq(b):
                            same, why = False, "%s coefficient differs" % nm
                    elif not (a is b or repr(a) == repr(b)):
                        same, why = False, "%s coefficient not comparable" % nm
                    sa, sb = ref.fields[nm]["synth"], w.fields[nm]["synth"]
                    if sa["dir"] != sb["dir"] or not sa["scale"].eq(sb["scale"]):
                        same, why = False, "%s output transform differs" % nm
                    if s1 is None or s2 is None or len(s1) != len(s2) or not all(x.eq(y) for x, y in zip(s1, s2)):
                        same, why = False, "%s shape differs" % nm
                extra = [d for d in w.r.path if d not in ref.r.path] + [d for d in ref.r.path if d not in w.r.path]
                # tests the model cannot exploit: on unmodelled values, and quantified ones (any / all over an array: the outcome is
                # recorded, but no fact about the individual entries follows from it in this domain)
                # a quantified test (any / all over an array) says something about the generic entry in one direction only, and the
                # comparison below can use such a fact only when it is "the entry is zero" (it substitutes zeros): a pair of
                # paths that differ by any other quantified outcome cannot be compared in this domain
                def usable(d):
                    return (d[0].startswith("any:!=0(") and not d[1]) or (d[0].startswith("all:==0(") and d[1]) or (asc_used and (d[0].startswith("any:<=0(") or d[0].startswith("any:<0(")) and not d[1])
                quant = [d for d in extra if d[0].startswith("any:") or d[0].startswith("all:")]
                guessed = [d for d in extra if d[0].startswith("unknown test")]
                if quant and not any(usable(d) for d in quant):
                    guessed = guessed + quant
                verdict = same
                if not same and guessed:
                    # the two paths differ by a test on a value the interpreter does not model (it explored both outcomes
                    # blindly): whether the distinction is harmless cannot be decided here
                    verdict = None
                    why = "%s; the paths differ by a test whose outcome the model cannot exploit (%s)" % (why, guessed[0][0][:80])
                obs.append(req_ob("R-PATHS", "src/bldfm/solver.py::steady_state_transport_solver (footprint=%s analytic=%s %s mode, halo %s)" % (key[0], key[1], key[2], key[3]),
                                  "case distinctions other than clamp / re-centring do not change the result (case %s)" % (gk,), verdict,
                                  detail=None if same else "%s on the path taking %s" % (why, [(d[0][:80], d[1]) for d in extra][:3])))
    return obs


def _one(vs, what):
    if not vs:
        raise RS.NoPath("no solver path for %s" % what)
    return vs[0]


# --------------------------------------------------------------------------


@solver_check
def check_C05(P, tier, SA, holder):
    R = holder["R"] = Result("C05", tier)
    R.min_obligations = 24
    R.explanation = ("Uniform profiles. (R-ANALYTIC) the analytic branch is interpreted abstractly and the spectral coefficient fed to the "
                     "output transform is compared, as an exact algebraic identity, with the half-space closed form q0*exp(-lambda h), q/(Kz lambda), "
                     "p000 - q00 h/Kz. (R-SHARED) analytic and numerical paths pass through the same padding/truncation/shift/transform/crop "
                     "(identical typestate path, offsets, transform, phase factor). (R-STEP3) the layer matrix of the sweep is read off the loop body "
                     "and its Taylor coefficients in dz=z[i+1]-z[i] are compared with those of exp(M dz) through dz^3 for all symbols at once. "
                     "Decides the structure that yields third order; the observed ratio itself is numerical and not decided.")
    R.trusted = [TRUST_NUMPY, TRUST_ALG, "a one-step method whose local expansion agrees with the exact propagator through dz^3 has global order 3"]
    # R-STEP3 on the numerical generic path
    S, vs = views(SA, False, False, "generic")
    v = _one(pick(vs, shifted=False), "numerical dispersion, no clamp, no shift")
    R.add(RS.step_obligations(v, 3, "R-STEP3", uniform=True))
    # R-ANALYTIC generic + mean
    lev = RS.level_atom(S)
    for fp in (False, True):
        S, va = views(SA, fp, True, "generic")
        for w in pick(va, shifted=None if fp else False)[:1]:
            q0 = RS.source_spec(w, fp)
            p_s, q_s = RS.analytic_spec(w, q0, lev)
            ph = RS.phase_spec(w, fp, False)
            src = "S-PDE half-space solution: q=q0 exp(-lambda h), p=q/(Kz lambda), lambda^2=-T/Kz at the top node, h=z[level]-z[0]"
            R.add(eq_ob("R-ANALYTIC", w.site("analytic branch (footprint=%s)" % fp), "flux spectrum of a non-mean mode at a requested level", w.coeff("flx"), q_s * ph, src))
            R.add(eq_ob("R-ANALYTIC", w.site("analytic branch (footprint=%s)" % fp), "concentration spectrum of a non-mean mode at a requested level", w.coeff("conc"), p_s * ph, src))
        S, vm = views(SA, fp, True, "mean")
        for w in pick(vm, shifted=None if fp else False)[:1]:
            q00 = RS.source_spec(w, fp)
            h = S.z.at(lev) - S.z.at(ZERO)
            R.add(eq_ob("R-ANALYTIC", w.site("analytic branch, mean mode (footprint=%s)" % fp), "mean concentration is linear in height",
                        w.coeff("conc"), S.p000 - q00 * h / S.Kz.at(RS.top_index(S)), "p00 = p000 - q00 h / Kz"))
            R.add(eq_ob("R-ANALYTIC", w.site("analytic branch, mean mode (footprint=%s)" % fp), "mean flux equals the mean surface flux at every level",
                        w.coeff("flx"), q00, "q00(z) = q00"))
    # R-SHARED: same post-processing for analytic and numerical
    for fp in (False, True):
        S, va = views(SA, fp, True, "generic")
        S, vn = views(SA, fp, False, "generic")
        a = _one(pick(va, shifted=None if fp else True), "analytic")
        n = _one(pick(vn, shifted=None if fp else True), "numerical")
        for nm in ("conc", "flx"):
            fa, fn = a.fields[nm], n.fields[nm]
            same = (fa["synth"]["dir"] == fn["synth"]["dir"] and fa["synth"]["scale"].eq(fn["synth"]["scale"])
                    and all(x.eq(y) for x, y in zip(fa["crop"], fn["crop"])) and all(x.eq(y) for x, y in zip(fa["synth"]["N"], fn["synth"]["N"]))
                    and (fa["synth"].get("kept") is None) == (fn["synth"].get("kept") is None)
                    and all(x.eq(y) for x, y in zip(fa["synth"].get("kept") or (), fn["synth"].get("kept") or ())))
            R.add(req_ob("R-SHARED", a.site("post-processing (footprint=%s)" % fp), "%s: analytic and numerical results pass the same untruncation, transform and crop" % nm, same))
        # phase factor identical: ratio of shifted to unshifted coefficient equal in both modes
        if not fp:
            a0 = _one(pick(va, shifted=False), "analytic unshifted")
            n0 = _one(pick(vn, shifted=False), "numerical unshifted")
            cs = [a.coeff("flx"), n0.coeff("flx"), n.coeff("flx"), a0.coeff("flx")]
            if all(isinstance(c, Expr) for c in cs):
                R.add(eq_ob("R-SHARED", a.site("measurement-point shift"), "analytic and numerical modes apply the same shift factor", cs[0] * cs[1], cs[2] * cs[3]))
            else:
                R.add(req_ob("R-SHARED", a.site("measurement-point shift"), "output coefficients are algebraic", None, detail=repr([c for c in cs if not isinstance(c, Expr)])[:200]))
        ev = [e for e in a.r.events if e[0] in ("typestate", "shape")]
        R.add(req_ob("R-SHARED", a.site("analytic path (footprint=%s)" % fp), "analytic path is shape- and layout-consistent", not ev, detail=str(ev[:3]) if ev else None))
    R.analysed = {"files": ["src/bldfm/solver.py", "src/bldfm/fft_manager.py", "src/bldfm/utils.py"],
                  "functions": ["steady_state_transport_solver", "ivp_solver", "fft2", "ifft2", "get_fft_manager"], "paths": SA.nruns}
    return R, "closed-form equality of normal forms; propagator series to dz^3"


@solver_check
def check_C01(P, tier, SA, holder):
    R = holder["R"] = Result("C01", tier)
    R.min_obligations = 20
    R.explanation = ("Structure of a consistent, correctly closed one-step method, each clause an exact identity of normal forms obtained by abstract "
                     "interpretation of the solver: (R-STEP1) the sweep's layer matrix is I + M dz + O(dz^2) with M the S-PDE system matrix, coefficients "
                     "sampled inside the layer, dz the thickness of that layer, layers 0..nz-2 once each; (R-SYMBOL) T and the wavenumbers 2 pi k/(dx nxe); "
                     "(R-TOPBC/R-SHOOT) the spectral coefficient of every non-mean mode at every requested level equals the unique trajectory of that "
                     "propagator with q(z0)=q0 and q=Kz lambda p at the top node, lambda the principal root of -T/Kz; (R-MEAN) the mean mode is the "
                     "trapezoidal resistance integral and the mean flux is constant. By the convergence theorem for one-step methods these imply "
                     "convergence for every smooth positive profile family; constants and ratios are numerical and not decided.")
    R.trusted = [TRUST_NUMPY, TRUST_ALG, "convergence theorem for consistent one-step methods on linear ODE systems with smooth coefficients",
                 "np.sqrt of a complex argument returns the principal root (Re >= 0)"]
    S, vs = views(SA, False, False, "generic")
    v = _one(pick(vs, shifted=False), "numerical dispersion, no clamp, no shift")
    R.add(RS.step_obligations(v, 1, "R-STEP1", uniform=False))
    lev = RS.level_atom(S)
    # initial states of the two auxiliary problems
    inits = RS.second_ivp_initial(v)
    q0 = RS.source_spec(v, False)
    site = v.site("linear shooting")
    if len(inits) == 2:
        R.add(eq_ob("R-SHOOT", site, "first auxiliary problem starts from p=1", inits[0][0], ONE))
        R.add(eq_ob("R-SHOOT", site, "first auxiliary problem starts from q=0", inits[0][1], ZERO))
        R.add(eq_ob("R-SHOOT", site, "second auxiliary problem starts from p=0", inits[1][0], ZERO))
        R.add(eq_ob("R-SHOOT", site, "second auxiliary problem starts from the source spectrum", inits[1][1], q0, "q(z0) = q0_hat (scaled forward transform of the padded source)"))
    else:
        R.add(req_ob("R-SHOOT", site, "exactly two auxiliary initial-value problems are solved", False, detail="%d found" % len(inits)))
    p_s, q_s, a_s = RS.trajectory_spec(v, q0, lev)
    src = "S-PDE: X(l)=Phi(l)(a,q0)^T with a fixed by q=Kz*lambda*p at the top node, lambda=sqrt(-T/Kz) principal"
    R.add(eq_ob("R-SHOOT", site, "flux spectrum of a non-mean mode at a requested level", v.coeff("flx"), q_s, src, key={"out": "flx"}))
    R.add(eq_ob("R-SHOOT", site, "concentration spectrum of a non-mean mode at a requested level", v.coeff("conc"), p_s, src, key={"out": "conc"}))
    # surface condition and top condition as identities of the code's own result
    cq, cp = v.coeff("flx"), v.coeff("conc")
    if isinstance(cq, Expr) and isinstance(cp, Expr):
        la = atom_of(lev)
        R.add(eq_ob("R-SHOOT", site, "surface condition q(z0)=q0 for every mode", cq.subs({la: ZERO}), q0))
        lx, ly = v.wavenumbers()
        lam, lam2 = RS.eigen_spec(S, lx, ly)
        top = RS.top_index(S)
        R.add(eq_ob("R-TOPBC", site, "radiation condition q = Kz*lambda*p at the top node", cq.subs({la: top}), S.Kz.at(top) * lam * cp.subs({la: top}),
                    "decaying constant-coefficient continuation: lambda^2 = -T/Kz at the top node"))
        R.add(eq_ob("R-TOPBC", site, "lambda^2 equals -T/Kz of the top node", lam * lam, lam2))
    # mean mode
    S, vm = views(SA, False, False, "mean")
    w = _one(pick(vm, shifted=False), "numerical dispersion mean mode")
    R.add(mean_obligations(w, False, "R-MEAN"))
    R.analysed = {"files": ["src/bldfm/solver.py", "src/bldfm/fft_manager.py", "src/bldfm/utils.py"],
                  "functions": ["steady_state_transport_solver", "ivp_solver", "fft2", "ifft2"], "paths": SA.nruns}
    return R, "consistency + closure of the one-step scheme by algebraic normal forms"


def mean_obligations(w, footprint, rule):
    """mean-mode recursion and constant mean flux (ctx='mean' view)"""
    S = w.S
    obs = []
    site = w.site("mean-mode sweep")
    q00 = RS.source_spec(w, footprint)
    lev = RS.level_atom(S)
    obs.append(eq_ob(rule, w.site("mean flux"), "mean-mode flux at every level is the mean surface flux", w.coeff("flx"), q00,
                     "q00(z) = q00 (conservation)", key={"out": "flx"}))
    loops = w.mean_loops()
    if not loops:
        # no Python loop (e.g. a vectorised prefix sum): compare the result directly with the trapezoidal resistance sum
        iv = alg.sym_atom("j#spec", integer=True)
        j = alg.atom_expr(iv)
        trap = -q00 * (S.z.at(j + ONE) - S.z.at(j)) * (ONE / S.Kz.at(j) + ONE / S.Kz.at(j + ONE)) / 2
        obs.append(eq_ob(rule, site, "mean concentration at a requested level is p000 minus q00 times the trapezoidal resistance below it", w.coeff("conc"),
                         S.p000 + psum(trap, iv, ZERO, lev), "p00(l) = p000 - q00 sum_{i<l} dz_i (1/Kz_i + 1/Kz_{i+1})/2", key={"out": "conc"}))
        return obs
    if len(loops) != 1:
        obs.append(req_ob(rule, site, "one accumulating sweep for the mean concentration", False, detail="%d found" % len(loops)))
        return obs
    L = loops[0]
    var = L.state[0]
    i = L.rng.start + alg.atom_expr(L.ivar) * L.rng.step
    obs.append(eq_ob(rule, site, "mean sweep covers layers 0..nz-2", L.rng.count, S.nz - ONE))
    obs.append(eq_ob(rule, site, "mean sweep starts at node 0", L.rng.start, ZERO))
    b = L.offset[var]
    dz = S.z.at(i + ONE) - S.z.at(i)
    trap = -q00 * dz * (ONE / S.Kz.at(i) + ONE / S.Kz.at(i + ONE)) / 2
    umap = {atom_of(S.Kz.at(i + ONE)): S.Kz.at(i)}
    if isinstance(b, Expr):
        be = b.expand()
        obs.append(eq_ob(rule, site, "layer increment is a consistent quadrature of -q00 dz/Kz (uniform-layer limit)", be.subs(umap), trap.subs(umap),
                         "p' = -q/Kz"))
        bad = [repr(a) for a in be.atoms() if a.kind == "fn" and a.name == "at" and not (a.args[1].eq(i) or a.args[1].eq(i + ONE))]
        obs.append(req_ob(rule, site, "increment samples only the two nodes of the layer", not bad, detail="; ".join(bad) or None))
        obs.append(Ob(rule, site, "increment is the trapezoidal rule (informational)", "holds", nontrivial=False,
                      detail="exact trapezoid" if be.eq(trap) else "consistent, other weights"))
        spec = S.p000 + psum(be if not be.eq(trap) else trap, L.ivar, L.rng.start, lev)
        obs.append(eq_ob(rule, site, "mean concentration at a requested level is p000 plus the partial sum of the increments below it", w.coeff("conc"), spec,
                         "p00(l) = p000 - q00 sum_{i<l} dz_i w_i", key={"out": "conc"}))
    else:
        obs.append(req_ob(rule, site, "mean increment is algebraic", None, detail=repr(b)))
    return obs


# --------------------------------------------------------------------------
# shared helpers


def _prepare(v):
    """identify p/q roles on a numerical path (needed by trajectory_spec)"""
    RS.step_obligations(v, 1, "_", uniform=False)
    return v


def _analysis_events(v):
    return [e[2] for e in v.r.events if e[0] == "analysis"]


def _halo_modes(tier):
    return ("given", "none") if True else ("given",)


def reflect_obligations(SA, rule, halo="given"):
    """transform directions and normalisations (R-REFLECT / R-NORM)"""
    obs = []
    for fp in (False, True):
        S, vs = views(SA, fp, False, "generic", halo=halo)
        v = _one(pick(vs, shifted=None if fp else False), "numerical path")
        N = v.Ny * v.Nx
        for nm in ("conc", "flx"):
            sy = v.fields[nm]["synth"]
            site = "src/bldfm/solver.py::steady_state_transport_solver::output transform of %s (footprint=%s)" % (nm, fp)
            want = "fwd" if fp else "inv"
            obs.append(req_ob(rule, site, "output transform has direction %s (footprint = point reflection of the Green's function)" % want, sy["dir"] == want,
                              detail="direction %s" % sy["dir"], key={"out": nm, "footprint": fp}))
            obs.append(eq_ob(rule, site, "output transform is unscaled", sy["scale"], ONE, "numpy: fft2(norm='backward') and ifft2(norm='forward') carry no 1/N"))
        if not fp:
            an = _analysis_events(v)
            site = "src/bldfm/solver.py::steady_state_transport_solver::transform of the source"
            if len(an) != 1:
                obs.append(req_ob(rule, site, "the padded source is transformed exactly once", None if not an else False, detail="%d transforms" % len(an)))
            else:
                a = an[0]
                obs.append(req_ob(rule, site, "source transform is the forward DFT", a["dir"] == "fwd", detail=a["dir"]))
                obs.append(eq_ob(rule, site, "source transform carries the single 1/N", a["scale"] * N, ONE, "norm='forward' on the padded grid"))
    return obs


def crop_obligations(v, rule, footprint):
    """pad/crop/coordinates (R-CROP, R-HALO)"""
    S = v.S
    obs = []
    site = v.site("halo padding and crop (footprint=%s)" % footprint)
    for nm in ("conc", "flx"):
        a = getattr(v, nm)
        shp = a.meta.get("presqueeze_shape", a.shape)
        want = (S.nlev, S.ny, S.nx)
        ok = shp is not None and len(shp) == 3 and all(x.eq(y) for x, y in zip(shp, want))
        obs.append(req_ob(rule, site, "%s has shape (levels, ny, nx) of the surface-flux field" % nm, ok, detail="shape %r" % (shp,), key={"out": nm}))
        c = v.fields[nm]["crop"]
        obs.append(eq_ob(rule, site, "%s crop offset in x is the x pad width" % nm, c[1], v.px))
        obs.append(eq_ob(rule, site, "%s crop offset in y is the y pad width" % nm, c[0], v.py))
    obs.append(eq_ob(rule, site, "padded x size is nx + 2 px", v.Nx, S.nx + 2 * v.px))
    obs.append(eq_ob(rule, site, "padded y size is ny + 2 py", v.Ny, S.ny + 2 * v.py))
    if not footprint:
        an = _analysis_events(v)
        if len(an) == 1 and an[0]["pad"]:
            w = an[0]["pad"]["widths"]
            obs.append(req_ob(rule, site, "source is padded with zeros", an[0]["pad"]["zero"] is True, detail="mode=%r value=%r" % (an[0]["pad"]["mode"], an[0]["pad"]["value"])))
            obs.append(eq_ob(rule, site, "x pad before equals crop offset", w[-1][0], v.px))
            obs.append(eq_ob(rule, site, "x pad after equals x pad before", w[-1][1], w[-1][0]))
            obs.append(eq_ob(rule, site, "y pad before equals crop offset", w[-2][0], v.py))
            obs.append(eq_ob(rule, site, "y pad after equals y pad before", w[-2][1], w[-2][0]))
            obs.append(req_ob(rule, site, "the padded array is the surface-flux argument itself", an[0]["pad"]["of"] is S.srf_flx or an[0]["src"] is S.srf_flx))
        else:
            obs.append(req_ob(rule, site, "the zero-padded source is what gets transformed", None if not an else False, detail="%d analysis transforms" % len(an)))
    # coordinates
    obs.append(eq_ob(rule, v.site("output grid"), "x coordinate of column i is i*dx", v.X.val, alg.fn("idx", S.nx, integer=True) * v.dx, "linspace(0, xmax, nx, endpoint=False)"))
    obs.append(eq_ob(rule, v.site("output grid"), "y coordinate of row j is j*dy", v.Y.val, alg.fn("idx", S.ny, integer=True) * v.dy))
    for nm, ax in (("X", 2), ("Y", 1), ("Z", 0)):
        a = getattr(v, nm)
        obs.append(req_ob(rule, v.site("output grid"), "%s varies along array axis %d" % (nm, ax), a.meta.get("varies_along") == ax, detail="varies along %r" % a.meta.get("varies_along")))
    return obs


# --------------------------------------------------------------------------


def registration_obligations(SA, halo, rule_unit="R-UNIT", rule_reg="R-REG"):
    """footprint coefficient == forward response per unit source displaced by the cropped cells"""
    obs = []
    S, vd = views(SA, False, False, "generic", halo=halo)
    S, vf = views(SA, True, False, "generic", halo=halo)
    d = _prepare(_one(pick(vd, shifted=False), "dispersion"))
    f = _prepare(_one(pick(vf), "footprint"))
    site = f.site("footprint branch (halo %s)" % halo)
    fi, di = RS.second_ivp_initial(f), RS.second_ivp_initial(d)
    if len(fi) == 2 and len(di) == 2:
        q0f, q0d = fi[1][1], di[1][1]
        obs.append(eq_ob(rule_unit, site, "footprint source spectrum is that of a unit cell source on the padded grid", q0f, ONE / (f.Ny * f.Nx), "delta at one cell: flat spectrum 1/(nxe nye)", key={"halo": halo}))
        lx, ly = f.wavenumbers()
        off = alg.exp(IMAG * (lx * f.px * f.dx + ly * f.py * f.dy))
        z0 = RS.zero_tower(S)
        for nm in ("flx", "conc"):
            cf, cd = f.coeff(nm), d.coeff(nm)
            if isinstance(cf, Expr) and isinstance(cd, Expr) and isinstance(q0d, Expr) and isinstance(q0f, Expr):
                obs.append(eq_ob(rule_reg, site, "%s: Green's function at tower (0,0) is the forward response per unit source, displaced by the cropped cells" % nm,
                                 cf.subs(z0) * q0d, off * cd * q0f, "G registered at x_m + px*dx, y_m + py*dy with px, py the crop offsets", key={"out": nm, "halo": halo}))
                obs.append(eq_ob(rule_reg, site, "%s: tower position enters as exp(i(lx*xm + ly*ym))" % nm, cf, alg.exp(IMAG * (lx * S.xm + ly * S.ym)) * cf.subs(z0), key={"out": nm, "halo": halo}))
            else:
                obs.append(req_ob(rule_reg, site, "%s coefficients are algebraic" % nm, None, detail="%r / %r" % (cf, cd)))
    else:
        obs.append(req_ob(rule_unit, site, "two auxiliary problems in both modes", False))
    return obs, f, d


@solver_check
def check_C02(P, tier, SA, holder):
    R = holder["R"] = Result("C02", tier)
    R.min_obligations = 30
    R.explanation = ("Registration identity between footprint and forward run, as exact identities of normal forms of the two abstractly interpreted modes: "
                     "(R-UNIT) footprint source is the flat spectrum 1/(nxe*nye) of a unit cell on the padded grid; (R-REG) the footprint spectral coefficient "
                     "at tower (0,0) equals exp(i(lx*px*dx+ly*py*dy)) times the forward coefficient per unit source, with px,py the very quantities used as "
                     "crop offsets and pad widths (so a halo that is not a whole number of cells is registered by the cells actually padded); "
                     "(R-REFLECT) footprint uses the transform of opposite direction, all unscaled except the single 1/N of the source transform; "
                     "(R-CROP) pad/crop/coordinates; (R-DOT) point_measurement is the plain sum of the product. Rounding residuals are not decided.")
    R.trusted = [TRUST_NUMPY, TRUST_ALG, "DFT shift theorem / reciprocity of the discrete convolution"]
    for halo in ("given", "none"):
        obs, f, d = registration_obligations(SA, halo)
        R.add(obs)
        R.add(crop_obligations(f, "R-CROP", True))
        R.add(crop_obligations(d, "R-CROP", False))
        for fpm in (False, True):
            S_, vv = views(SA, fpm, False, "generic", halo=halo)
            for v_ in vv:
                R.add(RS.event_obs(v_, "R-REG", ("typestate", "shape"), "Fourier layout, truncation and re-padding are consistent between the two modes' pipelines (footprint=%s, halo %s, clamp=%s)" % (fpm, halo, v_.clamp_state())))
        R.add(reflect_obligations(SA, "R-REFLECT", halo))
    # R-DOT
    R.add(dot_obligation(P))
    R.analysed = {"files": ["src/bldfm/solver.py", "src/bldfm/utils.py", "src/bldfm/fft_manager.py"],
                  "functions": ["steady_state_transport_solver", "ivp_solver", "point_measurement", "fft2", "ifft2"], "paths": SA.nruns}
    return R, "registration identity of phase / pad / crop / transform direction"


def dot_obligation(P):
    from interp import Interp, SymArr, explore

    mod = P.module("bldfm.utils")
    fn = P.function("bldfm.utils", "point_measurement")
    f = SymArr("f", 2, shape=(alg.sym("ny", pos=True, integer=True), alg.sym("nx", pos=True, integer=True)))
    g = SymArr("g", 2, shape=f.shape)
    res = explore(lambda dec: Interp(P, dec), lambda it: it.run_function(mod, fn, [f, g], {}))
    site = "src/bldfm/utils.py::point_measurement"
    if len(res) != 1 or res[0].kind != "return":
        return req_ob("R-DOT", site, "single straight-line path", False)
    return eq_ob("R-DOT", site, "result is the plain sum of the elementwise product", res[0].value, alg.fn("sum", f.val * g.val), "sum_cells f*g")


@solver_check
def check_C03(P, tier, SA, holder):
    R = holder["R"] = Result("C03", tier)
    R.min_obligations = 30
    R.explanation = ("(R-MEANFLUX) at the mean Fourier mode the flux coefficient handed to the output transform equals the mean-mode coefficient of the source at "
                     "every level, in natural layout, in all four mode combinations; (R-MEAN) the mean concentration is the background minus the mean flux times "
                     "the partial sum of a consistent quadrature of dz/Kz; (R-NORM) transform normalisations multiply to the single 1/N, so the footprint weights "
                     "on the padded grid sum to N*(1/N)=1; (R-HALO) halo reaches the result only through the integer pad widths, padding is zero and symmetric, "
                     "grid increments come from the unpadded size, wavenumbers use the padded length, crop undoes the pad. The continuous resistance integral "
                     "(quadrature error) is not decided.")
    R.trusted = [TRUST_NUMPY, TRUST_ALG, "sum over the padded grid of an unscaled forward transform equals N times its mean-mode coefficient"]
    lev = None
    for fp in (False, True):
        for an in (False, True):
            S, vm = views(SA, fp, an, "mean")
            w = _one(pick(vm, shifted=None if fp else False), "mean mode")
            lev = RS.level_atom(S)
            q00 = RS.source_spec(w, fp)
            site = w.site("mean mode (footprint=%s, analytic=%s)" % (fp, an))
            cq = w.coeff("flx")
            R.add(eq_ob("R-MEANFLUX", site, "mean-mode flux coefficient equals the mean-mode source coefficient", cq, q00, "conservation: d q00/dz = 0", key={"footprint": fp, "analytic": an}))
            if isinstance(cq, Expr):
                R.add(req_ob("R-MEANFLUX", site, "mean-mode flux coefficient does not depend on the level", atom_of(lev) not in cq.atoms()))
            R.add(RS.event_obs(w, "R-MEANFLUX", ("typestate",), "Fourier layout is consistent wherever [0,0] is used as the mean mode", site))
            if not an:
                R.add(mean_obligations(w, fp, "R-MEAN"))
            else:
                hh = S.z.at(lev) - S.z.at(ZERO)
                R.add(eq_ob("R-MEAN", site, "mean concentration is the background minus the mean flux times the resistance h/Kz of uniform profiles", w.coeff("conc"),
                            S.p000 - q00 * hh / S.Kz.at(RS.top_index(S)), "p00 = p000 - q00 * int dz/Kz", key={"out": "conc", "analytic": True}))
                l0 = w.fields["conc"]["synth"].get("lvl0")
                R.add(req_ob("R-MEAN", site, "no level slot is treated differently from the others", l0 is None, detail=None if l0 is None else "slot 0 holds %s" % str(l0)[:200]))
            if fp:
                # weights sum to one: N * scale * q00 == 1
                sy = w.fields["flx"]["synth"]
                R.add(eq_ob("R-NORM", site, "footprint weights over the padded grid sum to one", cq * sy["scale"] * w.Ny * w.Nx if isinstance(cq, Expr) else cq, ONE,
                            "sum_n fft2(c)[n] = N c[0,0] for the unscaled forward transform"))
    R.add(reflect_obligations(SA, "R-NORM"))
    S, vd = views(SA, False, False, "generic")
    d0 = _one(pick(vd, shifted=False), "dispersion unshifted")
    R.add([o for o in RS.step_obligations(d0, 1, "R-HALO", uniform=False) if "(q<-p), coefficient of dz^1" in o.what])
    for halo in ("given", "none"):
        obs, _f, _d = registration_obligations(SA, halo, "R-NORM", "R-HALO")
        R.add(obs)
        for fp in (False, True):
            S, vs = views(SA, fp, False, "generic", halo=halo)
            v = _one(pick(vs, shifted=None if fp else True), "generic path")
            R.add(crop_obligations(v, "R-HALO", fp))
            if halo == "given":
                hat = atom_of(S.halo)
                for nm in ("conc", "flx"):
                    c = v.coeff(nm)
                    if not isinstance(c, Expr):
                        R.add(req_ob("R-HALO", v.site("halo flow"), "%s coefficient is algebraic" % nm, None))
                        continue
                    bad = _halo_outside_int(c, hat)
                    R.add(req_ob("R-HALO", v.site("halo flow (footprint=%s)" % fp), "%s depends on halo only through the integer pad widths" % nm, not bad, detail="; ".join(bad[:3]) or None, key={"out": nm}))
    R.analysed = {"files": ["src/bldfm/solver.py", "src/bldfm/fft_manager.py"], "functions": ["steady_state_transport_solver", "ivp_solver"], "paths": SA.nruns}
    return R, "mean-mode reaching value, normalisation product, halo flow"


def _halo_outside_int(x, hat, inside=False, acc=None):
    """occurrences of the halo atom that are not inside an int(...) application"""
    acc = [] if acc is None else acc
    for m in x.n:
        for a, e in m:
            if a is hat and not inside:
                acc.append("halo occurs outside int(): %s" % repr(Expr({m: alg.C1}))[:120])
            ins = inside or (a.kind == "fn" and a.name == "int")
            for arg in a.args:
                if isinstance(arg, Expr):
                    _halo_outside_int(arg.expand() if a.kind != "def" else arg, hat, ins, acc)
            if isinstance(e, Expr):
                _halo_outside_int(e, hat, inside, acc)
    return acc


@solver_check
def check_C04(P, tier, SA, holder):
    R = holder["R"] = Result("C04", tier)
    R.min_obligations = 24
    R.explanation = ("Linearity as a typing of the output normal forms: for each of the 2x2 mode combinations and both analysis points (non-mean mode, mean mode) the "
                     "spectral coefficient handed to the (linear, S-NUMPY) output transform is expanded to a polynomial over the source atoms {source transform "
                     "coefficient, background}; every term must have total degree exactly one in them, none may occur in a denominator, exponent or opaque "
                     "argument, the flux must be free of the background, the background may enter only the mean mode of the concentration, and in footprint "
                     "mode no atom derived from the values of the surface-flux array may occur at all. Well-typedness proves superposition for all inputs; "
                     "rounding-level deviations are not decided.")
    R.trusted = [TRUST_NUMPY, TRUST_ALG, "fft2/ifft2/pad/crop/.real are linear over R (S-NUMPY)", "the propagator atoms Phi are independent of the sources (checked: the layer matrix contains no source atom)"]
    for fp in (False, True):
        for an in (False, True):
            for ctx in ("generic", "mean"):
                S, vs = views(SA, fp, an, ctx)
                for v in pick(vs, shifted=None)[:2]:
                    site = v.site("output coefficient (footprint=%s analytic=%s %s mode%s)" % (fp, an, ctx, ", shifted" if v.shifted() else ""))
                    bg = atom_of(S.p000)
                    for nm in ("conc", "flx"):
                        c = v.coeff(nm)
                        if not isinstance(c, Expr):
                            R.add(req_ob("R-LIN", site, "%s coefficient is algebraic" % nm, None, detail=repr(c)))
                            continue
                        alld = [a for a in c.atoms() if a.kind == "fn" and a.name in ("dft", "dft0", "idft", "idft0")]
                        src = [a for a in alld if isinstance(a.args[0], Expr) and a.args[0].eq(S.srf_flx.val)]
                        odd = [a for a in alld if a not in src]
                        vals = _source_values_outside(c, S, src)
                        R.add(req_ob("R-LIN", site, "%s: every transformed quantity is the surface-flux array itself" % nm, not odd, detail="; ".join(map(repr, odd))[:300] or None, key={"out": nm, "clause": "transform-of-source"}))
                        hidden = [a for a in src + [bg] if a in c.atoms() and _occurs_hidden(c, a)]
                        R.add(req_ob("R-LIN", site, "%s: sources occur only as polynomial factors (not in denominators, exponents, opaque arguments)" % nm, not hidden,
                                     detail="; ".join(map(repr, hidden))[:300] or None, key={"out": nm}))
                        if fp:
                            R.add(req_ob("R-LIN", site, "%s in footprint mode contains no value of the surface-flux array" % nm, not src and not vals, detail="; ".join(map(repr, src + vals))[:300] or None, key={"out": nm}))
                            sources = [bg]
                        else:
                            R.add(req_ob("R-LIN", site, "%s contains no elementwise value of the source other than through its transform" % nm, not vals, detail="; ".join(map(repr, vals))[:200] or None))
                            sources = src + [bg]
                        if nm == "flx" or ctx == "generic":
                            R.add(req_ob("R-LIN", site, "%s is independent of the background concentration" % nm, bg not in c.atoms(), key={"out": nm, "clause": "background"}))
                        else:
                            R.add(eq_ob("R-LIN", site, "the background adds a uniform offset: its coefficient in the mean concentration is one at every level", c.coeff_of(bg, 1), ONE, key={"out": nm, "clause": "offset"}))
                        l0 = v.fields[nm]["synth"].get("lvl0")
                        if l0 is not None:
                            same = isinstance(l0, Expr) and isinstance(c, Expr) and l0.expand().coeff_of(bg, 1).eq(c.coeff_of(bg, 1)) and (l0.expand().degree_in(sources if not fp else [bg]) == c.degree_in(sources if not fp else [bg]))
                            R.add(req_ob("R-LIN", site, "%s: the first level slot is typed like every other slot" % nm, bool(same), detail="slot 0 holds %s" % str(l0)[:200], key={"out": nm, "clause": "slot0"}))
                    # control must not depend on the sources (thresholds, masks, branches)
                    srcset = set(a for a in [bg])
                    bad = []
                    srf = atom_of(S.srf_flx.sym)

                    def mentions_source(e, depth=0):
                        for a in e.atoms():
                            if a is bg or a is srf:
                                return True
                            if a.kind == "fn" and depth < 6 and any(isinstance(x, Expr) and mentions_source(x, depth + 1) for x in a.args):
                                return True
                        return False

                    for ent in v.r.facts.signs:
                        ats = ent[0].atoms()
                        qa = [a for a in ent[0].top_atoms() if a.kind == "fn" and (a.name.startswith("any:") or a.name.startswith("all:"))]
                        if qa:
                            # a quantified test: "some / every entry is (non)zero" is a test against zero, anything else is a threshold
                            if all(a.name in ("any:!=0", "all:==0", "any:==0", "all:!=0") for a in qa):
                                continue
                        elif ent[1] <= {"0"} or ent[1] == {"+", "-"}:
                            continue  # a test against zero: compatible with linearity iff both sides agree at zero, which R-PATHS decides
                        if mentions_source(ent[0]):
                            bad.append(repr(ent[0])[:120])
                    R.add(req_ob("R-LIN", site, "no branch or mask on this path is decided by the values of the sources", not bad, detail="; ".join(bad[:3]) or None, key={"clause": "control"}))
                    for nm in ():
                        pass
                        deg = c.degree_in(sources) if sources else (0, 0)
                        if fp:
                            want = (0, 1) if (nm == "conc" and ctx == "mean") else (0, 0)
                            ok = deg is not None and deg[0] >= want[0] and deg[1] <= want[1]
                            what = "%s is affine in the background only" % nm
                        else:
                            ok = deg == (1, 1)
                            what = "%s is homogeneous of degree one in (source transform, background)" % nm
                        R.add(req_ob("R-LIN", site, what, ok, detail="degrees %r" % (deg,), key={"out": nm, "clause": "degree"}))
    # the propagator itself must not depend on the sources
    S, vs = views(SA, False, False, "generic")
    v = _one(pick(vs, shifted=False), "numerical")
    for a in _analysis_events(v):
        pad = a.get("pad")
        lin = pad is None or pad["zero"] or pad["mode"] in ("edge", "wrap", "reflect", "symmetric")
        R.add(req_ob("R-LIN", v.site("halo padding"), "the padding of the source is a linear operation (zeros, or a linear boundary mode)", lin,
                     detail=None if lin else "mode=%r constant=%r" % (pad["mode"], pad["value"])))
    for L in v.ivp_loops():
        for k, e in L.matrix.items():
            if isinstance(e, Expr):
                bad = [a for a in e.expand().atoms() if (a.kind == "fn" and a.name in ("dft", "dft0")) or a is atom_of(S.p000)]
                R.add(req_ob("R-LIN", "src/bldfm/solver.py::ivp_solver::vertical sweep", "layer matrix entry %s<-%s is independent of the sources" % k, not bad, nontrivial=True))
    R.analysed = {"files": ["src/bldfm/solver.py"], "functions": ["steady_state_transport_solver", "ivp_solver"], "paths": SA.nruns}
    return R, "linearity typing (degree analysis) of output normal forms + value-independence"


def _source_values_outside(x, S, good, acc=None):
    """atoms built from the values of the surface-flux array that are not the
    argument of one of the accepted transform atoms"""
    acc = [] if acc is None else acc
    fsym = atom_of(S.srf_flx.sym)
    for m in x.n:
        for a, e in m:
            if a in good:
                continue
            if a.kind == "fn" and a.args and isinstance(a.args[0], Expr) and fsym in a.args[0].atoms() and a.name in ("elem", "at", "sum", "max", "min", "pick", "abs", "cumsum", "gather"):
                acc.append(repr(a))
                continue
            for arg in a.args:
                if isinstance(arg, Expr):
                    _source_values_outside(arg, S, good, acc)
            if isinstance(e, Expr):
                _source_values_outside(e, S, good, acc)
    return acc


def _occurs_hidden(x, target):
    """does `target` occur inside an argument / exponent / negative power?"""
    for m in x.n:
        for a, e in m:
            if a is target:
                if not isinstance(e, int) or e < 0:
                    return True
                continue
            if isinstance(e, Expr) and target in e.atoms():
                return True
            for arg in a.args:
                if isinstance(arg, Expr) and target in arg.atoms():
                    return True
    return False


@solver_check
def check_C06(P, tier, SA, holder):
    R = holder["R"] = Result("C06", tier)
    R.min_obligations = 16
    R.explanation = ("Translation equivariance follows from the pipeline being a Fourier multiplier: (R-MULT) on every path the typestate analysis finds no "
                     "layout, truncation or padding inconsistency between the forward transform of the source and the output transform, and the output coefficient "
                     "is the source coefficient times a source-independent factor (degree one, no mixing of wavenumbers is expressible in the pointwise domain); "
                     "(R-PHASE) the tower enters the footprint as exp(i(lx xm + ly ym)) with lx*dx = 2 pi k/nxe, k the integer FFT index, and the dispersion-mode "
                     "re-centring factor is exp(i(lx(xm-xmax/2)+ly(ym-ymax/2))), independent of halo; (R-REFLECT) transform directions. Sub-cell shifts are not decided.")
    R.trusted = [TRUST_NUMPY, TRUST_ALG, "DFT shift theorem"]
    S, vd = views(SA, False, False, "generic")
    S, vf = views(SA, True, False, "generic")
    d0 = _one(pick(vd, shifted=False), "dispersion unshifted")
    d1 = _one(pick(vd, shifted=True), "dispersion shifted")
    f = _one(pick(vf), "footprint")
    lx, ly = f.wavenumbers()
    z0 = RS.zero_tower(S)
    for nm in ("flx", "conc"):
        cf = f.coeff(nm)
        if isinstance(cf, Expr):
            R.add(eq_ob("R-PHASE", f.site("footprint shift"), "%s: moving the tower multiplies mode (kx,ky) by exp(i(lx xm + ly ym))" % nm, cf, alg.exp(IMAG * (lx * S.xm + ly * S.ym)) * cf.subs(z0), key={"out": nm}))
        c0 = d0.coeff(nm)
        for dk in pick(vd, shifted=True):
            c1 = dk.coeff(nm)
            if isinstance(c0, Expr) and isinstance(c1, Expr):
                R.add(eq_ob("R-PHASE", dk.site("dispersion re-centring"), "%s: re-centring factor is exp(i(lx(xm-xmax/2)+ly(ym-ymax/2))) on every path with a non-zero measurement point" % nm, c1,
                            alg.exp(IMAG * (lx * (S.xm - S.xmx / 2) + ly * (S.ym - S.ymx / 2))) * c0, "value at the domain centre is the field at (xm, ym)", key={"out": nm}))
        if isinstance(c0, Expr):
            R.add(req_ob("R-PHASE", d1.site("dispersion re-centring"), "%s: unshifted path carries no tower dependence" % nm, not ({atom_of(S.xm), atom_of(S.ym)} & c0.atoms())))
    # a dispersion path that does not re-centre must have established that the measurement point is the origin: any other
    # condition (xm > ym, xm * ym != 0, ...) leaves towers that are silently not re-centred
    for du in pick(vd, shifted=False):
        at_origin = du.possible(S.xm * S.xm + S.ym * S.ym) <= {"0"} or (du.possible(S.xm) <= {"0"} and du.possible(S.ym) <= {"0"})
        tower_tests = [(e, op, d) for e, op, d in getattr(du.r, "constraints", []) if {atom_of(S.xm), atom_of(S.ym)} & set(e.atoms())]
        R.add(req_ob("R-PHASE", du.site("dispersion re-centring"), "a path without re-centring is taken only for a measurement point at the origin", at_origin if (at_origin or tower_tests) else None,
                     detail=None if at_origin else "the path is selected by %s, which does not force xm = ym = 0" % "; ".join("%r %s 0 is %s" % t for t in tower_tests[:2]), key={"clause": "origin-only"}))
    kx = alg.fn("fftidx", f.nlx_eff, integer=True)
    R.add(eq_ob("R-PHASE", f.site("wavenumbers"), "lx*dx = 2 pi k/nxe with integer k (whole-cell shifts are exact)", lx * f.dx, 2 * RS.PI() * kx / f.Nx))
    ky = alg.fn("fftidx", f.nly_eff, integer=True)
    R.add(eq_ob("R-PHASE", f.site("wavenumbers"), "ly*dy = 2 pi k/nye with integer k", ly * f.dy, 2 * RS.PI() * ky / f.Ny))
    # the code's own wavenumbers: read off the layer matrix through R-STEP1 (shared with C01)
    step = [o for o in RS.step_obligations(d0, 1, "R-MULT", uniform=False) if "(q<-p), coefficient of dz^1" in o.what]
    R.add(step)
    for fp, vv in ((False, vd), (True, vf)):
        for v in vv:
            R.add(RS.event_obs(v, "R-MULT", ("typestate", "shape"), "Fourier layout / truncation / padding consistent along the path (footprint=%s, clamp=%s)" % (fp, v.clamp_state())))
            R.add(RS.event_obs(v, "R-MULT", ("spectral-line-store",), "no row or column of a spectrum is overwritten at a fixed index between the transforms (wavenumbers are only multiplied pointwise) (footprint=%s, clamp=%s)" % (fp, v.clamp_state())))
    obs, _f, _d = registration_obligations(SA, "given", "R-REFLECT", "R-REFLECT")
    R.add(obs)
    R.add(reflect_obligations(SA, "R-REFLECT"))
    hat = atom_of(S.halo)
    c1 = d1.coeff("flx")
    c0 = d0.coeff("flx")
    R.analysed = {"files": ["src/bldfm/solver.py", "src/bldfm/fft_manager.py"], "functions": ["steady_state_transport_solver", "ivp_solver"], "paths": SA.nruns}
    return R, "Fourier-multiplier typestate + phase normal form"


# --------------------------------------------------------------------------


@solver_check
def check_C07(P, tier, SA, holder):
    R = holder["R"] = Result("C07", tier)
    R.min_obligations = 30
    R.explanation = ("(R-UNITS) dimensional homogeneity of the canonical forms: with S-SIG's dimensions (lengths L, winds L/T, diffusivities L^2/T, source F, "
                     "background F T/L) every sum in the layer matrix and in the output coefficients joins like quantities, every exp/log/int argument is a pure "
                     "number, the flux coefficient is [F] and the concentration [F T/L] (resp. 1 and T/L per unit source in footprint mode); by Buckingham-pi the "
                     "solver is then exactly invariant under the two similarity groups of the property. (R-SIGMA) exchanging the x- and y-role atoms of S-SIG "
                     "(sizes, extents, mode counts, tower coordinates, wind components, horizontal diffusivities, FFT indices) maps the layer matrix and every "
                     "output coefficient to itself, and the array-axis roles are fixed by shapes ((ny,nx), meshgrid order, pad/crop positions). (R-MIRROR) the "
                     "layer matrix and transfer function are invariant under (k_x,u)->-(k_x,u) and (k_y,v)->-(k_y,v). Nyquist components and rounding are not decided.")
    R.trusted = [TRUST_NUMPY, TRUST_ALG, "Buckingham pi theorem: dimensionally homogeneous => invariant under unit rescaling", "fft2 of a transposed array is the transpose of fft2 (S-NUMPY)"]
    S, vd = views(SA, False, False, "generic")
    d0 = _prepare(_one(pick(vd, shifted=False), "dispersion unshifted"))
    L = d0.roles["loop"]
    ip, iq = L.state.index(d0.roles["p"]), L.state.index(d0.roles["q"])
    sig = RS.sigma_map(S)
    site_l = "src/bldfm/solver.py::ivp_solver::vertical sweep"
    names = {(ip, ip): "(p<-p)", (ip, iq): "(p<-q)", (iq, ip): "(q<-p)", (iq, iq): "(q<-q)"}
    U = RS.Units(S, roles=(ip, iq))
    want_m = {(ip, ip): {}, (iq, iq): {}, (ip, iq): {"T": 1, "L": -1}, (iq, ip): {"L": 1, "T": -1}}
    for (r, c), nm in names.items():
        e = L.matrix[(L.state[r], L.state[c])]
        if not isinstance(e, Expr):
            R.add(req_ob("R-UNITS", site_l, "layer matrix entry %s algebraic" % nm, None))
            continue
        ee = e.expand()
        R.add(RS.units_ob(U, "R-UNITS", site_l, "layer matrix entry %s" % nm, ee, want_m[(r, c)]))
        if RS.DEFAULT_CLAMP[0] == RS.DEFAULT_CLAMP[1]:
            R.add(eq_ob("R-SIGMA", site_l, "layer matrix entry %s is invariant under the exchange of the x and y roles" % nm, ee.subs(sig), ee, "S-PDE is symmetric under (x,u,Kx)<->(y,v,Ky)"))
        for ax in ("x", "y"):
            R.add(eq_ob("R-MIRROR", site_l, "layer matrix entry %s is even under (k_%s, wind_%s) -> -(k_%s, wind_%s)" % (nm, ax, ax, ax, ax), ee.subs(RS.mirror_map(S, ee, ax, d0)), ee))
    for fp in (False, True):
        for an in (False, True):
            for ctx in ("generic", "mean"):
                S, vs = views(SA, fp, an, ctx)
                for v in pick(vs, shifted=None):
                    if not an:
                        _prepare(v) if ctx == "generic" else None
                    site = v.site("output coefficient (footprint=%s analytic=%s %s mode%s)" % (fp, an, ctx, ", shifted" if v.shifted() else ""))
                    Fd = {} if fp else {"F": 1}
                    for nm, want in (("flx", dict(Fd)), ("conc", RS._dadd(Fd, {"T": 1, "L": -1}))):
                        c = v.coeff(nm)
                        if not isinstance(c, Expr):
                            R.add(req_ob("R-UNITS", site, "%s coefficient algebraic" % nm, None, detail=repr(c)))
                            continue
                        if fp and nm == "conc" and ctx == "mean":
                            # background [F T/L] is added to a per-unit-source quantity [T/L]: the unit source carries F=1
                            U2 = RS.Units(S, roles=(ip, iq))
                            U2.sym[atom_of(S.p000).id] = {"T": 1, "L": -1}
                            R.add(RS.units_ob(U2, "R-UNITS", site, "%s coefficient" % nm, c, want))
                        else:
                            R.add(RS.units_ob(U, "R-UNITS", site, "%s coefficient" % nm, c, want))
                        cn = RS.neutralise_source(c, S)
                        cs_ = v.clamp_state()
                        if cs_[0] == cs_[1]:
                            R.add(eq_ob("R-SIGMA", site, "%s coefficient is invariant under the exchange of the x and y roles" % nm, cn.subs(sig), cn, key={"out": nm}))
    # mirror of the transfer function (unshifted dispersion)
    for nm in ("flx", "conc"):
        c = RS.neutralise_source(d0.coeff(nm), S)
        if isinstance(c, Expr):
            for ax in ("x", "y"):
                R.add(eq_ob("R-MIRROR", d0.site("transfer function"), "%s transfer function is even under (k_%s, wind_%s) -> -(k_%s, wind_%s)" % (nm, ax, ax, ax, ax), c.subs(RS.mirror_map(S, c, ax, d0)), c))
    # footprint mode: mirror/translation of the tower needs the Green's function registered at exactly the cropped cells
    obs_r, _f, _d = registration_obligations(SA, "given", "R-MIRROR", "R-MIRROR")
    R.add(obs_r)
    # axis roles by shape: grid and outputs
    for fp in (False, True):
        S, vs = views(SA, fp, False, "generic")
        v = _one(pick(vs, shifted=None if fp else False), "path")
        R.add(crop_obligations(v, "R-AXES", fp))
        R.add(RS.event_obs(v, "R-AXES", ("shape",), "all elementwise operations and mask indexings are shape-consistent for nx != ny, nlx != nly (footprint=%s)" % fp))
    # the default halo is sigma-symmetric
    S, vh = views(SA, True, False, "generic", halo="none")
    h = _one(pick(vh), "default halo")
    for nm in ("flx",):
        c = h.coeff(nm)
        if isinstance(c, Expr):
            R.add(eq_ob("R-SIGMA", h.site("default halo"), "footprint coefficient with the default halo is invariant under the exchange of the x and y roles", c.subs(sig), c))
    R.analysed = {"files": ["src/bldfm/solver.py"], "functions": ["steady_state_transport_solver", "ivp_solver"], "paths": SA.nruns}
    return R, "dimensional homogeneity; sigma-closure; mirror evenness of normal forms"


@solver_check
def check_C10(P, tier, SA, holder):
    R = holder["R"] = Result("C10", tier)
    R.min_obligations = 30
    R.explanation = ("(R-LVL-STATE) in each sweep the value stored for a requested node is the loop-carried state at the head of that node's iteration (before the "
                     "layer update), the slot is the running counter incremented after the store, and the top node is stored after the loop from the final state; "
                     "(R-LVL-ORDER) the counter idiom is sound only for a strictly ascending list: the list tested by `in` must be provably sorted-unique "
                     "(np.unique) and the outputs must be gathered back through the inverse permutation, so that the spectral coefficient of slot k depends on "
                     "the level only through levels[k] of the caller's list - the same element whose height z[levels[k]] is returned; (R-LVL-SIBLING) all level "
                     "consumers (both auxiliary sweeps, mean sweep, analytic heights, returned Z) see the same sequence; (R-SHAPE) every elementwise operation, "
                     "mask indexing and store is broadcast-compatible for an arbitrary number of levels in all four mode combinations and for a scalar level.")
    R.trusted = [TRUST_NUMPY, TRUST_ALG, "np.unique(x, return_inverse=True): U sorted strictly ascending and U[inv] == x"]
    lev_req = None
    for fp in (False, True):
        for an in (False, True):
            for ctx in ("generic", "mean"):
                S, vs = views(SA, fp, an, ctx)
                lev_req = RS.level_atom(S)
                for v in pick(vs, shifted=None)[:1]:
                    tag = "(footprint=%s analytic=%s %s mode)" % (fp, an, ctx)
                    R.add(RS.event_obs(v, "R-SHAPE", ("shape",), "operations are broadcast-compatible for any number of levels %s" % tag, v.site("whole function " + tag)))
                    R.add(RS.event_obs(v, "R-LVL-STATE", ("unsupported", "loop-nonlinear"), "level bookkeeping uses only the recognised store/counter idiom %s" % tag, v.site("level bookkeeping " + tag)))
                    # outputs depend on the level only through the caller's list element
                    for nm in ("conc", "flx"):
                        c = v.coeff(nm)
                        if not isinstance(c, Expr):
                            R.add(req_ob("R-LVL-ORDER", v.site("output " + tag), "%s coefficient algebraic" % nm, None, detail=repr(c)))
                            continue
                        others = [a for a in c.atoms() if a.kind == "fn" and a.name == "elem" and a is not atom_of(lev_req) and not a.args[0].eq(S.srf_flx.sym)]
                        R.add(req_ob("R-LVL-ORDER", v.site("output " + tag), "slot k of %s is a function of levels[k] of the caller's list (not of a sorted copy)" % nm, not others,
                                     detail="; ".join(map(repr, others)) or None, key={"out": nm}))
                    R.add(eq_ob("R-LVL-SIBLING", v.site("returned heights " + tag), "returned height of slot k is z[levels[k]]", v.Z.val, S.z.at(lev_req)))
                    a = v.Z
                    shp = a.meta.get("presqueeze_shape", a.shape)
                    R.add(req_ob("R-LVL-SIBLING", v.site("returned heights " + tag), "height grid has one slice per requested level", shp is not None and shp[0].eq(S.nlev), detail=repr(shp)))
                    if not an:
                        R.add(level_store_obligations(v, S, ctx))
    # scalar level: squeezed 2-D outputs, same value
    for fp in (False, True):
        for an in (False, True):
            S, vs = views(SA, fp, an, "generic", levels_kind="scalar")
            v = _one(pick(vs, shifted=None if fp else False), "scalar level")
            tag = "(scalar level, footprint=%s analytic=%s)" % (fp, an)
            R.add(RS.event_obs(v, "R-SHAPE", ("shape", "unsupported"), "scalar level argument is handled %s" % tag, v.site("whole function " + tag)))
            R.add(eq_ob("R-LVL-SIBLING", v.site("returned heights " + tag), "returned height is z[level]", v.Z.val, S.z.at(RS.level_atom(S))))
            shp = v.flx.shape
            R.add(req_ob("R-SHAPE", v.site("outputs " + tag), "a scalar level returns 2-D (ny, nx) fields", shp is not None and len(shp) == 2 and shp[0].eq(S.ny) and shp[1].eq(S.nx), detail=repr(shp)))
    R.analysed = {"files": ["src/bldfm/solver.py"], "functions": ["steady_state_transport_solver", "ivp_solver"], "paths": SA.nruns}
    return R, "loop-state reaching definitions, counter-idiom guard, shape typing"


def level_store_obligations(v, S, ctx):
    obs = []
    loops = [L for L in v.r.loops if L.level_stores]
    want = 2 if ctx == "generic" else 1
    site0 = v.site("level bookkeeping")
    relevant = []
    for L in loops:
        pts = {ls.point for ls in L.level_stores}
        if ctx in pts:
            relevant.append(L)
    if ctx == "generic":
        relevant = [L for L in relevant if L.kind == "linear"]
    if len(relevant) < want:
        if not relevant and ctx == "mean":
            # no sweep with per-level stores at the mean mode: the slot/level correspondence is decided on the output normal form instead
            lev = RS.level_atom(S)
            c = v.coeff("conc")
            ok = isinstance(c, Expr)
            obs.append(req_ob("R-LVL-STATE", site0, "without a level sweep the mean concentration of slot k is an explicit function of levels[k]", ok if ok else None, detail=None if ok else repr(c)[:200]))
            l0 = v.fields["conc"]["synth"].get("lvl0")
            obs.append(req_ob("R-LVL-SIBLING", site0, "every level slot is computed by the same rule (no slot is written separately)", l0 is None,
                              detail=None if l0 is None else "slot 0 holds %s while the other slots hold %s" % (str(l0)[:150], str(c)[:150])))
            return obs
        obs.append(req_ob("R-LVL-STATE", site0, "%d sweep(s) store per-level results at the %s mode" % (want, ctx), None if not relevant else False, detail="%d found" % len(relevant)))
        return obs
    for L in relevant:
        site = "src/bldfm/solver.py::%s::level stores of sweep %d" % (L.function, L.id)
        ins = [ls for ls in L.level_stores if ls.in_loop and ls.point == ctx]
        outs = [ls for ls in L.level_stores if not ls.in_loop and ls.point == ctx]
        i = L.rng.start + alg.atom_expr(L.ivar) * L.rng.step
        fin = L.state_at(L.rng.count) if getattr(L, "state_at", None) and L.linear else None
        for ls in ins:
            if getattr(ls, "masked", False):
                # x[levels == i] = state: the slots are chosen by the requested level itself, in any order and multiplicity
                obs.append(eq_ob("R-LVL-STATE", site, "masked store into %s selects the slots whose requested level is the current node" % ls.array, ls.guard.value, i))
                continue
            # guard: loop node index in the level list
            obs.append(eq_ob("R-LVL-STATE", site, "store into %s is guarded by membership of the current node index" % ls.array, ls.guard.value, i))
            cont = ls.guard.container
            su = isinstance(cont, Arr) and bool(cont.meta.get("sorted_unique"))
            obs.append(req_ob("R-LVL-ORDER", site, "the list tested by the counter idiom for %s is provably strictly ascending (sorted unique)" % ls.array, su,
                              detail=None if su else "level list reaching the sweep is %s; slots follow ascending node order while heights follow the caller's order" % (cont.name if isinstance(cont, Arr) else cont), key={"array": ls.array}))
            # value: a loop-head atom
            heads = {a.id: k for k, (a, _) in L.head.items()}
            val = ls.value
            okv = isinstance(val, Expr) and val.as_mono() is not None and len(val.as_mono()[1]) == 1 and val.as_mono()[1][0][0].id in heads and val.as_mono()[0] == alg.C1
            var = heads.get(val.as_mono()[1][0][0].id) if okv else None
            obs.append(req_ob("R-LVL-STATE", site, "value stored in %s is the carried state before the layer update" % ls.array, okv, detail=None if okv else "stored %r" % (val,), key={"array": ls.array}))
            cnt = [k for k, a0 in L.counters.items() if isinstance(ls.slot, Expr) and ls.slot.eq(a0)]
            obs.append(req_ob("R-LVL-STATE", site, "slot of %s is the running counter, incremented after the store" % ls.array, bool(cnt), detail=None if cnt else "slot %r" % (ls.slot,)))
            # matching post-loop store
            match = [o for o in outs if o.array == ls.array]
            covers_all = L.rng.count.eq(S.nz)
            if covers_all:
                continue
            if not match:
                obs.append(req_ob("R-LVL-STATE", site, "the top node of %s is stored after the sweep" % ls.array, False, detail="no store under a membership test after the loop"))
                continue
            o = match[0]
            obs.append(eq_ob("R-LVL-STATE", site, "post-sweep store of %s is guarded by membership of the top node" % ls.array, o.guard.value, L.rng.start + L.rng.count * L.rng.step))
            obs.append(eq_ob("R-LVL-STATE", site, "sweep plus post-sweep store cover nodes 0..nz-1", L.rng.count + ONE, S.nz))
            if var is not None and fin is not None and var in fin:
                obs.append(eq_ob("R-LVL-STATE", site, "post-sweep store of %s holds the final state of the same variable" % ls.array, o.value, fin[var]))
            same_cont = o.guard.container is ls.guard.container or (isinstance(o.guard.container, Arr) and isinstance(ls.guard.container, Arr) and o.guard.container.meta.get("ident") == ls.guard.container.meta.get("ident") and o.guard.container.meta.get("ident") is not None)
            obs.append(req_ob("R-LVL-SIBLING", site, "in-sweep and post-sweep stores of %s test the same level list" % ls.array, same_cont))
    return obs


@solver_check
def check_C11(P, tier, SA, holder):
    R = holder["R"] = Result("C11", tier)
    R.min_obligations = 40
    R.explanation = ("(R-SHAPE-OUT) on every non-raising path (all clamp outcomes, both modes, given and default halo) the returned fields have exactly the shape "
                     "(levels, ny, nx) of the surface-flux field and the coordinates i*dx, j*dy - decided with symbolic integer shapes; (R-PARITY) every "
                     "floor-division used as a symmetric truncation/pad width is exact on the non-raising paths because a dominating guard establishes the parity "
                     "(the guard facts enter the shape algebra; without them the padded length differs from the grid length and R-SHAPE-OUT fails); (R-LOWPASS) "
                     "truncation and re-padding are the same symmetric window in centred layout, so components strictly inside the cut-off are untouched; "
                     "(R-CLAMP) when a requested mode count exceeds the padded size the effective count on that axis is the padded size (both the per-axis and the "
                     "documented joint 'setting both equal' clamp are accepted), and when none exceeds the counts are unchanged.")
    R.trusted = [TRUST_NUMPY, TRUST_ALG]
    for halo in ("given", "none"):
        for fp in (False, True):
            S, vs = views(SA, fp, False, "generic", halo=halo)
            S2, res = SA.run(fp, False, "generic", halo=halo)
            raises = [r for r in res if r.kind == "raise"]
            R.add(req_ob("R-PARITY", "src/bldfm/solver.py::steady_state_transport_solver::guards (footprint=%s, halo %s)" % (fp, halo),
                         "inadmissible parities are rejected by raising (guards dominate the truncation)", len(raises) >= 2, detail="%d raising paths" % len(raises)))
            for v in vs:
                if not fp and v.shifted():
                    continue
                tag = "(footprint=%s, halo %s, clamp=%s)" % (fp, halo, v.clamp_state())
                for nm in ("conc", "flx"):
                    a = getattr(v, nm)
                    shp = a.meta.get("presqueeze_shape", a.shape)
                    want = (S.nlev, S.ny, S.nx)
                    ok = shp is not None and len(shp) == 3 and all(x.eq(y) for x, y in zip(shp, want))
                    R.add(req_ob("R-SHAPE-OUT", v.site("outputs " + tag), "%s has exactly the shape of the surface-flux field" % nm, ok, detail=None if ok else "shape %r, expected %r" % (shp, want), key={"out": nm, "footprint": fp}))
                    fd = [x for x in (shp or ()) for at in x.expand().atoms() if at.kind == "fn" and at.name == "floordiv"]
                    R.add(req_ob("R-PARITY", v.site("outputs " + tag), "no inexact floor-division survives in the shape of %s" % nm, not fd, detail="; ".join(map(repr, fd))[:200] or None, key={"out": nm, "footprint": fp}))
                R.add(eq_ob("R-SHAPE-OUT", v.site("grid " + tag), "x coordinates are i*dx", v.X.val, alg.fn("idx", S.nx, integer=True) * v.dx))
                R.add(eq_ob("R-SHAPE-OUT", v.site("grid " + tag), "y coordinates are j*dy", v.Y.val, alg.fn("idx", S.ny, integer=True) * v.dy))
                R.add(RS.event_obs(v, "R-LOWPASS", ("typestate", "shape"), "truncation, padding and layout are consistent " + tag, v.site("spectral truncation " + tag)))
                # re-padding restores the padded grid
                sy = v.fields["flx"]["synth"]
                if sy.get("kept") and sy.get("respec_pad"):
                    for k, axn in ((0, "y"), (1, "x")):
                        b, a_ = sy["respec_pad"][k]
                        N = (v.Ny, v.Nx)[k]
                        grid = (S.ny + 2 * v.py, S.nx + 2 * v.px)[k]
                        R.add(eq_ob("R-LOWPASS", v.site("untruncation " + tag), "%s: kept modes + 2*pad width equals the padded grid size" % axn, sy["kept"][k] + b + a_, grid))
                        R.add(eq_ob("R-LOWPASS", v.site("untruncation " + tag), "%s: re-padding is symmetric" % axn, b, a_))
                    if not fp:
                        tr = [e[2] for e in v.r.events if e[0] == "spec-truncate"]
                        R.add(req_ob("R-LOWPASS", v.site("truncation " + tag), "the source spectrum is truncated once per axis", len(tr) == 2, detail="%d slices" % len(tr)))
                        for t in tr:
                            k = t["axis"]
                            R.add(eq_ob("R-LOWPASS", v.site("truncation " + tag), "axis %d: truncation window is symmetric about the zero frequency" % k, t["lo"], t["dim"] - t["hi"]))
                            R.add(eq_ob("R-LOWPASS", v.site("truncation " + tag), "axis %d: truncation offset equals the re-padding width" % k, t["lo"], sy["respec_pad"][k][0]))
                            R.add(eq_ob("R-LOWPASS", v.site("truncation " + tag), "axis %d: window length equals the effective mode count" % k, t["hi"] - t["lo"], sy["kept"][k]))
                else:
                    R.add(req_ob("R-LOWPASS", v.site("untruncation " + tag), "the truncated spectrum is re-padded before the output transform", None, detail="no re-padding found"))
                # clamp decision table
                cx, cy = v.clamp_state()
                ex, ey = v.nlx_eff, v.nly_eff
                site = v.site("mode clamp " + tag)
                if cx is False and cy is False:
                    R.add(eq_ob("R-CLAMP", site, "x mode count unchanged when it fits", ex, S.nlx))
                    R.add(eq_ob("R-CLAMP", site, "y mode count unchanged when it fits", ey, S.nly))
                else:
                    if cx is True:
                        R.add(eq_ob("R-CLAMP", site, "x mode count clamped to the padded size", ex, v.Nx))
                    if cy is True:
                        R.add(eq_ob("R-CLAMP", site, "y mode count clamped to the padded size", ey, v.Ny))
                    if cx is True and cy is not True:
                        okj = ey.eq(v.Ny) or ey.eq(S.nly) or ey.eq(alg.fmin(S.nly, v.Ny.expand()))
                        R.add(req_ob("R-CLAMP", site, "y mode count is the padded size (joint clamp) or its own clamp when only x exceeds", okj, detail="effective %r" % (ey,)))
                    if cy is True and cx is not True:
                        okj = ex.eq(v.Nx) or ex.eq(S.nlx) or ex.eq(alg.fmin(S.nlx, v.Nx.expand()))
                        R.add(req_ob("R-CLAMP", site, "x mode count is the padded size (joint clamp) or its own clamp when only y exceeds", okj, detail="effective %r" % (ex,)))
    # "correctly registered": the footprint sits at the cropped cells (shared with C02)
    for halo in ("given", "none"):
        obs_r, _f, _d = registration_obligations(SA, halo, "R-SHAPE-OUT", "R-SHAPE-OUT")
        R.add(obs_r)
    R.analysed = {"files": ["src/bldfm/solver.py"], "functions": ["steady_state_transport_solver"], "paths": SA.nruns}
    return R, "symbolic shapes with parity facts; clamp decision tables; truncation typestate"
