"""Property checks that are decided on the abstract solver runs."""

import alg
from alg import Expr, ZERO, ONE, IMAG
from interp import Arr, Unknown, BOT, psum, IOTA
from front import AnalysisError
from report import Result, Ob, eq_ob, req_ob
import rules_solver as RS
from rules_solver import SolverAnalysis, views, pick, atom_of

TRUST_NUMPY = "S-NUMPY: documented semantics of the numpy/pyfftw calls on the analysed paths (fft2/ifft2 direction and norm, fftshift/ifftshift, fftfreq, meshgrid, pad, linspace, diff, unique, boolean-mask indexing)"
TRUST_ALG = "the checker's exact algebra (rational functions over Q[i], equality by clearing denominators) and its abstract interpreter"


def _one(vs, what):
    if not vs:
        raise AnalysisError("no solver path for %s" % what)
    return vs[0]


# --------------------------------------------------------------------------


def check_C05(P, tier):
    R = Result("C05", tier)
    R.min_obligations = 24
    R.explanation = ("Uniform profiles. (R-ANALYTIC) the analytic branch is interpreted abstractly and the spectral coefficient fed to the "
                     "output transform is compared, as an exact algebraic identity, with the half-space closed form q0*exp(-lambda h), q/(Kz lambda), "
                     "p000 - q00 h/Kz. (R-SHARED) analytic and numerical paths pass through the same padding/truncation/shift/transform/crop "
                     "(identical typestate path, offsets, transform, phase factor). (R-STEP3) the layer matrix of the sweep is read off the loop body "
                     "and its Taylor coefficients in dz=z[i+1]-z[i] are compared with those of exp(M dz) through dz^3 for all symbols at once. "
                     "Decides the structure that yields third order; the observed ratio itself is numerical and not decided.")
    R.trusted = [TRUST_NUMPY, TRUST_ALG, "a one-step method whose local expansion agrees with the exact propagator through dz^3 has global order 3"]
    SA = SolverAnalysis(P)
    # R-STEP3 on the numerical generic path
    S, vs = views(SA, False, False, "generic")
    v = _one(pick(vs, shifted=False), "numerical dispersion, no clamp, no shift")
    R.add(RS.step_obligations(v, 3, "R-STEP3", uniform=True))
    # R-ANALYTIC generic + mean
    lev = RS.level_atom(S)
    for fp in (False, True):
        S, va = views(SA, fp, True, "generic")
        for w in pick(va, shifted=None if fp else False)[:1]:
            q0 = RS.source_spec(w, fp)
            p_s, q_s = RS.analytic_spec(w, q0, lev)
            ph = RS.phase_spec(w, fp, False)
            src = "S-PDE half-space solution: q=q0 exp(-lambda h), p=q/(Kz lambda), lambda^2=-T/Kz at the top node, h=z[level]-z[0]"
            R.add(eq_ob("R-ANALYTIC", w.site("analytic branch (footprint=%s)" % fp), "flux spectrum of a non-mean mode at a requested level", w.coeff("flx"), q_s * ph, src))
            R.add(eq_ob("R-ANALYTIC", w.site("analytic branch (footprint=%s)" % fp), "concentration spectrum of a non-mean mode at a requested level", w.coeff("conc"), p_s * ph, src))
        S, vm = views(SA, fp, True, "mean")
        for w in pick(vm, shifted=None if fp else False)[:1]:
            q00 = RS.source_spec(w, fp)
            h = S.z.at(lev) - S.z.at(ZERO)
            R.add(eq_ob("R-ANALYTIC", w.site("analytic branch, mean mode (footprint=%s)" % fp), "mean concentration is linear in height",
                        w.coeff("conc"), S.p000 - q00 * h / S.Kz.at(RS.top_index(S)), "p00 = p000 - q00 h / Kz"))
            R.add(eq_ob("R-ANALYTIC", w.site("analytic branch, mean mode (footprint=%s)" % fp), "mean flux equals the mean surface flux at every level",
                        w.coeff("flx"), q00, "q00(z) = q00"))
    # R-SHARED: same post-processing for analytic and numerical
    for fp in (False, True):
        S, va = views(SA, fp, True, "generic")
        S, vn = views(SA, fp, False, "generic")
        a = _one(pick(va, shifted=None if fp else True), "analytic")
        n = _one(pick(vn, shifted=None if fp else True), "numerical")
        for nm in ("conc", "flx"):
            fa, fn = a.fields[nm], n.fields[nm]
            same = (fa["synth"]["dir"] == fn["synth"]["dir"] and fa["synth"]["scale"].eq(fn["synth"]["scale"])
                    and all(x.eq(y) for x, y in zip(fa["crop"], fn["crop"])) and all(x.eq(y) for x, y in zip(fa["synth"]["N"], fn["synth"]["N"]))
                    and (fa["synth"].get("kept") is None) == (fn["synth"].get("kept") is None)
                    and all(x.eq(y) for x, y in zip(fa["synth"].get("kept") or (), fn["synth"].get("kept") or ())))
            R.add(req_ob("R-SHARED", a.site("post-processing (footprint=%s)" % fp), "%s: analytic and numerical results pass the same untruncation, transform and crop" % nm, same))
        # phase factor identical: ratio of shifted to unshifted coefficient equal in both modes
        if not fp:
            a0 = _one(pick(va, shifted=False), "analytic unshifted")
            n0 = _one(pick(vn, shifted=False), "numerical unshifted")
            R.add(eq_ob("R-SHARED", a.site("measurement-point shift"), "analytic and numerical modes apply the same shift factor",
                        a.coeff("flx") * n0.coeff("flx"), n.coeff("flx") * a0.coeff("flx")))
        ev = [e for e in a.r.events if e[0] in ("typestate", "shape")]
        R.add(req_ob("R-SHARED", a.site("analytic path (footprint=%s)" % fp), "analytic path is shape- and layout-consistent", not ev, detail=str(ev[:3]) if ev else None))
    R.analysed = {"files": ["src/bldfm/solver.py", "src/bldfm/fft_manager.py", "src/bldfm/utils.py"],
                  "functions": ["steady_state_transport_solver", "ivp_solver", "fft2", "ifft2", "get_fft_manager"], "paths": SA.nruns}
    return R, "closed-form equality of normal forms; propagator series to dz^3"


def check_C01(P, tier):
    R = Result("C01", tier)
    R.min_obligations = 20
    R.explanation = ("Structure of a consistent, correctly closed one-step method, each clause an exact identity of normal forms obtained by abstract "
                     "interpretation of the solver: (R-STEP1) the sweep's layer matrix is I + M dz + O(dz^2) with M the S-PDE system matrix, coefficients "
                     "sampled inside the layer, dz the thickness of that layer, layers 0..nz-2 once each; (R-SYMBOL) T and the wavenumbers 2 pi k/(dx nxe); "
                     "(R-TOPBC/R-SHOOT) the spectral coefficient of every non-mean mode at every requested level equals the unique trajectory of that "
                     "propagator with q(z0)=q0 and q=Kz lambda p at the top node, lambda the principal root of -T/Kz; (R-MEAN) the mean mode is the "
                     "trapezoidal resistance integral and the mean flux is constant. By the convergence theorem for one-step methods these imply "
                     "convergence for every smooth positive profile family; constants and ratios are numerical and not decided.")
    R.trusted = [TRUST_NUMPY, TRUST_ALG, "convergence theorem for consistent one-step methods on linear ODE systems with smooth coefficients",
                 "np.sqrt of a complex argument returns the principal root (Re >= 0)"]
    SA = SolverAnalysis(P)
    S, vs = views(SA, False, False, "generic")
    v = _one(pick(vs, shifted=False), "numerical dispersion, no clamp, no shift")
    R.add(RS.step_obligations(v, 1, "R-STEP1", uniform=False))
    lev = RS.level_atom(S)
    # initial states of the two auxiliary problems
    inits = RS.second_ivp_initial(v)
    q0 = RS.source_spec(v, False)
    site = v.site("linear shooting")
    if len(inits) == 2:
        R.add(eq_ob("R-SHOOT", site, "first auxiliary problem starts from p=1", inits[0][0], ONE))
        R.add(eq_ob("R-SHOOT", site, "first auxiliary problem starts from q=0", inits[0][1], ZERO))
        R.add(eq_ob("R-SHOOT", site, "second auxiliary problem starts from p=0", inits[1][0], ZERO))
        R.add(eq_ob("R-SHOOT", site, "second auxiliary problem starts from the source spectrum", inits[1][1], q0, "q(z0) = q0_hat (scaled forward transform of the padded source)"))
    else:
        R.add(req_ob("R-SHOOT", site, "exactly two auxiliary initial-value problems are solved", False, detail="%d found" % len(inits)))
    p_s, q_s, a_s = RS.trajectory_spec(v, q0, lev)
    src = "S-PDE: X(l)=Phi(l)(a,q0)^T with a fixed by q=Kz*lambda*p at the top node, lambda=sqrt(-T/Kz) principal"
    R.add(eq_ob("R-SHOOT", site, "flux spectrum of a non-mean mode at a requested level", v.coeff("flx"), q_s, src, key={"out": "flx"}))
    R.add(eq_ob("R-SHOOT", site, "concentration spectrum of a non-mean mode at a requested level", v.coeff("conc"), p_s, src, key={"out": "conc"}))
    # surface condition and top condition as identities of the code's own result
    cq, cp = v.coeff("flx"), v.coeff("conc")
    if isinstance(cq, Expr) and isinstance(cp, Expr):
        la = atom_of(lev)
        R.add(eq_ob("R-SHOOT", site, "surface condition q(z0)=q0 for every mode", cq.subs({la: ZERO}), q0))
        lx, ly = v.wavenumbers()
        lam, lam2 = RS.eigen_spec(S, lx, ly)
        top = RS.top_index(S)
        R.add(eq_ob("R-TOPBC", site, "radiation condition q = Kz*lambda*p at the top node", cq.subs({la: top}), S.Kz.at(top) * lam * cp.subs({la: top}),
                    "decaying constant-coefficient continuation: lambda^2 = -T/Kz at the top node"))
        R.add(eq_ob("R-TOPBC", site, "lambda^2 equals -T/Kz of the top node", lam * lam, lam2))
    # mean mode
    S, vm = views(SA, False, False, "mean")
    w = _one(pick(vm, shifted=False), "numerical dispersion mean mode")
    R.add(mean_obligations(w, False, "R-MEAN"))
    R.analysed = {"files": ["src/bldfm/solver.py", "src/bldfm/fft_manager.py", "src/bldfm/utils.py"],
                  "functions": ["steady_state_transport_solver", "ivp_solver", "fft2", "ifft2"], "paths": SA.nruns}
    return R, "consistency + closure of the one-step scheme by algebraic normal forms"


def mean_obligations(w, footprint, rule):
    """mean-mode recursion and constant mean flux (ctx='mean' view)"""
    S = w.S
    obs = []
    site = w.site("mean-mode sweep")
    q00 = RS.source_spec(w, footprint)
    lev = RS.level_atom(S)
    obs.append(eq_ob(rule, w.site("mean flux"), "mean-mode flux at every level is the mean surface flux", w.coeff("flx"), q00,
                     "q00(z) = q00 (conservation)", key={"out": "flx"}))
    loops = w.mean_loops()
    if len(loops) != 1:
        obs.append(req_ob(rule, site, "one accumulating sweep for the mean concentration", None if not loops else False, detail="%d found" % len(loops)))
        return obs
    L = loops[0]
    var = L.state[0]
    i = L.rng.start + alg.atom_expr(L.ivar) * L.rng.step
    obs.append(eq_ob(rule, site, "mean sweep covers layers 0..nz-2", L.rng.count, S.nz - ONE))
    obs.append(eq_ob(rule, site, "mean sweep starts at node 0", L.rng.start, ZERO))
    b = L.offset[var]
    dz = S.z.at(i + ONE) - S.z.at(i)
    trap = -q00 * dz * (ONE / S.Kz.at(i) + ONE / S.Kz.at(i + ONE)) / 2
    umap = {atom_of(S.Kz.at(i + ONE)): S.Kz.at(i)}
    if isinstance(b, Expr):
        be = b.expand()
        obs.append(eq_ob(rule, site, "layer increment is a consistent quadrature of -q00 dz/Kz (uniform-layer limit)", be.subs(umap), trap.subs(umap),
                         "p' = -q/Kz"))
        bad = [repr(a) for a in be.atoms() if a.kind == "fn" and a.name == "at" and not (a.args[1].eq(i) or a.args[1].eq(i + ONE))]
        obs.append(req_ob(rule, site, "increment samples only the two nodes of the layer", not bad, detail="; ".join(bad) or None))
        obs.append(Ob(rule, site, "increment is the trapezoidal rule (informational)", "holds", nontrivial=False,
                      detail="exact trapezoid" if be.eq(trap) else "consistent, other weights"))
        spec = S.p000 + psum(be if not be.eq(trap) else trap, L.ivar, L.rng.start, lev)
        obs.append(eq_ob(rule, site, "mean concentration at a requested level is p000 plus the partial sum of the increments below it", w.coeff("conc"), spec,
                         "p00(l) = p000 - q00 sum_{i<l} dz_i w_i", key={"out": "conc"}))
    else:
        obs.append(req_ob(rule, site, "mean increment is algebraic", None, detail=repr(b)))
    return obs
