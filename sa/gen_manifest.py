#!/usr/bin/env python3
"""Regenerate /verif/MANIFEST.json from the table below (run from /verif)."""
import json, os, sys
sys.path.insert(0, os.path.dirname(os.path.abspath(__file__)))

BASE = "cd /repo && /venv/bin/python -m pytest -ra -q -p no:cacheprovider --timeout=900 --continue-on-collection-errors"

CLAIMS = {
 "C01": ("consistency + closure of the one-step scheme by algebraic normal forms (abstract interpretation, exact rational-function identities)", "3 C01",
         "Decides the structural necessary conditions of convergence (consistent layer matrix with in-layer sampling, exact PDE symbol and wavenumbers, radiation condition with the principal root, shooting combination, surface condition, trapezoidal mean mode) as identities valid for all symbol values; the convergence constants and observed ratios are numerical and are not decided."),
 "C02": ("registration identity of phase / pad / crop / transform direction between the abstractly interpreted footprint and dispersion modes", "3 C02",
         "Decides that the footprint coefficient equals the forward response per unit source displaced by exactly the cropped cells, for every symbol value incl. halos that are not whole cells (given and default halo); residual rounding is not decided."),
 "C03": ("mean-mode reaching value, normalisation product and halo information flow on normal forms", "3 C03",
         "Decides conservation of the mean flux at every level in all mode combinations, the quadrature form of the mean concentration, unit sum of the footprint weights, and halo == zero padding by the integer pad widths; the continuous resistance integral is not decided."),
 "C04": ("linearity typing: total-degree analysis of the output normal forms in the source atoms + value-independence in footprint mode", "3 C04",
         "A type-system style proof of superposition for all inputs (degree exactly one, no source in denominators/exponents/opaque arguments, background only in the mean concentration); rounding is not decided."),
 "C05": ("closed-form equality of the analytic branch; Taylor series of the layer matrix against exp(M dz) to dz^3", "3 C05",
         "Decides the analytic closed form exactly and the series agreement that gives third order; the observed eightfold ratio is numerical and not decided."),
 "C06": ("Fourier-multiplier typestate (layout/truncation/padding) + phase normal form", "3 C06",
         "Decides that the pipeline is a Fourier multiplier with phases exp(i(lx xm+ly ym)), lx dx = 2 pi k/nxe, and the re-centring factor; sub-cell shifts and rounding are not decided."),
 "C07": ("dimensional homogeneity of normal forms (units), sigma-closure under x/y role exchange, mirror evenness", "3 C07",
         "Decides similarity (Buckingham pi via homogeneity), axis-swap and mirror symmetry for all inputs; Nyquist rows/columns and rounding are not decided."),
 "C10": ("loop-state reaching definitions of the level stores, counter-idiom soundness guard (sorted-unique + inverse gather), symbolic shape typing", "3 C10",
         "Decides slot/level correspondence for any order and multiplicity of levels, scalar or list, in all four mode combinations."),
 "C11": ("symbolic integer shapes with parity guard facts; clamp decision tables; truncation typestate", "3 C11",
         "Decides shape preservation or raise on every path, exactness of the symmetric truncation widths, identical truncation/re-padding windows and the clamp table (per-axis or the documented joint clamp)."),

 "C08": ("chain of sign/orientation identities (wind decomposition, advective sign, reflecting transform, east/north geolocation, axis orientation) + access-path wiring", "3 C08",
         "Decides every link that makes the footprint lie upwind, as exact identities and wiring edges; 'within a few degrees on a resolved domain' is numerical and not decided."),
 "C09": ("exp/log identities on the abstractly interpreted profile generator, symbolic derivative of psi, sibling formulas, sign domain", "3 C09",
         "Decides grid pinning at z0 and zm (node n), wind at zm, constant direction, similarity formulas for u and K for all closures/forcings, z0<->ustar round trip, psi'=(phi_m-1)/x, continuity at neutral, agreement with the reference copies; strict positivity is reported per closure (MOSTM Kx, Ky are a recorded finding). Floating-point end-point effects are not decided."),
 "C12": ("effect / memo-key analysis over the solver's call graph; semantic equality of the abstract runs across thread-count and precision variants", "3 C12",
         "Decides that no module-level state other than two confirmed value-neutral instances is touched on the solve path, that every memo is completely keyed, that thread count and precision cannot change the computed normal forms, and that arguments are not mutated; bit-identity and rounding-level agreement are runtime clauses and are not decided."),
 "C13": ("access-path wiring table: run_bldfm_single interpreted abstractly over its option space with recording stubs; sibling tables for the parsers", "3 C13",
         "Decides that every formal of every pipeline stage receives the documented configuration path in all 72 option combinations, that the result carries the step/tower labels, that parsers and dataclasses agree on keys and defaults and that YAML and dict parsing coincide."),
 "C14": ("drivers interpreted abstractly with generated-list semantics and the Executor.map ordering contract; worker reset discipline; loop-carried mapping and memo-key dependence rules", "3 C14",
         "Decides that serial and parallel drivers return exactly the per-tower, time-ordered single runs for every strategy, with positional re-assembly at task boundaries and worker thread/FFT reset; real completion orders are covered by the map contract (trusted)."),
 "C15": ("cache-key completeness by dependence on the abstractly interpreted footprint solver; put/get interpreted with a recording hash object, recording savez and fault-injecting load (same file at lookup and store, every key element hashed, every read failure a miss, no retained references)", "3 C15",
         "Decides transparency (miss == no cache), key completeness for every result-shaping input element, effectiveness (same key at get and put, default halo), corrupt-entry-as-miss for every exception class a damaged file can raise at load or member access, field-for-field round trip and freshness of hits; hash collisions are trusted."),
 "C16": ("abstract interpretation of MetConfig over all 2^4 list/scalar patterns with symbolic lengths; path rule on validate()", "3 C16",
         "Decides step count, per-step extraction and the rejection rules exhaustively over the pattern space and for all lengths at once."),
 "C17": ("composition of the two geolocation transforms' normal forms is the identity; signs of symbolic derivatives", "3 C17",
         "Decides mutual inverses, orientation and origin for all inputs; the 0.1 %/0.1 degree accuracy of the equirectangular map is mathematical and not decided."),
 "C18": ("positional agreement of allocation/dims/stores by abstract interpretation with recording stubs; label provenance; lossless-encoding table", "3 C18",
         "Decides that every field, label and per-step value lands in its own slot for a results order that differs from the configuration order, in 2-D/3-D and both forcings, and that nothing lossy is requested from the NetCDF layer; the library's own bit fidelity is trusted."),
 "C19": ("closed-form equality with symbolic exponents under a bijective reparametrisation of the inputs; helper formulas; dtype flow; polyhedral case analysis (exact Fourier-Motzkin) of the sector-window conditions of estimateZ0", "3 C19",
         "Decides that upwind cells hold exactly the published f*D_y*area for all inputs (with and without rotation), that other cells are zero, evenness in y, the stability helpers, the z0 inversion and int/float indifference; the incomplete-gamma mass limit is not decided."),
 "C20": ("order-only information flow and recognised sort/prefix patterns as structured atoms; dtype flow; homogeneity", "3 C20",
         "Decides descending order by the right key, exclusive prefix, same permutation for gather and scatter, g used only as a key, result not typed by g, and the count/level/area formulas of the contour; tie/minimality/monotonicity clauses of the algorithm are not decided."),
}

NOT_YET = {}

def main():
    props = [json.loads(l) for l in open("properties.jsonl")]
    checks = []
    na = []
    import registry
    for p in props:
        pid = p["id"]
        if pid in CLAIMS and pid in registry.CHECKS:
            tech, ref, text = CLAIMS[pid]
            checks.append({
                "property_id": pid,
                "quick_cmd": "python3 sa/check.py %s --tier quick" % pid,
                "thorough_cmd": "python3 sa/check.py %s --tier thorough" % pid,
                "evidence_file": "evidence/%s.json" % pid,
                "replay_cmd_template": "python3 sa/check.py %s --tier quick  # violations are written to {path}" % pid,
                "engine": "sa",
                "level_claimed": {"category": "other", "text": text, "design_ref": "DESIGN.md section " + ref},
                "level_note": "Static analysis of /repo's current source (stdlib ast; nothing imported or executed). Trusted: S-NUMPY semantics table of the library calls on the analysed paths, the checker's exact algebra and abstract interpreter, and the mathematical theorems named in the evidence file.",
                "technique": tech,
            })
        else:
            na.append({"property_id": pid, "reason": NOT_YET.get(pid, "check under construction in this session (DESIGN.md section 7); not claimed yet")})
    m = {
        "version": 1,
        "setup_cmd": "true",
        "hooks": {"guard": "BLDFM_VERIF", "enable": "none: the checks read /repo's source text only; no code in /repo reads the guard",
                  "baseline_off_cmd": BASE, "source_commits": [], "add_only": True},
        "engines": [{"name": "sa", "path": "sa/", "serves_properties": [c["property_id"] for c in checks],
                     "kind_free_text": "static analysis: AST front-end, abstract interpreter with exact algebraic value numbering (rational functions over Q[i]), typestate/shape/units/linearity analyses on normal forms, dependence and structural rules"}],
        "checks": checks,
        "notes": "Static analysis only. Numerical clauses (constants, ratios, rounding, bit-identity) are declared not applicable per property in DESIGN.md section 6 and in each evidence file.",
        "not_applicable": na,
    }
    json.dump(m, open("MANIFEST.json", "w"), indent=1)
    print("manifest: %d checks, %d not claimed" % (len(checks), len(na)))

if __name__ == "__main__":
    main()
