#!/usr/bin/env python3
"""Regenerate /verif/MANIFEST.json from the table below (run from /verif)."""
import json, os, sys
sys.path.insert(0, os.path.dirname(os.path.abspath(__file__)))

BASE = "cd /repo && /venv/bin/python -m pytest -ra -q -p no:cacheprovider --timeout=900 --continue-on-collection-errors"

CLAIMS = {
 "C01": ("consistency + closure of the one-step scheme by algebraic normal forms (abstract interpretation, exact rational-function identities)", "3 C01",
         "Decides the structural necessary conditions of convergence (consistent layer matrix with in-layer sampling, exact PDE symbol and wavenumbers, radiation condition with the principal root, shooting combination, surface condition, trapezoidal mean mode) as identities valid for all symbol values; the convergence constants and observed ratios are numerical and are not decided."),
 "C02": ("registration identity of phase / pad / crop / transform direction between the abstractly interpreted footprint and dispersion modes", "3 C02",
         "Decides that the footprint coefficient equals the forward response per unit source displaced by exactly the cropped cells, for every symbol value incl. halos that are not whole cells (given and default halo); residual rounding is not decided."),
 "C03": ("mean-mode reaching value, normalisation product and halo information flow on normal forms", "3 C03",
         "Decides conservation of the mean flux at every level in all mode combinations, the quadrature form of the mean concentration, unit sum of the footprint weights, and halo == zero padding by the integer pad widths; the continuous resistance integral is not decided."),
 "C04": ("linearity typing: total-degree analysis of the output normal forms in the source atoms + value-independence in footprint mode", "3 C04",
         "A type-system style proof of superposition for all inputs (degree exactly one, no source in denominators/exponents/opaque arguments, background only in the mean concentration); rounding is not decided."),
 "C05": ("closed-form equality of the analytic branch; Taylor series of the layer matrix against exp(M dz) to dz^3", "3 C05",
         "Decides the analytic closed form exactly and the series agreement that gives third order; the observed eightfold ratio is numerical and not decided."),
 "C06": ("Fourier-multiplier typestate (layout/truncation/padding) + phase normal form", "3 C06",
         "Decides that the pipeline is a Fourier multiplier with phases exp(i(lx xm+ly ym)), lx dx = 2 pi k/nxe, and the re-centring factor; sub-cell shifts and rounding are not decided."),
 "C07": ("dimensional homogeneity of normal forms (units), sigma-closure under x/y role exchange, mirror evenness", "3 C07",
         "Decides similarity (Buckingham pi via homogeneity), axis-swap and mirror symmetry for all inputs; Nyquist rows/columns and rounding are not decided."),
 "C10": ("loop-state reaching definitions of the level stores, counter-idiom soundness guard (sorted-unique + inverse gather), symbolic shape typing", "3 C10",
         "Decides slot/level correspondence for any order and multiplicity of levels, scalar or list, in all four mode combinations."),
 "C11": ("symbolic integer shapes with parity guard facts; clamp decision tables; truncation typestate", "3 C11",
         "Decides shape preservation or raise on every path, exactness of the symmetric truncation widths, identical truncation/re-padding windows and the clamp table (per-axis or the documented joint clamp)."),
}

NOT_YET = {}

def main():
    props = [json.loads(l) for l in open("properties.jsonl")]
    checks = []
    na = []
    import registry
    for p in props:
        pid = p["id"]
        if pid in CLAIMS and pid in registry.CHECKS:
            tech, ref, text = CLAIMS[pid]
            checks.append({
                "property_id": pid,
                "quick_cmd": "python3 sa/check.py %s --tier quick" % pid,
                "thorough_cmd": "python3 sa/check.py %s --tier thorough" % pid,
                "evidence_file": "evidence/%s.json" % pid,
                "replay_cmd_template": "python3 sa/check.py %s --tier quick  # violations are written to {path}" % pid,
                "engine": "sa",
                "level_claimed": {"category": "other", "text": text, "design_ref": "DESIGN.md section " + ref},
                "level_note": "Static analysis of /repo's current source (stdlib ast; nothing imported or executed). Trusted: S-NUMPY semantics table of the library calls on the analysed paths, the checker's exact algebra and abstract interpreter, and the mathematical theorems named in the evidence file.",
                "technique": tech,
            })
        else:
            na.append({"property_id": pid, "reason": NOT_YET.get(pid, "check under construction in this session (DESIGN.md section 7); not claimed yet")})
    m = {
        "version": 1,
        "setup_cmd": "true",
        "hooks": {"guard": "BLDFM_VERIF", "enable": "none: the checks read /repo's source text only; no code in /repo reads the guard",
                  "baseline_off_cmd": BASE, "source_commits": [], "add_only": True},
        "engines": [{"name": "sa", "path": "sa/", "serves_properties": [c["property_id"] for c in checks],
                     "kind_free_text": "static analysis: AST front-end, abstract interpreter with exact algebraic value numbering (rational functions over Q[i]), typestate/shape/units/linearity analyses on normal forms, dependence and structural rules"}],
        "checks": checks,
        "notes": "Static analysis only. Numerical clauses (constants, ratios, rounding, bit-identity) are declared not applicable per property in DESIGN.md section 6 and in each evidence file.",
        "not_applicable": na,
    }
    json.dump(m, open("MANIFEST.json", "w"), indent=1)
    print("manifest: %d checks, %d not claimed" % (len(checks), len(na)))

if __name__ == "__main__":
    main()
