"""property id -> check function(Program, tier) -> (Result, technique)"""
import props_solver as ps
import props_wiring as pw
import props_profiles as pp
import props_cache as pc
import props_state as pst
import props_io as pio
import props_area as pa

CHECKS = {
    "C01": ps.check_C01,
    "C02": ps.check_C02,
    "C03": ps.check_C03,
    "C04": ps.check_C04,
    "C05": ps.check_C05,
    "C06": ps.check_C06,
    "C07": ps.check_C07,
    "C08": pp.check_C08,
    "C09": pp.check_C09,
    "C10": ps.check_C10,
    "C11": ps.check_C11,
    "C12": pst.check_C12,
    "C13": pw.check_C13,
    "C14": pst.check_C14,
    "C15": pc.check_C15,
    "C16": pw.check_C16,
    "C17": pw.check_C17,
    "C18": pio.check_C18,
    "C19": pp.check_C19,
    "C20": pa.check_C20,
}
