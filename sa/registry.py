"""property id -> check function(Program, tier) -> (Result, technique)"""
import props_solver as ps

CHECKS = {
    "C01": ps.check_C01,
    "C05": ps.check_C05,
}
