"""C13 (config-driven run == explicit pipeline), C16 (met time series), C17 (geolocation),
C08 (wind-direction convention): access-path provenance by abstract interpretation of the
interface with the numerical stages stubbed, sibling tables, structural rules."""

import ast
import itertools

import alg
import lin
from alg import Expr, ZERO, ONE, as_expr
from front import AnalysisError, dotted_name
from interp import Interp, Opaque, Tup, PyList, Unknown, Arr, SymArr, explore, FuncRef, RangeV, SetV
from report import Result, Ob, eq_ob, req_ob
import config_model as CM

TRUST = "the checker's abstract interpreter and exact algebra; documented semantics of dict.get, dataclasses, yaml.safe_load"


def same_value(a, b):
    """structural/semantic equality of abstract values"""
    if isinstance(a, Expr) and isinstance(b, Expr):
        return a.eq(b)
    if isinstance(a, Tup) and isinstance(b, Tup):
        return len(a.items) == len(b.items) and all(same_value(x, y) for x, y in zip(a.items, b.items))
    if isinstance(a, (Opaque, PyList, Arr)) or isinstance(b, (Opaque, PyList, Arr)):
        return a is b
    if a is None or b is None or isinstance(a, (bool, str)) or isinstance(b, (bool, str)):
        return type(a) is type(b) and a == b
    return False


def show(v):
    return repr(v)[:200]


# --------------------------------------------------------------------------
# C13 wiring


def _stub_recorder(P, log, modname, fname, result):
    mod = P.module(modname)
    fn = P.function(modname, fname)

    def stub(I, args, kwargs, node):
        try:
            bound = I.bind(mod, fn, list(args), dict(kwargs))
        except AnalysisError as e:
            bound = {"__error__": str(e)}
        supplied = set()
        params = [p.arg for p in fn.args.posonlyargs + fn.args.args]
        supplied.update(params[: len(args)])
        supplied.update(kwargs)
        log.append((fname, bound, supplied, node))
        I.event("stub-call", node, (fname, bound, supplied, node))  # (per explored path: the log above mixes the paths)
        return result() if callable(result) else result

    return stub


def wiring_runs(P):
    """abstract runs of run_bldfm_single over its option space"""
    out = []
    for z0_mode, flux_given, levels_kind, full_output, met_list, fp_mode in itertools.product(("none", "only", "both"), (False, True), ("none", "empty", "list"), (False, True), (False, True), (False, True)):
        ov = {"config.solver.footprint": fp_mode}  # both modes: in footprint mode the solver reads only the shape of the flux field
        ov["config.solver.src_loc"] = Tup([alg.sym("config.solver.src_loc[0]"), alg.sym("config.solver.src_loc[1]")], "tuple")  # (a configured pair: an object, not a number)
        z0_given = z0_mode != "none"
        lv = None
        if levels_kind == "empty":
            lv = Tup([], "list")
        elif levels_kind == "list":
            lv = Tup([alg.sym("lvl_a", integer=True), alg.sym("lvl_b", integer=True)], "list")
        ov["config.domain.output_levels"] = lv
        if levels_kind == "none" and not full_output:
            ov["config.domain.halo"] = None  # some runs without a configured halo: the default is the solver's to resolve
        ov["config.domain.full_output"] = full_output
        ov["config.met.z0"] = alg.sym("config.met.z0", pos=True) if z0_given else None
        ov["config.met.timestamps"] = PyList("config.met.timestamps") if met_list else None
        for f in ("ustar", "mol", "wind_speed", "wind_dir"):
            ov["config.met." + f] = PyList("config.met." + f) if met_list else alg.sym("config.met." + f)
        if z0_mode == "only":
            ov["config.met.ustar"] = None
        cfg = CM.make_obj(P, "BLDFMConfig", "config", ov)
        tower = CM.make_obj(P, "TowerConfig", "tower", {})
        flux = alg.sym("user_flux") if flux_given else None
        cache = Opaque("cache_arg")
        log = []
        Uw, Vw = alg.sym("U_wind"), alg.sym("V_wind")
        # the grid vertical_profiles returns: nz + 1 strictly increasing nodes, the last one the measurement height (C09 R-GRID)
        zsym, prof = SymArr("z_grid", 1, shape=(cfg.attrs["domain"].attrs["nz"] + ONE,)), Opaque("profiles_out")
        import npsem as _np
        _np.GRID_CONTRACTS.clear()
        _zatom = next(iter(zsym.val.top_atoms()))
        _np.GRID_CONTRACTS[_zatom] = (tower.attrs["z_m"], cfg.attrs["domain"].attrs["nz"])
        ideal = alg.sym("ideal_flux")
        grid, conc, flx = Opaque("grid_out"), alg.sym("conc_out"), alg.sym("flx_out")
        stubs = {
            "bldfm.utils.compute_wind_fields": _stub_recorder(P, log, "bldfm.utils", "compute_wind_fields", Tup([Uw, Vw])),
            "bldfm.pbl_model.vertical_profiles": _stub_recorder(P, log, "bldfm.pbl_model", "vertical_profiles", Tup([zsym, prof])),
            "bldfm.utils.ideal_source": _stub_recorder(P, log, "bldfm.utils", "ideal_source", ideal),
            "bldfm.solver.steady_state_transport_solver": _stub_recorder(P, log, "bldfm.solver", "steady_state_transport_solver", Tup([grid, conc, flx])),
        }
        mi = alg.sym("met_index", integer=True)
        res = CM.run_paths(P, "bldfm.interface", "run_bldfm_single", [cfg, tower], {"met_index": mi, "surface_flux": flux, "cache": cache}, stubs=stubs)
        _np.GRID_CONTRACTS.clear()
        out.append(dict(z0=z0_given, z0_mode=z0_mode, flux=flux_given, levels=levels_kind, lv=lv, full=full_output, met_list=met_list, fp=fp_mode, cfg=cfg, tower=tower, log=log, res=res,
                        syms=dict(Uw=Uw, Vw=Vw, z=zsym, prof=prof, ideal=ideal, grid=grid, conc=conc, flx=flx, mi=mi, flux=flux, cache=cache)))
    return out


def _met_value(run, field):
    v = run["cfg"].attrs["met"].attrs[field]
    if isinstance(v, PyList):
        return v.at(run["syms"]["mi"])
    return v


def _default_of(P, modname, fname, formal):
    mod = P.module(modname)
    fn = P.function(modname, fname)
    params = [p.arg for p in fn.args.posonlyargs + fn.args.args]
    defaults = [None] * (len(params) - len(fn.args.defaults)) + list(fn.args.defaults)
    for p, d in zip(params, defaults):
        if p == formal:
            return d
    return None


def wire_obligations(P, run):
    obs = []
    tag = "z0=%s flux=%s levels=%s full_output=%s series=%s%s" % (run["z0_mode"], run["flux"], run["levels"], run["full"], run["met_list"], " footprint" if run.get("fp") else "")
    site0 = "src/bldfm/interface.py::run_bldfm_single"
    rets = [r for r in run["res"] if r.kind == "return"]
    if not rets or len(rets) != len(run["res"]):
        obs.append(req_ob("R-WIRE", site0, "a run with valid fixed options returns (%s)" % tag, False if run["res"] else None,
                          detail="%d paths: %s" % (len(run["res"]), [(r.kind, r.raise_desc, r.path) for r in run["res"]][:3])))
        return obs
    if len(rets) > 1:
        # the code distinguishes cases of the values it was given (a test on a configured number): every case is held to the rules
        for r in rets:
            sub = dict(run, res=[r])
            case = "; ".join("%s=%s" % (d[:60], c) for d, c in r.path)[:200]
            for o in wire_obligations(P, sub):
                o.what = "%s [case: %s]" % (o.what, case)
                obs.append(o)
        return obs
    log = [e[2] for e in rets[0].events if e[0] == "stub-call"]
    calls = {}
    for fname, bound, supplied, node in log:
        calls.setdefault(fname, []).append((bound, supplied, node))
    cfg, tower, sy = run["cfg"], run["tower"], run["syms"]
    # the run reads its configuration: a field written back (a default resolved into the caller's DomainConfig, ...) changes what
    # the next run with the same object - or a copy made with dataclasses.replace - computes
    owned = [cfg] + [v for v in cfg.attrs.values() if isinstance(v, Opaque)] + [tower]
    wr = [e for e in rets[0].events if e[0] == "attr-store" and len(e[2]) > 3 and any(e[2][3] is o for o in owned)]
    obs.append(req_ob("R-WIRE", site0, "the run leaves the caller's configuration and tower objects as it found them (%s)" % tag, not wr,
                      detail="; ".join("line %s: %s.%s is assigned" % (e[1], e[2][0], e[2][1]) for e in wr[:2]) or None, key={"clause": "config-unchanged"}))
    dom, sol = cfg.attrs["domain"].attrs, cfg.attrs["solver"].attrs

    def one(fname, want=1):
        lst = calls.get(fname, [])
        ok = len(lst) == want
        obs.append(req_ob("R-WIRE", site0 + "::call of %s" % fname, "%s is called %s (%s)" % (fname, "once" if want == 1 else "not at all", tag), ok, detail="%d calls" % len(lst)))
        return lst[0] if ok and want == 1 else None

    def edge(fname, bound, formal, expect, what):
        site = site0 + "::call of %s" % fname
        if "__error__" in bound:
            obs.append(req_ob("R-WIRE", site, "arguments bind to the signature", False, detail=bound["__error__"]))
            return
        got = bound.get(formal, "<missing>")
        ok = same_value(got, expect)
        obs.append(req_ob("R-WIRE", site, "%s.%s receives %s (%s)" % (fname, formal, what, tag), ok, detail=None if ok else "got %s, expected %s" % (show(got), show(expect)),
                          key={"callee": fname, "formal": formal}))

    def defaults_untouched(fname, modname, bound, supplied, allowed):
        extra = sorted(set(supplied) - set(allowed))
        obs.append(req_ob("R-WIRE", site0 + "::call of %s" % fname, "%s receives no option beyond the documented pipeline (%s)" % (fname, tag), not extra, detail="also passes %s" % extra if extra else None))

    c = one("compute_wind_fields")
    if c:
        b, sup, _ = c
        edge("compute_wind_fields", b, "u_rot", _met_value(run, "wind_speed"), "the step's wind speed")
        edge("compute_wind_fields", b, "wind_dir", _met_value(run, "wind_dir"), "the step's wind direction")
    c = one("vertical_profiles")
    if c:
        b, sup, _ = c
        edge("vertical_profiles", b, "n", dom["nz"], "config.domain.nz")
        edge("vertical_profiles", b, "meas_height", tower.attrs["z_m"], "the tower's measurement height")
        edge("vertical_profiles", b, "wind", Tup([sy["Uw"], sy["Vw"]]), "(u, v) from compute_wind_fields, in that order")
        edge("vertical_profiles", b, "mol", _met_value(run, "mol"), "the step's Obukhov length")
        edge("vertical_profiles", b, "closure", sol["closure"], "config.solver.closure")
        if run["z0"]:
            edge("vertical_profiles", b, "z0", cfg.attrs["met"].attrs["z0"], "the configured roughness length (takes precedence)")
            obs.append(req_ob("R-WIRE", site0 + "::call of vertical_profiles", "no friction velocity is passed when z0 is configured (%s)" % tag, "ustar" not in sup or b.get("ustar") is None))
        else:
            edge("vertical_profiles", b, "ustar", _met_value(run, "ustar"), "the step's friction velocity")
            obs.append(req_ob("R-WIRE", site0 + "::call of vertical_profiles", "no roughness length is passed when none is configured (%s)" % tag, "z0" not in sup or b.get("z0") is None))
        defaults_untouched("vertical_profiles", "bldfm.pbl_model", b, sup, {"n", "meas_height", "wind", "ustar", "z0", "mol", "closure"})
    if run["flux"]:
        one("ideal_source", 0)
        flux_val = sy["flux"]
    elif run.get("fp") and not calls.get("ideal_source"):
        # footprint mode without a supplied flux: the solver starts from a unit point source and reads only the shape of the
        # field, so any field on the configured grid does (the ideal source need not be built)
        flux_val = "<any field of shape (ny, nx)>"
        c = None
    else:
        c = one("ideal_source")
        flux_val = sy["ideal"]
        if c:
            b, sup, _ = c
            edge("ideal_source", b, "nxy", Tup([dom["nx"], dom["ny"]]), "(nx, ny)")
            edge("ideal_source", b, "domain", Tup([dom["xmax"], dom["ymax"]]), "(xmax, ymax)")
            edge("ideal_source", b, "src_loc", sol["src_loc"], "config.solver.src_loc")
            edge("ideal_source", b, "shape", sol["surface_flux_shape"], "config.solver.surface_flux_shape")
    c = one("steady_state_transport_solver")
    if c:
        b, sup, _ = c
        f = "steady_state_transport_solver"
        if flux_val == "<any field of shape (ny, nx)>":
            got = b.get("srf_flx")
            oks = isinstance(got, Arr) and got.shape is not None and len(got.shape) == 2 and got.shape[0].eq(dom["ny"]) and got.shape[1].eq(dom["nx"])
            obs.append(req_ob("R-WIRE", site0 + "::call of %s" % f, "%s.srf_flx receives a field on the configured (ny, nx) grid (footprint mode, no flux supplied) (%s)" % (f, tag), oks if (oks or isinstance(got, Arr)) else None,
                              detail=None if oks else "got %s" % show(got), key={"callee": f, "formal": "srf_flx"}))
        else:
            edge(f, b, "srf_flx", flux_val, "the supplied flux, else the ideal source")
        edge(f, b, "z", sy["z"], "z from vertical_profiles")
        edge(f, b, "profiles", sy["prof"], "profiles from vertical_profiles")
        edge(f, b, "domain", Tup([dom["xmax"], dom["ymax"]]), "(xmax, ymax)")
        edge(f, b, "modes", dom["modes"], "config.domain.modes")
        edge(f, b, "meas_pt", Tup([tower.attrs["x"], tower.attrs["y"]]), "(tower.x, tower.y)")
        edge(f, b, "footprint", sol["footprint"], "config.solver.footprint")
        edge(f, b, "analytic", sol["analytic"], "config.solver.analytic")
        if dom["halo"] is None:
            # no halo configured: the solver's own default applies - handing on None, or the value of that default rule
            # (the larger domain edge) resolved beforehand, is the same call
            got = b.get("halo", None)
            okh = got is None or (isinstance(got, Expr) and got.eq(alg.fmax(dom["xmax"], dom["ymax"])))
            obs.append(req_ob("R-WIRE", site0 + "::call of %s" % f, "%s.halo receives no halo, or the solver's own default max(xmax, ymax), when none is configured (%s)" % (f, tag), okh,
                              detail=None if okh else "got %s" % show(got), key={"callee": f, "formal": "halo"}))
        else:
            edge(f, b, "halo", dom["halo"], "config.domain.halo")
        edge(f, b, "precision", sol["precision"], "config.solver.precision")
        edge(f, b, "cache", sy["cache"], "the cache argument")
        obs.append(req_ob("R-WIRE", site0 + "::call of " + f, "background concentration is left at its default (%s)" % tag, "srf_bg_conc" not in sup))
        lv = b.get("levels") if "__error__" not in b else None
        site = site0 + "::call of " + f
        if run["levels"] == "list":
            ok = same_value(lv, run["lv"])
            what = "config.domain.output_levels"
        elif run["full"]:
            ok = isinstance(lv, Arr) and isinstance(lv.meta.get("range"), RangeV) and lv.meta["range"].start.eq(ZERO) and lv.meta["range"].step.eq(ONE) and lv.meta["range"].stop.eq(dom["nz"] + ONE)
            what = "all nodes 0..nz when full_output"
        else:
            ok = same_value(lv, dom["nz"])
            what = "the measurement-height node nz"
        obs.append(req_ob("R-WIRE", site, "%s.levels receives %s (%s)" % (f, what, tag), bool(ok), detail=None if ok else "got %s" % show(lv), key={"callee": f, "formal": "levels"}))
    # result dictionary
    r = rets[0]
    v = r.value
    site = site0 + "::result"
    if isinstance(v, Tup) and v.kind == "dict":
        d = {k: x for k, x in v.items if isinstance(k, str)}
        exp = {"grid": sy["grid"], "conc": sy["conc"], "flx": sy["flx"], "tower_name": tower.attrs["name"],
               "tower_xy": Tup([tower.attrs["x"], tower.attrs["y"]])}
        for k, e in exp.items():
            ok = k in d and same_value(d[k], e)
            obs.append(req_ob("R-WIRE", site, "result[%r] carries the corresponding value (%s)" % (k, tag), ok, detail=None if ok else "got %s" % show(d.get(k)), key={"result": k}))
        step = d.get("params")
        ts = d.get("timestamp")
        tsv = cfg.attrs["met"].attrs["timestamps"]
        ets = tsv.at(sy["mi"]) if isinstance(tsv, PyList) else sy["mi"]
        obs.append(req_ob("R-WIRE", site, "result['timestamp'] is the step's timestamp, else its index (%s)" % tag, same_value(ts, ets), detail="got %s" % show(ts), key={"result": "timestamp"}))
        okp = isinstance(step, Tup) and step.kind == "dict"
        if okp:
            sd = {k: x for k, x in step.items if isinstance(k, str)}
            for fld in ("ustar", "mol", "wind_speed", "wind_dir"):
                e = _met_value(run, fld)
                okp = okp and fld in sd and same_value(sd[fld], e)
        obs.append(req_ob("R-WIRE", site, "result['params'] is that step's parameter set (%s)" % tag, bool(okp), detail=None if okp else show(step), key={"result": "params"}))
    else:
        obs.append(req_ob("R-WIRE", site, "a result dictionary is returned", False, detail=show(v)))
    return obs


# ---- parser sibling tables


class RawDict(Opaque):
    pass


def raw_dict(path, present):
    """abstract mapping: key present -> symbol raw.<path>.<key>; absent -> default"""
    o = RawDict("raw." + path, {"__rawdict__": path, "present": present})

    def getitem(key):
        if isinstance(key, str):
            if present is None or key in present:
                return alg.sym("raw.%s.%s" % (path, key))
            return Unknown("KeyError %s" % key)
        return Unknown("non-constant key")

    o.attrs["getitem"] = getitem
    return o


def _install_rawdict_methods():
    import npsem

    if getattr(npsem, "_rawdict_patched", False):
        return
    orig = npsem.method

    def method(I, f, args, kwargs, node):
        b = f.bound
        if isinstance(b, RawDict):
            name = f.dotted.split(".")[-1]
            if name == "get" and args and isinstance(args[0], str):
                present = b.attrs["present"]
                if present is None or args[0] in present:
                    return alg.sym("raw.%s.%s" % (b.attrs["__rawdict__"], args[0]))
                return args[1] if len(args) > 1 else kwargs.get("default")
            if name == "get" and args and isinstance(args[0], (Tup, SetV)) and getattr(args[0], "kind", "set") in ("list", "dict", "set"):
                import interp as _I
                raise _I.raise_exc("TypeError", node, "unhashable key %r" % (args[0],))
            if name == "get" and args and (isinstance(args[0], bool) or args[0] is None or (isinstance(args[0], Expr) and args[0].as_const() is not None)):
                # the sections of a configuration file are keyed by names: a key that is not a string is never present
                return args[1] if len(args) > 1 else kwargs.get("default")
        return orig(I, f, args, kwargs, node)

    npsem.method = method
    npsem._rawdict_patched = True
    orig_builtin = npsem.builtin

    def builtin(I, name, args, kwargs, node, env):
        if name in ("tuple", "list") and args and isinstance(args[0], Expr):
            return alg.fn("tuple", args[0])
        if name == "float" and args and isinstance(args[0], Expr):
            return args[0]
        return orig_builtin(I, name, args, kwargs, node, env)

    npsem.builtin = builtin


PARSERS = {"_parse_tower": "TowerConfig", "_parse_domain": "DomainConfig", "_parse_met": "MetConfig",
           "_parse_solver": "SolverConfig", "_parse_output": "OutputConfig", "_parse_parallel": "ParallelConfig"}


def parser_obligations(P):
    _install_rawdict_methods()
    obs = []
    m = P.module(CM.MOD)
    for pname, cname in PARSERS.items():
        site = "src/bldfm/config_parser.py::%s" % pname
        if pname not in m.functions:
            obs.append(req_ob("R-PARSE", site, "parser for %s exists" % cname, None))
            continue
        fields = CM.field_names(P, cname)
        defaults = CM.field_defaults(P, cname)
        computed = {"x", "y"} if cname == "TowerConfig" else set()
        for mode in ("all-present", "optional-absent"):
            required = [f for f in fields if defaults.get(f) is None and f not in computed]
            present = None if mode == "all-present" else set(required)
            d = raw_dict(cname, present)
            res = CM.run_paths(P, CM.MOD, pname, [d], {})
            rets = [r for r in res if r.kind == "return"]
            if len(rets) != 1:
                obs.append(req_ob("R-PARSE", site, "single path (%s)" % mode, False, detail=str([(r.kind, r.raise_desc) for r in res])))
                continue
            v = rets[0].value
            if not (isinstance(v, Opaque) and "__args__" in v.attrs and v.attrs.get("__class__", (None, None))[1].name == cname):
                obs.append(req_ob("R-PARSE", site, "returns a %s (%s)" % (cname, mode), False, detail=show(v)))
                continue
            a, kw = v.attrs["__args__"]
            passed = dict(zip(fields, a))
            passed.update(kw)
            it = Interp(P)
            for f in fields:
                if f in computed:
                    continue
                sym = alg.sym("raw.%s.%s" % (cname, f))
                if mode == "all-present":
                    got = passed.get(f, "<missing>")
                    ok = isinstance(got, Expr) and (got.eq(sym) or got.eq(alg.fn("tuple", sym)))
                    obs.append(req_ob("R-PARSE", site, "field %s is populated from the key of the same name" % f, ok, detail=None if ok else "got %s" % show(got), key={"class": cname, "field": f}))
                elif f not in required:
                    dn = defaults[f]
                    if isinstance(dn, ast.Call) and (dotted_name(dn.func) or "").endswith("field"):
                        continue
                    dv = it.eval_in_module(m, dn)
                    got = passed[f] if f in passed else dv  # not passed -> dataclass default applies
                    ok = same_value(got, dv) or (isinstance(got, Tup) and isinstance(dv, Tup) and same_value(Tup(got.items), Tup(dv.items)))
                    if not ok and isinstance(got, Expr) and isinstance(dv, Tup):
                        # tuple(list-literal) of the same numbers
                        ok = False
                    obs.append(req_ob("R-PARSE", site, "missing key %s falls back to the dataclass default" % f, bool(ok), detail=None if ok else "parser default %s, dataclass default %s" % (show(got), show(dv)), key={"class": cname, "field": f}))
        # None section -> defaults
        if cname in ("SolverConfig", "OutputConfig", "ParallelConfig"):
            res = CM.run_paths(P, CM.MOD, pname, [None], {})
            rets = [r for r in res if r.kind == "return"]
            ok = len(rets) == 1 and isinstance(rets[0].value, Opaque) and rets[0].value.attrs.get("__args__") == ([], {})
            obs.append(req_ob("R-PARSE", site, "an absent section yields the all-default %s" % cname, ok))
    return obs


def consumed_obligations(P):
    """every option of the configuration classes is read somewhere outside the parser"""
    obs = []
    reads = set()
    for name, mod in P.modules.items():
        for fnname, fn in _all_functions(mod):
            if name == CM.MOD and fnname.startswith("_parse_"):
                continue
            for n in ast.walk(fn):
                if isinstance(n, ast.Attribute) and isinstance(n.ctx, ast.Load):
                    reads.add(n.attr)
                if isinstance(n, ast.Constant) and isinstance(n.value, str):
                    reads.add("str:" + n.value)
    for cname in ("DomainConfig", "SolverConfig", "TowerConfig", "MetConfig", "ParallelConfig"):
        for f in CM.field_names(P, cname):
            if cname == "ParallelConfig" and f in ("num_threads", "max_workers", "use_cache"):
                pass
            ok = f in reads or ("str:" + f) in reads
            obs.append(req_ob("R-CONSUMED", "src/bldfm/config_parser.py::%s.%s" % (cname, f), "option %s.%s is consumed by the package" % (cname, f), ok, key={"class": cname, "field": f}))
    return obs


def _all_functions(mod):
    for n in ast.walk(mod.tree):
        if isinstance(n, (ast.FunctionDef, ast.AsyncFunctionDef)):
            yield n.name, n


def load_config_obligation(P):
    """R-YAML by interpretation: load_config is run with the file and the YAML parser replaced by recorders.  The parsed
    document is a tree of recording nodes (every .get / [key] hands out a child node, isinstance(node, dict) and
    truthiness are undetermined-but-consistent); the rule is that parse_config_dict receives exactly the object the safe
    loader returned and that nothing is stored into the document or any node below it on the way."""
    m = P.module(CM.MOD)
    site = "src/bldfm/config_parser.py::load_config"
    fn = m.functions.get("load_config")
    if fn is None:
        return [req_ob("R-YAML", site, "load_config exists", None)]
    loads, parsed = [], []
    nodes = []

    def node(path):
        o = Opaque("yamldoc" + path, {"is_dict": True, "doc_path": path})
        o.attrs["getitem"] = lambda key, o=o, path=path: child(path, key)
        nodes.append(o)
        return o

    def child(path, key):
        k = key if isinstance(key, str) else "?"
        return node("%s[%s]" % (path, k))

    def safe_load(I, args, kwargs, node_):
        loads.append(("safe_load", args))
        return node("")

    def unsafe_load(I, args, kwargs, node_):
        loads.append(("unsafe", args))
        return node("")

    def get(I, args, kwargs, node_):
        b = I.cur_callee.bound
        return child(b.attrs["doc_path"], args[0] if args else None)

    def parse(I, args, kwargs, node_):
        parsed.append((args, kwargs))
        return Opaque("BLDFMConfig")

    stubs = {"yaml.safe_load": safe_load, "yaml.load": unsafe_load, "yaml.full_load": unsafe_load, "yaml.unsafe_load": unsafe_load,
             "bldfm.config_parser.parse_config_dict": parse, "open": lambda I, a, k, n: Opaque("file"), "pathlib.Path": lambda I, a, k, n: Opaque("Path")}
    for pth in ("", "[met]", "[domain]", "[solver]", "[towers]", "[output]", "[parallel]", "[met][timestamps]"):
        stubs["yamldoc%s.get" % pth] = get
    try:
        res = CM.run_paths(P, CM.MOD, "load_config", [alg.sym("config_path")], {}, stubs=stubs, max_paths=64)
    except AnalysisError as e:
        return [req_ob("R-YAML", site, "load_config is interpretable", None, detail=str(e))]
    rets = [r for r in res if r.kind == "return"]
    others = [r for r in res if r.kind != "return" and not (r.kind == "raise" and "FileNotFoundError" in (r.raise_desc or ""))]
    obs = [req_ob("R-YAML", site, "load_config returns a configuration for an existing file (a missing file is rejected)", bool(rets) and not others, detail=str([(r.kind, r.raise_desc) for r in res])[:200])]
    obs.append(req_ob("R-YAML", site, "a YAML file is parsed with yaml.safe_load", bool(loads) and all(k == "safe_load" for k, _ in loads), detail=str([k for k, _ in loads])))
    ok_arg = bool(parsed) and all(len(a) == 1 and not kw and isinstance(a[0], Opaque) and a[0].attrs.get("doc_path") == "" for a, kw in parsed)
    obs.append(req_ob("R-YAML", site, "parse_config_dict receives exactly the document the loader returned", ok_arg, detail=None if ok_arg else repr([a for a, _ in parsed])[:200]))
    okv = bool(rets) and all(isinstance(r.value, Opaque) and r.value.name == "BLDFMConfig" for r in rets)
    obs.append(req_ob("R-YAML", site, "load_config returns what parse_config_dict returns", okv))
    stores = []
    for r in res:
        for e in r.events:
            if e[0] == "item-store":
                stores.append((e[1], e[2][0], e[2][1]))
            if e[0] == "opaque-call" and isinstance(e[2], tuple) and str(e[2][0]).startswith("yamldoc") and e[2][1] in ("update", "pop", "setdefault", "clear", "__setitem__", "popitem", "append", "extend", "insert", "remove"):
                stores.append((e[1], e[2][0], e[2][1]))
    obs.append(req_ob("R-YAML", site, "nothing is stored into the loaded document before it is parsed (a file and the equivalent dictionary give the same configuration)", not stores,
                      detail="; ".join("%s: %s[%r]" % (w, b, k) for w, b, k in stores[:3]) or None))
    return obs


def interface_memo_obligations(P):
    """keyed stores into module-level or closure state anywhere below the public drivers: the stored value may depend only on
    what the key depends on (otherwise one tower / step is answered with another's intermediate result)"""
    import props_state as ps

    m = P.module("bldfm.interface")
    roots = [(m, m.functions[n], None) for n in ("run_bldfm_single", "run_bldfm_timeseries", "run_bldfm_multitower", "run_bldfm_parallel") if n in m.functions]
    G = ps.CallGraph(P, roots)
    obs = ps.memo_obligations(P, G)
    obs.extend(ps.mutable_default_obligations(P, G))
    obs.append(req_ob("R-MEMO", "src/bldfm/interface.py::run_bldfm_single (call graph)", "every keyed store into module-level or closure state below the drivers was examined (%d functions, %d stores)" % (len(G.order), len(obs)), True))
    return obs


def check_C13(P, tier):
    R = Result("C13", tier)
    R.min_obligations = 300
    R.explanation = ("Wiring by access-path provenance: run_bldfm_single is interpreted abstractly over its whole option space (z0/ustar forcing, supplied/ideal flux, "
                     "output_levels none/empty/list, full_output, scalar/list forcing = 72 specialisations) with the four numerical stages replaced by recording stubs; "
                     "every formal of compute_wind_fields, vertical_profiles, ideal_source and the solver (bound through the callee's own signature, so positional/keyword "
                     "style is irrelevant) must receive the configuration path the documented pipeline names, the per-step values coming from MetConfig.get_step as "
                     "interpreted from its source; the result dictionary must carry the solver's triple and the step/tower labels. Sibling tables: every _parse_* "
                     "function populates every dataclass field from the key of the same name and falls back to the dataclass's own default (both evaluated "
                     "abstractly); every option is consumed; load_config == parse_config_dict o yaml.safe_load. Equality of numerical results then follows from "
                     "identical calls (given C12).")
    R.trusted = [TRUST]
    for run in wiring_runs(P):
        R.add(wire_obligations(P, run))
    R.add(parser_obligations(P))
    R.add(consumed_obligations(P))
    R.add(load_config_obligation(P))
    R.add(scratch_memo_obligations(P))
    R.add(interface_memo_obligations(P))
    R.analysed = {"files": ["src/bldfm/interface.py", "src/bldfm/config_parser.py", "src/bldfm/utils.py", "src/bldfm/pbl_model.py", "src/bldfm/solver.py"],
                  "functions": ["run_bldfm_single", "MetConfig.get_step", "_parse_*", "load_config", "parse_config_dict"], "paths": 72}
    return R, "access-path wiring table by abstract interpretation with stubbed stages; sibling default tables"


# --------------------------------------------------------------------------
# C16 met time series

MET_FIELDS = ("ustar", "mol", "wind_speed", "wind_dir")


def _met_obj(P, pattern, ts="none", ustar_none=False, z0=False):
    """MetConfig instance; pattern = set of list-valued fields"""
    ov = {}
    lens = {}
    for f in MET_FIELDS:
        if f in pattern:
            lens[f] = alg.sym("len_" + f, pos=True, integer=True)
            ov["met." + f] = PyList("met." + f, length=lens[f])
        else:
            ov["met." + f] = alg.sym("met." + f)
    if ustar_none:
        ov["met.ustar"] = None
    ov["met.z0"] = alg.sym("met.z0", pos=True) if z0 else None
    if ts == "none":
        ov["met.timestamps"] = None
    else:
        lens["timestamps"] = alg.sym("len_timestamps", pos=True, integer=True)
        ov["met.timestamps"] = PyList("met.timestamps", length=lens["timestamps"])
    return CM.make_obj(P, "MetConfig", "met", ov), lens


def _run_method(P, cls, meth, self_obj, args=()):
    mod = P.module(CM.MOD)
    fn = P.function(CM.MOD, "%s.%s" % (cls, meth))

    def make(dec):
        return Interp(P, dec)

    def entry(it):
        return it.run_function(mod, fn, [self_obj] + list(args), {})

    return explore(make, entry, max_paths=256)


def listfields_obligations(P):
    obs = []
    ann = CM.field_annotations(P, "MetConfig")
    declared = {f for f, t in ann.items() if "List[" in t and f != "timestamps"}
    site = "src/bldfm/config_parser.py::MetConfig"
    obs.append(req_ob("R-LISTFIELDS", site, "the list-capable forcing fields are friction velocity, Obukhov length, wind speed and wind direction", declared == set(MET_FIELDS),
                      detail="annotated as list-capable: %s" % sorted(declared)))
    for k in range(len(MET_FIELDS) + 1):
        for pattern in itertools.combinations(MET_FIELDS, k):
            pat = set(pattern)
            tag = "lists=%s" % (sorted(pat) or "none")
            for z0v in (False, True):
                met, lens = _met_obj(P, pat, z0=z0v)
                tagz = tag + (" with z0" if z0v else "")
                # n_timesteps
                res = _run_method(P, "MetConfig", "n_timesteps", met)
                rets = [r for r in res if r.kind == "return"]
                s1 = site + ".n_timesteps"
                if not rets or len(rets) != len(res):
                    obs.append(req_ob("R-LISTFIELDS", s1, "n_timesteps returns on every path (%s)" % tagz, False, detail=str([(r.kind, r.raise_desc) for r in res])))
                for r in rets:
                    v = r.value
                    if pat:
                        ok = isinstance(v, Expr) and any(v.eq(lens[f]) for f in pat)
                        what = "number of steps is the length of a list-valued field"
                    else:
                        ok = isinstance(v, Expr) and v.eq(ONE)
                        what = "all-scalar forcing has one step"
                    obs.append(req_ob("R-LISTFIELDS", s1, "%s (%s)" % (what, tagz), ok, detail=None if ok else "returns %s" % show(v), key={"lists": sorted(pat), "z0": z0v}))
            # get_step
            for ts in ("none", "list"):
                for z0 in (False, True):
                    met2, lens2 = _met_obj(P, pat, ts=ts, z0=z0)
                    i = alg.sym("i_step", integer=True)
                    res = _run_method(P, "MetConfig", "get_step", met2, [i])
                    rets = [r for r in res if r.kind == "return"]
                    s2 = site + ".get_step"
                    if len(rets) != 1 or len(res) != 1:
                        obs.append(req_ob("R-LISTFIELDS", s2, "get_step has one path (%s, timestamps %s)" % (tag, ts), False, detail=str([(r.kind, r.raise_desc, r.path) for r in res])[:300]))
                        continue
                    v = rets[0].value
                    if not (isinstance(v, Tup) and v.kind == "dict"):
                        obs.append(req_ob("R-LISTFIELDS", s2, "get_step returns a dict", False, detail=show(v)))
                        continue
                    d = {}
                    for kk, x in v.items:
                        if isinstance(kk, str):
                            d[kk] = x
                    for f in MET_FIELDS:
                        src = met2.attrs[f]
                        exp = src.at(i) if isinstance(src, PyList) else src
                        ok = f in d and same_value(d[f], exp)
                        obs.append(req_ob("R-LISTFIELDS", s2, "step i takes %s of %s (%s)" % ("entry i" if f in pat else "the scalar", f, tag), ok,
                                          detail=None if ok else "got %s" % show(d.get(f)), key={"field": f, "lists": sorted(pat)}))
                    tsv = met2.attrs["timestamps"]
                    exp = tsv.at(i) if isinstance(tsv, PyList) else i
                    ok = same_value(d.get("timestamp"), exp)
                    obs.append(req_ob("R-LISTFIELDS", s2, "timestamp is the i-th timestamp, else the index i (%s, timestamps %s)" % (tag, ts), ok, detail=None if ok else "got %s" % show(d.get("timestamp"))))
                    if z0:
                        ok = same_value(d.get("z0"), met2.attrs["z0"])
                        obs.append(req_ob("R-LISTFIELDS", s2, "a configured roughness length is part of every step (%s)" % tag, ok))
    return obs


def validate_obligations(P):
    """semantic rule on the paths of validate(): a returning path must have
    established that all list lengths agree and that timestamps match the step
    count; a raising path must have established a mismatch or a missing forcing"""
    obs = []
    site = "src/bldfm/config_parser.py::MetConfig.validate"
    for k in range(len(MET_FIELDS) + 1):
        for pattern in itertools.combinations(MET_FIELDS, k):
            pat = set(pattern)
            for ts, z0v in (("none", False), ("list", False), ("none", True), ("list", True)):
                met, lens = _met_obj(P, pat, ts=ts, z0=z0v)
                tag = "lists=%s timestamps=%s%s" % (sorted(pat) or "none", ts, " with z0" if z0v else "")
                res = _run_method(P, "MetConfig", "validate", met)
                if not res:
                    obs.append(req_ob("R-TS-VALIDATE", site, "validate is interpretable (%s)" % tag, None))
                    continue
                fl = [f for f in MET_FIELDS if f in pat]
                for r in res:
                    items = [lens[f] for f in fl] + ([lens["timestamps"]] if ts == "list" else []) + [ONE]
                    parent = list(range(len(items)))

                    def find(k):
                        while parent[k] != k:
                            k = parent[k]
                        return k

                    ne = []
                    for a in range(len(items)):
                        for b in range(a + 1, len(items)):
                            p = r.facts.possible((items[a] - items[b]).expand())
                            if len(p) > 1:
                                p = p & lin.implied_signs(r.facts, (items[a] - items[b]).expand())  # e.g. min == max settles every pair
                            if p <= {"0"}:
                                parent[find(a)] = find(b)
                            elif not (p & {"0"}):
                                ne.append((a, b))

                    def rel(x, y):
                        a = next(k for k, it in enumerate(items) if it is x)
                        b = next(k for k, it in enumerate(items) if it is y)
                        if find(a) == find(b):
                            return "eq"
                        if any({find(c), find(d)} == {find(a), find(b)} for c, d in ne):
                            return "ne"
                        return "?"

                    pairs = [rel(lens[a], lens[b]) for a, b in itertools.combinations(fl, 2)]
                    n = lens[fl[0]] if fl else ONE
                    tsrel = rel(lens["timestamps"], n) if ts == "list" else "eq"
                    if any(d.startswith("unknown test") for d, _ in r.path):
                        obs.append(req_ob("R-TS-VALIDATE", site, "validate path interpretable (%s)" % tag, None, detail="the path rests on a test that is not modelled: %s" % next(d for d, _ in r.path if d.startswith("unknown test"))[:160]))
                    elif r.kind == "return":
                        ok = all(x == "eq" for x in pairs) and tsrel == "eq"
                        why = None if ok else "returns although %s" % ("the timestamps length was never compared with the step count" if tsrel != "eq" and all(x == "eq" for x in pairs) else "list lengths were not all compared: %s" % pairs)
                        obs.append(req_ob("R-TS-VALIDATE", site, "an accepted forcing has equal list lengths and matching timestamps (%s)" % tag, ok, detail=why, key={"lists": sorted(pat), "timestamps": ts}))
                    elif r.kind == "raise":
                        ok = any(x == "ne" for x in pairs) or tsrel == "ne"
                        obs.append(req_ob("R-TS-VALIDATE", site, "a rejected forcing has a length mismatch (%s)" % tag, ok, detail=None if ok else "raises %s with all lengths possibly equal" % r.raise_desc, key={"lists": sorted(pat), "timestamps": ts, "kind": "raise"}))
                    else:
                        obs.append(req_ob("R-TS-VALIDATE", site, "validate path interpretable (%s)" % tag, None, detail=r.raise_desc))
    # missing forcing
    met, _ = _met_obj(P, set(), ustar_none=True, z0=False)
    res = _run_method(P, "MetConfig", "validate", met)
    obs.append(req_ob("R-TS-VALIDATE", site, "a forcing with neither friction velocity nor roughness length is rejected", bool(res) and all(r.kind == "raise" for r in res)))
    for un, z0 in ((True, True), (False, False), (False, True)):
        met, _ = _met_obj(P, set(), ustar_none=un, z0=z0)
        res = _run_method(P, "MetConfig", "validate", met)
        obs.append(req_ob("R-TS-VALIDATE", site, "scalar forcing with %s is accepted" % ("z0 only" if un else "ustar" + (" and z0" if z0 else "")), bool(res) and all(r.kind == "return" for r in res)))
    return obs


def built_validates_obligation(P):
    """BLDFMConfig.__post_init__ validates the forcing (so rejection happens when the configuration is built)"""
    mod = P.module(CM.MOD)
    site = "src/bldfm/config_parser.py::BLDFMConfig.__post_init__"
    try:
        fn = P.function(CM.MOD, "BLDFMConfig.__post_init__")
    except AnalysisError:
        return [req_ob("R-TS-VALIDATE", site, "__post_init__ exists", False)]
    out = []
    for refs in (True, False):
        ov = {}
        if not refs:
            ov["config.domain.ref_lat"] = None
            ov["config.domain.ref_lon"] = None
        cfg = CM.make_obj(P, "BLDFMConfig", "config", ov)
        called = []

        def make(dec):
            return Interp(P, dec)

        def entry(it):
            v = it.run_function(mod, fn, [cfg], {})
            called.append([c[0] for c in it.calls])
            return v

        res = explore(make, entry)
        ok = bool(called) and all(any(c.endswith("met.validate") for c in cs) for cs in called)
        out.append(req_ob("R-TS-VALIDATE", site, "every path of __post_init__ calls met.validate() (reference origin %s)" % ("given" if refs else "absent"), ok))
    return out


def range_steps_obligations(P):
    """the drivers perform one single run per time step 0 .. n_timesteps-1.  The interface drivers are decided by
    interpretation (the series they return is [single(tower, k) for k in range(n_timesteps)], whatever the loop looks like);
    the command-line front end by its loop bounds."""
    import props_state as ps

    obs = []
    nsteps = alg.sym("n_steps", pos=True, integer=True)
    site = "src/bldfm/interface.py::run_bldfm_timeseries"
    cfg = ps._driver_config(P)
    tower = cfg.attrs["towers"].items[0]
    flux = alg.sym("user_flux")
    try:
        res = CM.run_paths(P, "bldfm.interface", "run_bldfm_timeseries", [cfg, tower], {"surface_flux": flux}, stubs={"bldfm.interface.run_bldfm_single": ps._single_stub([])})
        rets = [r for r in res if r.kind == "return"]
        if len(res) == 1 and len(rets) == 1:
            ok, why = ps._unk(ps._expect_series(tower, nsteps, flux, "None", cfg, P), rets[0].value)
        else:
            ok, why = (False if res else None), str([(r.kind, r.raise_desc) for r in res])[:200]
    except AnalysisError as e:
        ok, why = None, str(e)
    obs.append(req_ob("R-STEPS", site, "the time-series driver performs the single runs of steps 0 .. n_timesteps-1, in order", ok, detail=why))
    site = "src/bldfm/interface.py::run_bldfm_parallel"
    for strategy in ("time", "both"):
        ob = [o for o in ps.driver_obligations(P) if o.rule == "R-ORDERED" and ("strategy %r: the entry of a tower" % strategy) in o.what] if strategy == "time" else []
    for o in [o for o in ps.driver_obligations(P) if o.rule == "R-ORDERED" and "the entry of a tower is the time-ordered list" in o.what]:
        obs.append(Ob("R-STEPS", site, o.what, o.verdict, detail=o.detail, key=o.key))
    # command-line front end
    mod = P.module("bldfm.cli")
    fn = mod.functions.get("cmd_run")
    site = "src/bldfm/cli.py::cmd_run"
    if fn is None:
        obs.append(req_ob("R-STEPS", site, "driver exists", None))
        return obs
    names = {}
    for n in ast.walk(fn):
        if isinstance(n, ast.Assign) and len(n.targets) == 1 and isinstance(n.targets[0], ast.Name):
            names[n.targets[0].id] = n.value
    loops = []
    for n in ast.walk(fn):
        it = n.iter if isinstance(n, (ast.For, ast.comprehension)) else None
        if it is not None and isinstance(it, ast.Call) and dotted_name(it.func) == "range":
            loops.append(it)

    def resolve(a):
        seen = 0
        while isinstance(a, ast.Name) and a.id in names and seen < 4:
            a, seen = names[a.id], seen + 1
        return a

    def is_nsteps(a):
        d = dotted_name(resolve(a)) if a is not None else None
        return bool(d and d.endswith("met.n_timesteps"))

    good = 0
    for it in loops:
        if len(it.args) == 1 and is_nsteps(it.args[0]):
            good += 1
        elif len(it.args) == 2:
            lo, hi = resolve(it.args[0]), resolve(it.args[1])
            # range(c, n + c)
            if isinstance(lo, ast.Constant) and isinstance(hi, ast.BinOp) and isinstance(hi.op, ast.Add):
                parts = [hi.left, hi.right]
                if any(is_nsteps(p) for p in parts) and any(isinstance(resolve(p), ast.Constant) and resolve(p).value == lo.value for p in parts):
                    good += 1
            elif isinstance(lo, ast.Constant) and lo.value == 0 and is_nsteps(hi):
                good += 1
    obs.append(req_ob("R-STEPS", site, "every time loop runs over the n_timesteps steps", bool(loops) and good == len(loops) if loops else None, detail="%d of %d range loops" % (good, len(loops))))
    return obs


def check_C16(P, tier):
    R = Result("C16", tier)
    R.min_obligations = 300
    R.explanation = ("MetConfig's methods are interpreted abstractly for all 2^4 list/scalar patterns of the four forcing fields with symbolic list lengths: "
                     "n_timesteps must return the length of a list-valued field (else 1); get_step(i) must take entry i of every list and the value of every "
                     "scalar, the i-th timestamp else i, and carry a configured z0; validate() is decided by a path rule - every returning path must have "
                     "established (as branch facts) that all list lengths are equal and that the timestamps length equals the step count, every raising path "
                     "must have established a mismatch or a missing forcing; __post_init__ calls validate on every path; the drivers iterate "
                     "range(n_timesteps). The enumeration over patterns is exhaustive, lengths are symbolic (all lengths at once).")
    R.trusted = [TRUST]
    R.add(listfields_obligations(P))
    R.add(validate_obligations(P))
    R.add(built_validates_obligation(P))
    R.add(range_steps_obligations(P))
    R.analysed = {"files": ["src/bldfm/config_parser.py", "src/bldfm/interface.py", "src/bldfm/cli.py"],
                  "functions": ["MetConfig.n_timesteps", "MetConfig.get_step", "MetConfig.validate", "BLDFMConfig.__post_init__", "run_bldfm_timeseries", "run_bldfm_parallel", "cmd_run"], "paths": 0}
    R.extra = {"exhaustive": True}
    return R, "abstract interpretation over all list/scalar patterns with symbolic lengths; path rule on validate()"


# --------------------------------------------------------------------------
# C17 geolocation


def _single(P, modname, fname, args, kwargs=None):
    res = CM.run_paths(P, modname, fname, args, kwargs or {})
    rets = [r for r in res if r.kind == "return"]
    if len(res) != 1 or len(rets) != 1:
        raise AnalysisError("%s.%s: expected one straight path, got %s" % (modname, fname, [(r.kind, r.raise_desc) for r in res]))
    return rets[0]


def geo_forward(P, lat, lon, rlat, rlon):
    v = _single(P, CM.MOD, "latlon_to_xy", [lat, lon, rlat, rlon]).value
    out = _scalars(v)
    if out is None:
        raise AnalysisError("latlon_to_xy does not return a pair of scalars: %r" % (v,))
    return out


def _scalars(v):
    """a pair of scalars, 0-d arrays counted as scalars"""
    if isinstance(v, Tup) and len(v.items) == 2:
        out = [i.val if isinstance(i, Arr) and i.ndim == 0 else i for i in v.items]
        if all(isinstance(i, Expr) for i in out):
            return out
    return None


def geo_inverse(P, x, y, rlat, rlon):
    v = _single(P, "bldfm.plotting._geo", "xy_to_latlon", [x, y, rlat, rlon]).value
    out = _scalars(v)
    if out is None:
        raise AnalysisError("xy_to_latlon does not return a pair of scalars: %r" % (v,))
    return out


def geo_obligations(P, rule="R-GEO"):
    obs = []
    lat, lon, rlat, rlon = alg.sym("lat"), alg.sym("lon"), alg.sym("ref_lat"), alg.sym("ref_lon")
    # physical-domain table: non-polar reference latitude => cos(ref_lat) > 0
    alg.fn("cos", rlat * alg.atom_expr(alg.PI) / 180, pos=True)
    x, y = geo_forward(P, lat, lon, rlat, rlon)
    s_f = "src/bldfm/config_parser.py::latlon_to_xy"
    s_g = "src/bldfm/plotting/_geo.py::xy_to_latlon"
    # the caller's coordinates may be NumPy scalars of different precision (a float32 tower position from a data file, a
    # Python float reference): an operation that combines two of them directly is carried out in the narrower type, i.e. the
    # more precise one is rounded first.  Each must be brought to double (math.radians, float, ...) before they meet.
    import interp as _I

    _I.TRACK_CANCEL = True
    try:
        r0 = _single(P, CM.MOD, "latlon_to_xy", [lat, lon, rlat, rlon])
    finally:
        _I.TRACK_CANCEL = False
    params = [lat, lon, rlat, rlon]

    def raw(t):
        return isinstance(t, tuple) and t[0] == "leaf" and any(t[1] is p for p in params)

    mixed = []

    def scan(t, where):
        if not isinstance(t, tuple):
            return
        if t[0] in ("Add", "Sub", "Mult", "Div") and raw(t[1]) and raw(t[2]) and t[1][1] is not t[2][1]:
            mixed.append("%s at %s" % (_I.Interp.fterm_str(t), where))
        for ch in t[1:]:
            scan(ch, where)

    for e in r0.events:
        if e[0] == "arith":
            scan(e[2], e[1])
    obs.append(req_ob(rule, s_f, "no two caller-supplied coordinates are combined before each is converted to double (a float32 position would otherwise round the reference to single precision)", not mixed,
                      detail="; ".join(mixed[:2]) or None, key={"clause": "precision"}))
    la, lo = lat.top_atoms().pop(), lon.top_atoms().pop()
    obs.append(eq_ob(rule, s_f, "the reference origin maps to x = 0", x.subs({la: rlat, lo: rlon}), ZERO))
    obs.append(eq_ob(rule, s_f, "the reference origin maps to y = 0", y.subs({la: rlat, lo: rlon}), ZERO))
    try:
        dxdlon, dxdlat, dydlon, dydlat = alg.diff(x, lo), alg.diff(x, la), alg.diff(y, lo), alg.diff(y, la)
    except NotImplementedError as e:
        dxdlon = None
        obs.append(req_ob(rule, s_f, "the transform is differentiable in closed form (linear map expected)", False, detail="contains a non-smooth operation: %s" % e))
    if dxdlon is not None:
        obs.append(req_ob(rule, s_f, "x grows eastward (dx/dlon > 0 at non-polar reference latitudes)", alg.manifest_sign(dxdlon) == {"+"}, detail="dx/dlon = %r" % (dxdlon,)))
        obs.append(req_ob(rule, s_f, "y grows northward (dy/dlat > 0)", alg.manifest_sign(dydlat) == {"+"}, detail="dy/dlat = %r" % (dydlat,)))
        obs.append(eq_ob(rule, s_f, "x does not depend on the latitude of the point", dxdlat, ZERO))
        obs.append(eq_ob(rule, s_f, "y does not depend on the longitude of the point", dydlon, ZERO))
        obs.append(eq_ob(rule, s_f, "x is linear in longitude with the metric factor taken at the reference latitude", x, dxdlon * (lon - rlon)))
        obs.append(eq_ob(rule, s_f, "y is linear in latitude", y, dydlat * (lat - rlat)))
    # inverse compositions
    lat2, lon2 = geo_inverse(P, x, y, rlat, rlon)
    obs.append(eq_ob(rule, s_g, "xy_to_latlon(latlon_to_xy(lat, lon)) returns the latitude", lat2, lat, "mutual inverses"))
    obs.append(eq_ob(rule, s_g, "xy_to_latlon(latlon_to_xy(lat, lon)) returns the longitude", lon2, lon, "mutual inverses"))
    xs, ys = alg.sym("x_m"), alg.sym("y_m")
    la3, lo3 = geo_inverse(P, xs, ys, rlat, rlon)
    x3, y3 = geo_forward(P, la3, lo3, rlat, rlon)
    obs.append(eq_ob(rule, s_f, "latlon_to_xy(xy_to_latlon(x, y)) returns x", x3, xs, "mutual inverses"))
    obs.append(eq_ob(rule, s_f, "latlon_to_xy(xy_to_latlon(x, y)) returns y", y3, ys, "mutual inverses"))
    # arrays: the inverse transform (used on whole footprint grids) is the scalar map applied element by element
    xa_, ya_ = xs.top_atoms().pop(), ys.top_atoms().pop()
    for nd in (1, 2):
        shape = tuple(alg.sym("n%d" % k, pos=True, integer=True) for k in range(nd))
        X, Y = SymArr("x_arr", nd, shape=shape), SymArr("y_arr", nd, shape=shape)
        res = CM.run_paths(P, "bldfm.plotting._geo", "xy_to_latlon", [X, Y, rlat, rlon], {})
        rets = [r for r in res if r.kind == "return"]
        if not rets or len(rets) != len(res):
            obs.append(req_ob(rule, s_g, "xy_to_latlon accepts %d-D arrays" % nd, False if res else None, detail=str([(r.kind, r.raise_desc) for r in res])[:200]))
            continue
        for r in rets:
            v = r.value
            ok = isinstance(v, Tup) and len(v.items) == 2 and all(isinstance(i, Arr) for i in v.items)
            if not ok:
                obs.append(req_ob(rule, s_g, "xy_to_latlon of %d-D arrays returns two arrays" % nd, None, detail=repr(v)[:200]))
                continue
            for nm, got, want in (("latitude", v.items[0], la3), ("longitude", v.items[1], lo3)):
                w = want.subs({xa_: X.val, ya_: Y.val})
                obs.append(eq_ob(rule, s_g, "%s of a %d-D batch of points is the scalar formula applied to each point's own (x, y)" % (nm, nd), got.val, w, key={"ndim": nd, "out": nm}))
                shp_ok = got.shape is not None and len(got.shape) == nd and all(a.eq(b) for a, b in zip(got.shape, shape))
                obs.append(req_ob(rule, s_g, "%s of a %d-D batch has the shape of the batch" % (nm, nd), shp_ok, detail=repr(got.shape)))
    return obs


def tower_xy_obligations(P, rule="R-GEO"):
    obs = []
    mod = P.module(CM.MOD)
    site = "src/bldfm/config_parser.py::TowerConfig.compute_local_xy"
    tower = CM.make_obj(P, "TowerConfig", "tower", {})
    rl, ro = alg.sym("ref_lat"), alg.sym("ref_lon")
    fn = P.function(CM.MOD, "TowerConfig.compute_local_xy")
    res = explore(lambda dec: Interp(P, dec), lambda it: it.run_function(mod, fn, [tower, rl, ro], {}))
    ex, ey = geo_forward(P, tower.attrs["lat"], tower.attrs["lon"], rl, ro)
    ok = len(res) == 1 and res[0].kind == "return"
    obs.append(req_ob(rule, site, "single path", ok))
    if ok:
        obs.append(eq_ob(rule, site, "tower.x is the easting of (lat, lon) relative to the reference", tower.attrs.get("x"), ex))
        obs.append(eq_ob(rule, site, "tower.y is the northing of (lat, lon) relative to the reference", tower.attrs.get("y"), ey))
    # __post_init__ fills every tower from (domain.ref_lat, domain.ref_lon)
    site = "src/bldfm/config_parser.py::BLDFMConfig.__post_init__"
    fn = P.function(CM.MOD, "BLDFMConfig.__post_init__")

    def entry(it):
        # a fresh configuration per explored path; the towers' previous x, y are arbitrary (tower objects may have been
        # through another configuration before)
        cfg = CM.make_obj(P, "BLDFMConfig", "config", {})
        for t in cfg.attrs["towers"].items:
            t.attrs["__given__"] = (t.attrs["lat"], t.attrs["lon"])  # the position as configured
        # the towers' own construction hook (if the class has one) runs before the configuration's
        tcls = mod.classes.get("TowerConfig")
        tpi = [n for n in (tcls.body if tcls is not None else []) if isinstance(n, ast.FunctionDef) and n.name == "__post_init__"]
        if tpi:
            for t in cfg.attrs["towers"].items:
                it.run_function(mod, tpi[0], [t], {})
        it.run_function(mod, fn, [cfg], {})
        return cfg

    res = explore(lambda dec: Interp(P, dec), entry)
    rets = [r for r in res if r.kind == "return"]
    obs.append(req_ob(rule, site, "configuration construction completes", len(rets) >= 1))
    for pi, r in enumerate(rets):
        cfg = r.value
        dom = cfg.attrs["domain"].attrs
        tag = "" if len(rets) == 1 else " (path %d of %d: %s)" % (pi + 1, len(rets), "; ".join("%s=%s" % (d, b) for d, b in r.path)[:120])
        for k, t in enumerate(cfg.attrs["towers"].items):
            glat, glon = t.attrs.get("__given__", (t.attrs["lat"], t.attrs["lon"]))
            ex, ey = geo_forward(P, glat, glon, dom["ref_lat"], dom["ref_lon"])
            obs.append(eq_ob(rule, site, "tower %d: x filled from (ref_lat, ref_lon) at construction%s" % (k, tag), t.attrs.get("x"), ex))
            obs.append(eq_ob(rule, site, "tower %d: y filled from (ref_lat, ref_lon) at construction%s" % (k, tag), t.attrs.get("y"), ey))
    return obs


def check_C17(P, tier):
    R = Result("C17", tier)
    R.min_obligations = 18
    R.explanation = ("latlon_to_xy and xy_to_latlon are interpreted abstractly and composed in both orders: the compositions are the identity as exact algebraic "
                     "identities (same Earth radius, cosine at the reference latitude in both); the origin maps to (0,0); dx/dlon > 0 (cos(ref_lat) > 0 on the "
                     "non-polar domain), dy/dlat > 0, cross derivatives vanish; tower coordinates are filled from (ref_lat, ref_lon) at construction. The 0.1 % / 0.1 degree "
                     "agreement with great-circle geometry is a property of the equirectangular map, not of this code, and is not decided.")
    R.trusted = [TRUST, "math.radians/np.radians = x*pi/180, np.degrees = x*180/pi"]
    R.add(geo_obligations(P))
    R.add(tower_xy_obligations(P))
    R.analysed = {"files": ["src/bldfm/config_parser.py", "src/bldfm/plotting/_geo.py"], "functions": ["latlon_to_xy", "xy_to_latlon", "TowerConfig.compute_local_xy", "BLDFMConfig.__post_init__"], "paths": 6}
    return R, "composition of normal forms is the identity; sign of symbolic derivatives"


# --------------------------------------------------------------------------
# scratch memos handed through run_bldfm_single (shared between the calls of a driver)

KNOWN_SINGLE_PARAMS = ("config", "tower", "met_index", "surface_flux", "cache")


def _atoms_of(v, acc=None):
    acc = set() if acc is None else acc
    if isinstance(v, Expr):
        v.atoms(True, acc)
    elif isinstance(v, Tup):
        for x in v.items:
            _atoms_of(x[1] if isinstance(x, tuple) else x, acc)
    return acc


def _dep_stub(P, modname, fname, tag, nout):
    mod = P.module(modname)
    fn = P.function(modname, fname)

    def stub(I, args, kwargs, node):
        try:
            b = I.bind(mod, fn, list(args), dict(kwargs))
        except AnalysisError:
            b = {}
        flat = []
        for k in sorted(b):
            v = b[k]
            for x in (v.items if isinstance(v, Tup) else [v]):
                if isinstance(x, Expr):
                    flat.append(x)
        outs = [alg.fn("%s_%d" % (tag, i), *flat) for i in range(nout)]
        return outs[0] if nout == 1 else Tup(outs)

    return stub


def scratch_memo_obligations(P, rule="R-MEMO"):
    """every extra (scratch) argument of run_bldfm_single that is used as a keyed store must be completely keyed"""
    obs = []
    fn = P.function("bldfm.interface", "run_bldfm_single")
    site = "src/bldfm/interface.py::run_bldfm_single"
    params = [a.arg for a in fn.args.posonlyargs + fn.args.args + fn.args.kwonlyargs]
    extras = [p for p in params if p not in KNOWN_SINGLE_PARAMS]
    obs.append(Ob(rule, site, "arguments beyond (config, tower, met_index, surface_flux, cache): %s" % (extras or "none"), "holds", nontrivial=False))
    for ex in extras:
        for met_list in (False, True):
            ov = {"config.domain.output_levels": None, "config.domain.full_output": False, "config.met.z0": None, "config.met.timestamps": None}
            for f in ("ustar", "mol", "wind_speed", "wind_dir"):
                ov["config.met." + f] = PyList("config.met." + f) if met_list else alg.sym("config.met." + f)
            cfg = CM.make_obj(P, "BLDFMConfig", "config", ov)
            tower = CM.make_obj(P, "TowerConfig", "tower", {})
            memo = Tup([], "dict")
            stubs = {
                "bldfm.utils.compute_wind_fields": _dep_stub(P, "bldfm.utils", "compute_wind_fields", "WIND", 2),
                "bldfm.pbl_model.vertical_profiles": _dep_stub(P, "bldfm.pbl_model", "vertical_profiles", "PROF", 2),
                "bldfm.utils.ideal_source": _dep_stub(P, "bldfm.utils", "ideal_source", "SRC", 1),
                "bldfm.solver.steady_state_transport_solver": _dep_stub(P, "bldfm.solver", "steady_state_transport_solver", "SOLVE", 3),
            }
            res = CM.run_paths(P, "bldfm.interface", "run_bldfm_single", [cfg, tower], {"met_index": alg.sym("met_index", integer=True), ex: memo}, stubs=stubs)
            if not res:
                obs.append(req_ob(rule, site, "scratch argument %s is interpretable" % ex, None))
                continue
            stored = [(k, v) for k, v in memo.items]
            if not stored:
                obs.append(Ob(rule, site, "scratch argument %s is never stored into" % ex, "holds", nontrivial=False))
                continue
            for k, v in stored:
                ka, va = _atoms_of(k), _atoms_of(v)
                leaf = lambda a: a.kind == "sym" or (a.kind == "fn" and a.name == "at")
                missing = sorted({repr(a) for a in va if leaf(a) and a not in ka and not a.name.startswith("met_index")})
                # index atoms: at(list, met_index) counts through its own atom
                ok = not missing
                obs.append(req_ob(rule, site, "what is memoised in %s depends only on what its key covers (series forcing: %s)" % (ex, met_list), ok,
                                  detail=None if ok else "stored value also depends on %s" % ", ".join(missing[:6]), key={"scratch": ex}))
    return obs
