"""C09 (closure profiles), C08 (wind-direction convention), C19 (Kormann-Meixner reference)."""

import ast
from fractions import Fraction as Q

import alg
from alg import Expr, ZERO, ONE, IMAG, as_expr
from front import AnalysisError
from interp import Interp, Tup, Arr, SymArr, Unknown, Opaque, Facts, explore, BOT
import npsem
from report import Result, Ob, eq_ob, req_ob
import config_model as CM

TRUST = "the checker's abstract interpreter and exact algebra with the exp/log/sqrt rewrite set; S-NUMPY semantics of where/power/arange/log/exp/arctan"
KAPPA = Q(2, 5)


def _atom(x):
    cm = x.as_mono()
    if cm is None or len(cm[1]) != 1:
        raise AnalysisError("expected an atom: %r" % (x,))
    return cm[1][0][0]


def PSI(x):
    return alg.fn("PSI", x)


def PHI(x):
    return alg.fn("PHI", x, pos=True)


def _stub_unary(f):
    def stub(I, args, kwargs, node):
        return npsem.map_unary(I, f, args[0], node)

    return stub


class ProfileRun:
    """one abstract run of vertical_profiles"""

    def __init__(self, P, closure, forcing, mol_sign="+", opaque_similarity=True, z0_value=None, tke=True, grid=""):
        """grid: "" (defaults), "H" (domain_height given), "S" (stretch given), "HS" (both)"""
        self.closure, self.forcing, self.grid = closure, forcing, grid
        self.zmx_given = alg.sym("domain_height", pos=True) if "H" in grid else None
        self.h_given = alg.sym("stretch", pos=True) if "S" in grid else None
        self.n = alg.sym("n", pos=True, integer=True)
        self.zm = alg.sym("zm", pos=True)
        self.um, self.vm = alg.sym("um"), alg.sym("vm")
        self.ustar = alg.sym("ustar", pos=True)
        self.z0 = z0_value if z0_value is not None else alg.sym("z0", pos=True)
        Lm = alg.sym("Lm", pos=True)
        self.mol = Lm if mol_sign == "+" else -Lm
        self.prsc = alg.sym("prsc", pos=True)
        self.tke = alg.sym("tke", pos=True)
        kw = dict(mol=self.mol, prsc=self.prsc, closure=closure)
        if forcing == "ustar":
            kw["ustar"] = self.ustar
        else:
            kw["z0"] = self.z0
        if closure == "OAAHOC":
            kw["ustar"] = self.ustar
            if tke:
                kw["tke"] = self.tke
        if self.zmx_given is not None:
            kw["domain_height"] = self.zmx_given
        if self.h_given is not None:
            kw["stretch"] = self.h_given
        stubs = {}
        if opaque_similarity:
            stubs = {"bldfm.pbl_model.psi": _stub_unary(PSI), "bldfm.pbl_model.phi": _stub_unary(PHI)}
        import interp as _I
        _I.TRACK_CANCEL = True
        try:
            self.res = CM.run_paths(P, "bldfm.pbl_model", "vertical_profiles", [self.n, self.zm, Tup([self.um, self.vm])], kw, stubs=stubs)
        finally:
            _I.TRACK_CANCEL = False
        self.rets = [r for r in self.res if r.kind == "return"]
        self.ok = len(self.res) == 1 and len(self.rets) == 1
        if self.ok:
            v = self.rets[0].value
            if not (isinstance(v, Tup) and len(v.items) == 2 and isinstance(v.items[1], Tup) and len(v.items[1].items) == 5):
                self.ok = False
            else:
                self.z = v.items[0]
                self.u, self.v, self.Kx, self.Ky, self.Kz = v.items[1].items
        self.absum = alg.sqrt(self.um * self.um + self.vm * self.vm)

    def val(self, a):
        x = a.val if isinstance(a, Arr) else a
        return x.expand() if isinstance(x, Expr) else x

    def idx_atom(self):
        """the index atom of the vertical grid (generic node)"""
        z = self.val(self.z)
        c = [a for a in z.atoms() if a.kind == "fn" and a.name == "idx"]
        if len(c) != 1:
            raise AnalysisError("vertical grid is not a function of one node index")
        return c[0]

    def at_node(self, x, k):
        x = self.val(x)
        return x.subs({self.idx_atom(): as_expr(k)}) if isinstance(x, Expr) else x


def spec_z0_from_ustar(R):
    return R.zm * alg.exp(-KAPPA * R.absum / R.ustar + PSI(R.zm / R.mol))


def spec_ustar_from_z0(R):
    return R.absum * KAPPA / (alg.log(R.zm / R.z0) + PSI(R.zm / R.mol))


CL, CM_, CH = Q("0.845"), Q("0.0856"), Q("0.204")


def spec_grid(R, z0):
    h = R.h_given if getattr(R, "h_given", None) is not None else 2 * R.zm
    bb = R.zm / (alg.exp(-z0 / h) - alg.exp(-R.zm / h))
    aa = bb * alg.exp(-z0 / h)
    zmx = R.zmx_given if getattr(R, "zmx_given", None) is not None else 2 * R.zm
    zetamx = aa - bb * alg.exp(-zmx / h)
    return h, aa, bb, zetamx


def profile_obligations(P):
    obs = []
    runs = {}
    for closure, forcing, grid in [(c, f, g) for c in ("MOST", "MOSTM", "CONSTANT", "OAAHOC") for f in (("ustar", "z0") if c != "OAAHOC" else ("ustar",)) for g in ("", "H", "S", "HS")]:
        if True:
            R = ProfileRun(P, closure, forcing, grid=grid)
            if grid == "":
                runs[(closure, forcing)] = R
            site = "src/bldfm/pbl_model.py::vertical_profiles (closure %s, %s given%s)" % (closure, forcing, {"": "", "H": ", domain_height given", "S": ", stretch given", "HS": ", domain_height and stretch given"}[grid])
            if not R.ok:
                obs.append(req_ob("R-GRID", site, "one straight path returning (z, (u, v, Kx, Ky, Kz))", False if R.res else None,
                                  detail=str([(r.kind, r.raise_desc, r.path) for r in R.res])[:300]))
                continue
            # a caller-supplied quantity documented as `float or ndarray` may be a one-element array: f"{x:.3f}" formats it at once
            # and raises TypeError for an array, while logging's own %-arguments are formatted inside the logging system,
            # which never lets a formatting error reach the caller
            inputs = [x for x in (R.ustar, R.z0, R.tke, R.mol, R.prsc) if isinstance(x, Expr)]
            eager = []
            for e in R.rets[0].events:
                if e[0] == "eager-format" and isinstance(e[2][0], Expr) and e[2][1][-1:] in tuple("feEgGdn%") and any(e[2][0].eq(x) or e[2][0].eq(-x) for x in inputs):
                    eager.append("%s formatted with '%s' at %s" % (e[2][0], e[2][1], e[1]))
            obs.append(req_ob("R-ARGS", site, "no caller-supplied argument is formatted eagerly with a numeric format (a one-element array, which the signature allows, would raise)", not eager,
                              detail="; ".join(eager[:2]) or None, key={"closure": closure, "clause": "eager-format"}))
            mut = [e for e in R.rets[0].events if e[0] == "param-mutation"]
            obs.append(req_ob("R-ARGS", site, "the caller's wind vector and other arguments are not modified (an in-place update would change the input of the next call, e.g. of the z0 <-> ustar round trip)",
                              not mut, detail="; ".join("%s %s" % (e[1], e[2]) for e in mut[:2]) or None, key={"closure": closure}))
            # effective z0 / ustar by S-MOST
            if closure == "OAAHOC":
                z0e = R.zm * alg.exp(-CM_ * CL * R.absum * alg.sqrt(R.tke) / (R.ustar * R.ustar))
                use = R.ustar
            elif forcing == "ustar":
                z0e, use = spec_z0_from_ustar(R), R.ustar
            else:
                z0e, use = R.z0, spec_ustar_from_z0(R)
            h, aa, bb, zetamx = spec_grid(R, z0e)
            ia = R.idx_atom()
            zeta = alg.atom_expr(ia) * R.zm / R.n
            zspec = -h * alg.log((aa - zeta) / bb)
            zc = R.val(R.z)
            obs.append(eq_ob("R-GRID", site, "grid is z(zeta) = -h log((aa - zeta)/bb) with zeta = i*zm/n", zc, zspec, "stretched grid through z0 and zm", key={"closure": closure}))
            obs.append(eq_ob("R-GRID", site, "node 0 is the roughness length", R.at_node(R.z, 0), z0e, "z(0) = z0", key={"closure": closure}))
            obs.append(eq_ob("R-GRID", site, "node n (the requested number of layers) is the measurement height", R.at_node(R.z, R.n), R.zm, "z(zm) = zm", key={"closure": closure}))
            ar = R.z.meta.get("arange") if isinstance(R.z, Arr) else None
            # the mapped coordinate: look it up through the grid's generator
            gen = [a for a in [R.z] if isinstance(a, Arr)]
            nnodes = R.z.shape[0] if isinstance(R.z, Arr) and R.z.shape else None
            want_nodes = alg.fn("ceil", (zetamx + R.zm / R.n) / (R.zm / R.n), integer=True, pos=True)
            obs.append(eq_ob("R-GRID", site, "the mapped coordinate runs in steps zm/n up to (at least) the domain height (2*zm unless given)", nnodes, want_nodes, "arange(0, zeta(zmx)+dzeta, dzeta)", key={"closure": closure}))
            # wind at zm and direction
            obs.append(eq_ob("R-WIND@zm", site, "u at the measurement height is the supplied u", R.at_node(R.u, R.n) if closure != "CONSTANT" else R.val(R.u), R.um, key={"closure": closure}))
            obs.append(eq_ob("R-WIND@zm", site, "v at the measurement height is the supplied v", R.at_node(R.v, R.n) if closure != "CONSTANT" else R.val(R.v), R.vm, key={"closure": closure}))
            obs.append(eq_ob("R-WIND@zm", site, "wind direction is constant with height (u*vm == v*um)", R.val(R.u) * R.vm, R.val(R.v) * R.um, key={"closure": closure}))
            # log law and K
            zz = zc
            if closure in ("MOST", "MOSTM"):
                absu = use / KAPPA * (alg.log(zz / z0e) + PSI(zz / R.mol))
                K = KAPPA * use * zz / PHI(zz / R.mol) / R.prsc
                obs.append(eq_ob("R-LOGLAW", site, "speed profile is u*/kappa (log(z/z0) + psi(z/L))", R.val(R.u) * R.absum, R.um * absu, "S-MOST diabatic log law", key={"closure": closure}))
                obs.append(eq_ob("R-K", site, "Kz = kappa u* z / phi(z/L) / Pr", R.val(R.Kz), K, "S-MOST", key={"closure": closure, "value": "Kz"}))
                if closure == "MOST":
                    obs.append(eq_ob("R-K", site, "Kx = K", R.val(R.Kx), K, key={"closure": closure, "value": "Kx"}))
                    obs.append(eq_ob("R-K", site, "Ky = K", R.val(R.Ky), K, key={"closure": closure, "value": "Ky"}))
                else:
                    uu, vv = R.val(R.u), R.val(R.v)
                    obs.append(eq_ob("R-K", site, "Kx + Ky = K (no diffusion along the flow)", R.val(R.Kx) + R.val(R.Ky), K, key={"closure": closure}))
                    obs.append(eq_ob("R-K", site, "Kx : Ky = v^2 : u^2", R.val(R.Kx) * uu * uu, R.val(R.Ky) * vv * vv, key={"closure": closure}))
            elif closure == "CONSTANT":
                K = KAPPA * use * R.zm / R.prsc
                for nm in ("Kx", "Ky", "Kz"):
                    obs.append(eq_ob("R-K", site, "%s = kappa u* zm / Pr" % nm, R.val(getattr(R, nm)), K, key={"closure": closure, "value": nm}))
            else:
                absu = R.ustar * R.ustar / (CM_ * CL * alg.sqrt(R.tke)) * alg.log(zz / z0e)
                K = CH * CL * zz * alg.sqrt(R.tke)
                obs.append(eq_ob("R-LOGLAW", site, "speed profile is u*^2/(cm cl sqrt(tke)) log(z/z0)", R.val(R.u) * R.absum, R.um * absu, "Schumann-Lilly closure", key={"closure": closure}))
                for nm in ("Kx", "Ky", "Kz"):
                    obs.append(eq_ob("R-K", site, "%s = ch cl z sqrt(tke)" % nm, R.val(getattr(R, nm)), K, key={"closure": closure, "value": nm}))
            # sign of the diffusivities: K / z must be manifestly positive (z > 0 by R-GRID)
            for nm in ("Kx", "Ky", "Kz"):
                kv = R.val(getattr(R, nm))
                if not isinstance(kv, Expr):
                    obs.append(req_ob("R-KPOS", site, "%s algebraic" % nm, None))
                    continue
                # divided by z (> 0 by R-GRID) and by the effective friction velocity (> 0 on the physical domain)
                den = (use if closure != "OAAHOC" else ONE) * (ONE if closure == "CONSTANT" else zc)
                ratio = (kv / den).simp()
                sg = alg.manifest_sign(ratio)
                if sg != {"+"} and closure == "MOSTM" and nm in ("Kx", "Ky"):
                    # K * w^2/(u^2+v^2): non-negative weights
                    num, den = ratio.num_den()
                    sg = {"+", "0"} if alg.manifest_sign(num) <= {"+", "0"} and alg.manifest_sign(den) <= {"+", "0"} else sg
                obs.append(req_ob("R-KPOS", site, "%s is strictly positive for every admissible input" % nm, sg == {"+"},
                                  detail=None if sg == {"+"} else "sign domain gives %s for %s/z" % (sorted(sg), nm), key={"function": "vertical_profiles", "closure": closure, "values": [nm]}))
            # ... and the sign must survive rounding: a non-negative quantity obtained as the difference of two rounded positive
            # ones (K - Kx) can come out zero or negative although the exact difference is positive
            canc = [e for e in R.rets[0].events if e[0] == "float-cancel"]
            obs.append(req_ob("R-KPOS", site, "no sign of a profile rests on the exact cancellation of two rounded quantities (sums, products and quotients of same-signed terms keep their sign in floating point, differences do not)",
                              not canc, detail="; ".join("line %s: %s" % (e[1], e[2]) for e in canc[:2]) or None, key={"function": "vertical_profiles", "closure": closure, "clause": "rounding"}))
    # R-INVERT: z0 from ustar, then ustar back from that z0, returns identical profiles
    for closure in ("MOST", "MOSTM", "CONSTANT"):
        A = runs.get((closure, "ustar"))
        if A is None or not A.ok:
            continue
        B = ProfileRun(P, closure, "z0", z0_value=spec_z0_from_ustar(A))
        site = "src/bldfm/pbl_model.py::vertical_profiles (closure %s, z0 -> ustar -> z0)" % closure
        if not B.ok:
            obs.append(req_ob("R-INVERT", site, "run with the derived roughness length is a straight path", False))
            continue
        ia_a, ia_b = A.idx_atom(), B.idx_atom()
        for nm in ("z", "u", "v", "Kx", "Ky", "Kz"):
            a, b = A.val(getattr(A, nm)), B.val(getattr(B, nm))
            if isinstance(b, Expr) and ia_a is not ia_b:
                b = b.subs({ia_b: alg.atom_expr(ia_a)})
            obs.append(eq_ob("R-INVERT", site, "%s is identical whether ustar is given or recovered from the derived z0" % nm, b, a, key={"closure": closure, "value": nm}))
    return obs, runs


def _at_neutral(obs, rule, site, what, e, xa, want, src=None):
    """value of a similarity function at x = 0 (neutral stratification is an input: L = inf); a division by x there is a
    non-finite value in the code, reported as such"""
    try:
        v = e.subs({xa: ZERO})
    except ZeroDivisionError:
        obs.append(req_ob(rule, site, what, False, detail="the expression divides by x = zm/L, which is zero at neutral stratification: %s" % repr(e)[:200]))
        return
    obs.append(eq_ob(rule, site, what, v, want, src))



def similarity_obligations(P):
    """psi / phi: integral relation, continuity, agreement with the reference model's copies"""
    obs = []
    xn = alg.sym("xs", pos=True)
    out = {}
    for sign, x in (("stable", xn), ("unstable", -xn)):
        for f in ("psi", "phi"):
            res = CM.run_paths(P, "bldfm.pbl_model", f, [x], {})
            rets = [r for r in res if r.kind == "return"]
            site = "src/bldfm/pbl_model.py::%s (%s)" % (f, sign)
            if len(res) != 1 or len(rets) != 1 or not isinstance(rets[0].value, Expr):
                obs.append(req_ob("R-PSI'", site, "one straight path with an algebraic value", False if res else None, detail=str([(r.kind, r.raise_desc, r.path, r.value) for r in res])[:300]))
                continue
            out[(f, sign)] = rets[0].value
    xa = _atom(xn)
    # reference model copies with zm/L = x: zm = x*L
    Lp = alg.sym("Lref", pos=True)
    km = {}
    for sign, L in (("stable", Lp), ("unstable", -Lp)):
        zm = SymArr("zm_arr", 1, pos=True)
        mo = SymArr("mo_arr", 1)
        facts = Facts()
        facts.refine(mo.val, {"+"} if sign == "stable" else {"-"})
        for f in ("_phiM", "_phiC", "_psiM", "_nParam"):
            res = CM.run_paths(P, "bldfm.ffm_kormann_meixner", f, [zm, mo], {}, facts=facts)
            rets = [r for r in res if r.kind == "return"]
            site = "src/bldfm/ffm_kormann_meixner.py::%s (%s)" % (f, sign)
            if len(res) != 1 or len(rets) != 1 or not isinstance(rets[0].value, Arr) or not isinstance(rets[0].value.val, Expr):
                obs.append(req_ob("R-SIBLING", site, "one straight path with an algebraic value", False if res else None, detail=str([(r.kind, r.raise_desc, r.path) for r in res])[:300]))
                continue
            v = rets[0].value.val.expand()
            # express through x = zm/L:  zm -> x*|L|, mo -> +-|L|
            v = v.subs({_atom(zm.val): xn * Lp, _atom(mo.val): L})
            km[(f, sign)] = v
            ev = [e for e in rets[0].events if e[0] == "dtype"]
            obs.append(req_ob("R-SIBLING", site, "helper is free of dtype-inheritance stores", not ev, detail=str(ev[:2]) if ev else None))
    for sign in ("stable", "unstable"):
        xv = xn if sign == "stable" else -xn
        s_p = "src/bldfm/pbl_model.py::psi (%s)" % sign
        if ("psi", sign) in out and ("_psiM", sign) in km:
            obs.append(eq_ob("R-SIBLING", s_p, "psi agrees with the reference model's _psiM at zm/L = x", out[("psi", sign)], km[("_psiM", sign)], "Kormann & Meixner (2001) Eq. 35"))
        if ("phi", sign) in out and ("_phiC", sign) in km:
            obs.append(eq_ob("R-SIBLING", "src/bldfm/pbl_model.py::phi (%s)" % sign, "phi agrees with the reference model's _phiC at zm/L = x", out[("phi", sign)], km[("_phiC", sign)], "K&M Eq. 34"))
        if ("psi", sign) in out and ("_phiM", sign) in km:
            d = alg.diff(out[("psi", sign)], xa)
            # d/dx with x = +-xs: chain rule sign
            dpsi_dx = d if sign == "stable" else -d
            obs.append(eq_ob("R-PSI'", s_p, "x * d psi/dx equals phi_m(x) - 1 (psi is the integral of the momentum flux-gradient function)", xv * dpsi_dx, km[("_phiM", sign)] - ONE,
                             "psi(x) = int_0^x (phi_m(s) - 1)/s ds (sign convention of K&M Eq. 31)"))
        # neutral limit
        if ("psi", sign) in out:
            _at_neutral(obs, "R-PSI'", s_p, "psi vanishes at neutral stratification", out[("psi", sign)], xa, ZERO, "continuity through x = 0")
        if ("phi", sign) in out:
            _at_neutral(obs, "R-PSI'", "src/bldfm/pbl_model.py::phi (%s)" % sign, "phi equals one at neutral stratification", out[("phi", sign)], xa, ONE, "continuity through x = 0")
            obs.append(req_ob("R-KPOS", "src/bldfm/pbl_model.py::phi (%s)" % sign, "phi is strictly positive", alg.manifest_sign(out[("phi", sign)]) == {"+"}))
        if ("_phiM", sign) in km:
            _at_neutral(obs, "R-PSI'", "src/bldfm/ffm_kormann_meixner.py::_phiM (%s)" % sign, "phi_m equals one at neutral stratification", km[("_phiM", sign)], xa, ONE)
    return obs, km


def interface_level_obligation(P):
    """the interface's default output level is node n = config.domain.nz, the same n it passes to vertical_profiles"""
    import props_wiring as pw

    obs = []
    for run in pw.wiring_runs(P):
        if run["levels"] != "none" or run["full"] or run["flux"] or run["met_list"]:
            continue
        for o in pw.wire_obligations(P, run):
            k = o.key or {}
            if (k.get("callee") == "steady_state_transport_solver" and k.get("formal") == "levels") or (k.get("callee") == "vertical_profiles" and k.get("formal") == "n"):
                o.rule = "R-GRID"
                obs.append(o)
    return obs


def check_C09(P, tier):
    R = Result("C09", tier)
    R.min_obligations = 100
    R.explanation = ("vertical_profiles is interpreted abstractly for every closure and both forcings with the similarity functions kept as opaque atoms, and psi/phi "
                     "(and the reference model's copies) are interpreted separately on both stability branches. Exact identities (exp/log rewriting): the grid "
                     "z(zeta) passes through z0 at node 0 and zm at node n with spacing zm/n in the mapped coordinate and reaches the domain height; u, v at node n "
                     "are the supplied wind; u*vm == v*um at every node; the speed and diffusivity profiles are the similarity formulas; deriving z0 from ustar and "
                     "ustar back from that z0 returns identical z, u, v, K; x*psi'(x) = phi_m(x)-1 by symbolic differentiation on both branches, psi(0)=0, phi(0)=1; "
                     "the two modules' copies agree branch by branch. Sign domain: K/z manifestly positive. Floating-point exactness of z[n]==zm and np.arange "
                     "end-point rounding are not decided.")
    R.trusted = [TRUST, "z > 0 on the grid (follows from R-GRID and z0 > 0 for z0 < zm)", "physical domain: zm, z0, ustar, Pr, tke > 0; with z0 forcing the derived friction velocity |um| kappa/(log(zm/z0)+psi) is positive (z0 < zm)"]
    o1, runs = profile_obligations(P)
    R.add(o1)
    o2, km = similarity_obligations(P)
    R.add(o2)
    R.add(interface_level_obligation(P))
    R.analysed = {"files": ["src/bldfm/pbl_model.py", "src/bldfm/ffm_kormann_meixner.py", "src/bldfm/interface.py"],
                  "functions": ["vertical_profiles", "psi", "phi", "_psiM", "_phiM", "_phiC", "run_bldfm_single"], "paths": 7 + 3 + 12}
    return R, "exp/log identities, symbolic psi', sibling formulas, sign domain"


# --------------------------------------------------------------------------
# C08 wind-direction convention


def wind_obligations(P):
    obs = []
    U = alg.sym("U_rot", pos=True)
    wd = alg.sym("wind_dir")
    site = "src/bldfm/utils.py::compute_wind_fields"
    res = CM.run_paths(P, "bldfm.utils", "compute_wind_fields", [U, wd], {})
    rets = [r for r in res if r.kind == "return"]
    if len(res) != 1 or len(rets) != 1 or not (isinstance(rets[0].value, Tup) and len(rets[0].value.items) == 2):
        return [req_ob("R-WIND", site, "one straight path returning (u, v)", False if res else None)]
    u, v = rets[0].value.items
    th = wd * alg.atom_expr(alg.PI) / 180
    obs.append(eq_ob("R-WIND", site, "u = -U sin(pi wd/180)", u, -U * alg.sin(th), "meteorological convention: direction the wind blows FROM, clockwise from north"))
    obs.append(eq_ob("R-WIND", site, "v = -U cos(pi wd/180)", v, -U * alg.cos(th), "meteorological convention"))
    wa = _atom(wd)
    for deg, (eu, ev), name in ((0, (ZERO, -U), "south"), (90, (-U, ZERO), "west"), (180, (ZERO, U), "north"), (270, (U, ZERO), "east")):
        if isinstance(u, Expr) and isinstance(v, Expr):
            for comp, val, want in (("u", u, eu), ("v", v, ev)):
                try:
                    obs.append(eq_ob("R-WIND", site, "wind_dir=%d blows toward %s (%s)" % (deg, name, comp), val.subs({wa: alg.const(deg)}), want))
                except ZeroDivisionError:
                    obs.append(req_ob("R-WIND", site, "wind_dir=%d blows toward %s (%s)" % (deg, name, comp), False, detail="the component divides by zero at this direction: %s" % repr(val)[:160]))
    # speed preserved: same amplitude, sine and cosine of the same angle (Pythagoras trusted)
    if isinstance(u, Expr) and isinstance(v, Expr):
        su = [a for a in u.atoms() if a.kind == "fn" and a.name in ("sin", "cos")]
        sv = [a for a in v.atoms() if a.kind == "fn" and a.name in ("sin", "cos")]
        ok = len(su) == 1 and len(sv) == 1 and {su[0].name, sv[0].name} == {"sin", "cos"} and su[0].args[0].eq(sv[0].args[0])
        obs.append(req_ob("R-WIND", site, "u and v are the sine and cosine of one angle with one amplitude (speed preserved)", ok))
    return obs


def check_C08(P, tier):
    import props_solver as psol
    import rules_solver as RS
    import props_wiring as pw

    R = Result("C08", tier)
    R.min_obligations = 40
    R.explanation = ("A chain of exact links, each necessary for the footprint to lie upwind: (R-WIND) compute_wind_fields returns (-U sin, -U cos) of pi*wd/180 "
                     "(0/90/180/270 -> toward S/W/N/E by substitution); (R-WIRE) the interface passes that pair in order as wind= and the tower's (x, y) as meas_pt; the "
                     "profiles keep the direction at every height; (R-SYMBOL) the advective term of the layer matrix is -i(u lx + v ly) relative to the synthesis "
                     "convention of the output transform, and the footprint uses the reflecting transform (R-REFLECT); (R-GEO) x is east and y north of the reference; "
                     "(R-ORIENT) x runs along the last array axis, y along the first. 'Within a few degrees on a resolved domain' is numerical and not decided.")
    R.trusted = [TRUST, "sin^2 + cos^2 = 1", "S-NUMPY: ifft2 synthesises with exp(+i k x)"]
    R.add(wind_obligations(P))
    # wiring edges
    n_edges = 0
    for run in pw.wiring_runs(P):
        if run["levels"] != "none" or run["full"] or run["flux"]:
            continue
        for o in pw.wire_obligations(P, run):
            k = o.key or {}
            if (k.get("callee"), k.get("formal")) in (("compute_wind_fields", "u_rot"), ("compute_wind_fields", "wind_dir"), ("vertical_profiles", "wind"), ("steady_state_transport_solver", "meas_pt")):
                R.add(o)
                n_edges += 1
    R.add(pw.scratch_memo_obligations(P, "R-WIRE"))
    # direction kept by the profiles (all closures)
    o1, runs = profile_obligations(P)
    R.add([o for o in o1 if o.rule == "R-WIND@zm"])
    # sign of the advective term + reflection
    SA = RS.SolverAnalysis(P)
    S, vd = RS.views(SA, False, False, "generic")
    d0 = psol._one(RS.pick(vd, shifted=False), "dispersion unshifted")
    sym_obs = [o for o in RS.step_obligations(d0, 1, "R-SYMBOL", uniform=False) if "(q<-p), coefficient of dz^1" in o.what]
    gaps = psol.output_gaps(SA)
    if gaps:
        for o in sym_obs:
            if o.verdict == "differs":
                o.verdict, o.detail = "uninterpretable", "the abstract solver run has unmodelled parts (%s): %s" % (gaps[0], o.detail)
    R.add(sym_obs)
    R.add(psol.reflect_obligations(SA, "R-REFLECT"))
    S, vf = RS.views(SA, True, False, "generic")
    f = psol._one(RS.pick(vf), "footprint")
    R.add([o for o in psol.crop_obligations(f, "R-ORIENT", True) if "coordinate" in o.what or "varies along" in o.what or "shape" in o.what])
    R.add(pw.geo_obligations(P, "R-GEO"))
    # default halo: the periodic images are at least the larger domain extent away in both directions (documented default max(xmax, ymax))
    S_h, vh = RS.views(SA, True, False, "generic", halo="none")
    h_ = psol._one(RS.pick(vh), "default halo")
    H = alg.fmax(S_h.xmx, S_h.ymx)
    R.add(eq_ob("R-ISOLATE", h_.site("default halo"), "default halo pads x by int(max(xmax, ymax)/dx) cells", h_.px, alg.fn("int", H / h_.dx, integer=True), "documented default: halo = max(xmax, ymax)"))
    R.add(eq_ob("R-ISOLATE", h_.site("default halo"), "default halo pads y by int(max(xmax, ymax)/dy) cells", h_.py, alg.fn("int", H / h_.dy, integer=True), "documented default: halo = max(xmax, ymax)"))
    R.add(pw.tower_xy_obligations(P, "R-GEO"))
    R.add(SA.fault_obs())
    R.analysed = {"files": ["src/bldfm/utils.py", "src/bldfm/interface.py", "src/bldfm/config_parser.py", "src/bldfm/solver.py", "src/bldfm/pbl_model.py"],
                  "functions": ["compute_wind_fields", "run_bldfm_single", "vertical_profiles", "ivp_solver", "steady_state_transport_solver", "latlon_to_xy", "TowerConfig.compute_local_xy"], "paths": SA.nruns}
    return R, "chain of sign/orientation identities + wiring"


# --------------------------------------------------------------------------
# C19 Kormann-Meixner reference


def _param(name, pos=True):
    x = alg.sym(name, pos=pos)
    _atom(x).meta = "param"
    return x


class KMRun:
    """abstract run of estimateFootprint.  form=True reparametrises the inputs so that the
    derived quantities are positive symbols (a bijection of the input space, so 'for all
    inputs' is preserved): m = r - 2 + n, z0 chosen such that U is a symbol, the cell
    offset from the receptor (x, y) = (Xs, Ys)."""

    def __init__(self, P, stability, with_wd, form=False):
        self.zm, self.ws, self.ustar, self.sv = _param("zm"), _param("ws"), _param("ustar"), _param("sigma_v")
        self.Lm = _param("Lmo")
        self.L = self.Lm if stability == "stable" else -self.Lm
        self.xmin, self.xmax, self.ymin, self.ymax = alg.sym("xmin"), alg.sym("xmax"), alg.sym("ymin"), alg.sym("ymax")
        self.res_ = _param("grid_res")
        self.wd = alg.sym("wd") if with_wd else None
        self.form = form
        self.helper_calls = []
        self.npar, self.rpar, self.Upar = alg.sym("n_par", pos=True), alg.sym("r_par", pos=True), alg.sym("U_par", pos=True)
        self.hv = {"_phiM": alg.sym("phi_m", pos=True), "_phiC": alg.sym("phi_c", pos=True), "_psiM": alg.sym("psi_m"),
                   "_mParam": self.rpar - 2 + self.npar, "_nParam": self.npar}
        stubs = {}
        for hn, hv in self.hv.items():
            def stub(I, a, kw, node, hn=hn, hv=hv):
                self.helper_calls.append((hn, list(a), dict(kw)))
                return Arr((ONE,), hv, "float", {})
            stubs["bldfm.ffm_kormann_meixner." + hn] = stub
        m = self.hv["_mParam"]
        if form:
            self.z0 = self.zm * alg.exp(self.hv["_psiM"] - KAPPA * self.Upar * alg.power(self.zm, m) / self.ustar)
            self.Xs, self.Ys = alg.sym("Xs", pos=True) if not with_wd else alg.sym("Xs"), alg.sym("Ys")
            GX, GY = alg.sym("GX"), alg.sym("GY")
            self.mx, self.my = GX - self.Xs, GY - self.Ys
            shp = (alg.sym("n_rows", pos=True, integer=True), alg.sym("n_cols", pos=True, integer=True))

            def mesh(I, a, kw, node):
                return Tup([Arr(shp, GX, "float", {}), Arr(shp, GY, "float", {})], "list")

            stubs["numpy.meshgrid"] = mesh
        else:
            self.z0 = _param("z0")
            self.mx, self.my = alg.sym("mx"), alg.sym("my")
        args = [self.zm, self.z0, self.ws, self.ustar, self.L, self.sv, Tup([self.xmin, self.xmax, self.ymin, self.ymax]), self.res_, Tup([self.mx, self.my])]
        self.res = CM.run_paths(P, "bldfm.ffm_kormann_meixner", "estimateFootprint", args, {"wd": self.wd}, stubs=stubs)


def km_spec(R, gx, gy):
    """K&M (2001) Eqs. 9, 11, 18, 19, 21 written from the paper, in the reparametrised symbols"""
    k = KAPPA
    phi_c, psi_m, m, n = R.hv["_phiC"], R.hv["_psiM"], R.hv["_mParam"], R.hv["_nParam"]
    kappa = k * R.zm * R.ustar / (phi_c * alg.power(R.zm, n))          # K(z) = kappa z^n matched at zm (Eqs. 11, 32)
    U = R.ustar * (alg.log(R.zm / R.z0) + psi_m) / (k * alg.power(R.zm, m))  # u(z) = U z^m matched at zm (Eqs. 11, 31)
    r = 2 + m - n
    mu = (ONE + m) / r
    xi = U * alg.power(R.zm, r) / (r * r * kappa)                       # Eq. 19
    gmu = alg.fn("gamma", mu, pos=True)
    g1r = alg.fn("gamma", ONE / r, pos=True)
    x0, y0 = gx - R.mx, gy - R.my
    if R.wd is None:
        x, y = x0, y0
    else:
        rho = alg.sqrt(x0 * x0 + y0 * y0)
        th = alg.fn("arctan2", y0, x0) + R.wd * alg.atom_expr(alg.PI) / 180 - alg.atom_expr(alg.PI) / 2
        x, y = rho * alg.cos(th), rho * alg.sin(th)
    ubar = gmu / g1r * alg.power(r * r * kappa / U, m / r) * U * alg.power(x, m / r)  # Eq. 18
    sigma = R.sv * x / ubar
    f = ONE / gmu * alg.power(xi, mu) / alg.power(x, ONE + mu) * alg.exp(-xi / x)  # Eq. 21
    Dy = ONE / (alg.sqrt(2 * alg.atom_expr(alg.PI)) * sigma) * alg.exp(-(y * y) / (2 * sigma * sigma))  # Eq. 9
    return f * Dy * R.res_ * R.res_, dict(U=U, x=x, y=y, m=m, n=n)


def km_helper_obligations(P):
    """Eqs. 33-36 and the dtype discipline of the stability helpers"""
    obs = []
    k = KAPPA
    for stab in ("stable", "unstable"):
        zmv, Lp = _param("zm"), _param("Lmo")
        Lv = Lp if stab == "stable" else -Lp
        x_ = zmv / Lv
        if stab == "stable":
            spec = {"_phiM": ONE + 5 * x_, "_phiC": ONE + 5 * x_, "_psiM": 5 * x_, "_nParam": ONE / (ONE + 5 * x_)}
        else:
            zeta = alg.power(ONE - 16 * x_, Q(1, 4))
            spec = {"_phiM": alg.power(ONE - 16 * x_, Q(-1, 4)), "_phiC": alg.power(ONE - 16 * x_, Q(-1, 2)),
                    "_psiM": -2 * alg.log((ONE + zeta) / 2) - alg.log((ONE + zeta * zeta) / 2) + 2 * alg.arctan(zeta) - alg.atom_expr(alg.PI) / 2,
                    "_nParam": (ONE - 24 * x_) / (ONE - 16 * x_)}
        for hn, sp in spec.items():
            site = "src/bldfm/ffm_kormann_meixner.py::%s (%s)" % (hn, stab)
            # called as the footprint routine calls it: one-element arrays made of the caller's scalars
            za = Arr((ONE,), zmv, "inherit:zm", {"param_derived": "zm"}, "zm")
            la = Arr((ONE,), Lv, "inherit:mo_len", {"param_derived": "mo_len"}, "mo_len")
            import interp as _I
            _I.TRACK_CANCEL = True
            try:
                res = CM.run_paths(P, "bldfm.ffm_kormann_meixner", hn, [za, la], {})
            finally:
                _I.TRACK_CANCEL = False
            rets = [r for r in res if r.kind == "return"]
            if len(res) != 1 or len(rets) != 1 or not isinstance(rets[0].value, Arr):
                obs.append(req_ob("R-KM-FORM", site, "one straight path", False if res else None, detail=str([(r.kind, r.raise_desc, r.path) for r in res])[:300]))
                continue
            # neutral stratification given as an infinite Obukhov length: the published functions are finite there (z/L = 0)
            latom = _atom(Lp)
            def is_inf(v):
                e = v.val if isinstance(v, Arr) else v
                return isinstance(e, Expr) and latom in e.atoms()
            nans = [(e[1], _I.Interp.fterm_str(e[2])) for e in rets[0].events if e[0] == "arith" and _I.Interp.fterm_at_infinity(e[2], is_inf) == "nan"]
            obs.append(req_ob("R-KM-FORM", site, "an infinite Obukhov length (neutral stratification) gives a number: L enters only through z/L, never as inf/inf", not nans,
                              detail="; ".join("%s: %s is inf/inf for L = +-inf" % (w, t[:80]) for w, t in nans[:2]) or None, key={"helper": hn, "stability": stab, "clause": "neutral"}))
            obs.append(eq_ob("R-KM-FORM", site, "%s is the published stability function" % hn, rets[0].value.val, sp, "K&M (2001) Eqs. 33-36", key={"helper": hn, "stability": stab}))
            ev = [e for e in rets[0].events if e[0] == "dtype"]
            obs.append(req_ob("R-DTYPE", site, "the result is not stored into storage that inherits the dtype of a caller-supplied argument (integers and floats alike)", not ev,
                              detail="; ".join("%s %s" % (e[1], e[2]) for e in ev[:3]) or None, key={"helper": hn}))
    # m = ustar phi_m / (k ws)
    zmv, wsv, usv, Lp = _param("zm"), _param("ws"), _param("ustar"), _param("Lmo")
    def _phi_of(zv, lv):
        return alg.fn("phi_m", zv, lv, pos=True)

    def _phi_stub(I, a, kw, node):
        # phi_m of whatever the helper is handed, in the helper's own (height, Obukhov length) order
        vals = [x.val if isinstance(x, Arr) else x for x in list(a) + [kw.get(n) for n in ("zm", "mo_len")[len(a):]]]
        if len(vals) != 2 or not all(isinstance(x, Expr) for x in vals):
            return Unknown("_phiM of arguments that are not followed")
        return Arr((ONE,), _phi_of(vals[0], vals[1]), "float", {})

    stub = {"bldfm.ffm_kormann_meixner._phiM": _phi_stub}
    res = CM.run_paths(P, "bldfm.ffm_kormann_meixner", "_mParam", [Arr((ONE,), zmv, "float", {}), Arr((ONE,), wsv, "float", {}), Arr((ONE,), usv, "float", {}), Arr((ONE,), Lp, "float", {})], {}, stubs=stub)
    rets = [r for r in res if r.kind == "return"]
    site = "src/bldfm/ffm_kormann_meixner.py::_mParam"
    if len(rets) == 1 and isinstance(rets[0].value, Arr):
        obs.append(eq_ob("R-KM-FORM", site, "m = ustar phi_m(zm, L) / (k ws): the stability function is evaluated at the measurement height and the Obukhov length, in that order", rets[0].value.val, usv * _phi_of(zmv, Lp) / (k * wsv), "K&M Eq. 36"))
    else:
        obs.append(req_ob("R-KM-FORM", site, "one straight path", None))
    return obs


def km_obligations(P):
    obs = []
    site = "src/bldfm/ffm_kormann_meixner.py::estimateFootprint"
    for with_wd in (False, True):
        tag = "(%s)" % ("rotated by wd" if with_wd else "wind-aligned grid")
        # form: reparametrised inputs (see KMRun)
        R = KMRun(P, "stable", with_wd, form=True)
        rets = [r for r in R.res if r.kind == "return"]
        ups = []
        for r in rets:
            v = r.value
            if not (isinstance(v, Tup) and len(v.items) == 3 and all(isinstance(i, Arr) for i in v.items)):
                continue
            gx, gy, ffm = v.items
            spec, parts = km_spec(R, gx.val, gy.val)
            if not r.facts.possible(parts["x"].expand()) <= {"+"}:
                continue
            ups.append(r)
            obs.append(eq_ob("R-KM-FORM", site, "upwind cells hold f(x) * D_y(x, y) * cell area %s" % tag, ffm.val, spec,
                             "K&M (2001): f = xi^mu e^(-xi/x) / (Gamma(mu) x^(1+mu)) (Eq. 21); D_y Gaussian with sigma = sigma_v x / ubar(x) (Eqs. 9, 18); xi Eq. 19; u = U z^m, K = kappa z^n matched at zm (Eqs. 11, 31, 32)", key={"wd": with_wd}))
            if isinstance(ffm.val, Expr) and not with_wd:
                ya = _atom(R.Ys)
                obs.append(eq_ob("R-KM-FORM", site, "symmetric about the wind axis (even in the crosswind offset) %s" % tag, ffm.val.expand().subs({ya: -R.Ys}), ffm.val.expand()))
            want = {"_phiM", "_phiC", "_psiM", "_mParam", "_nParam"}
            called = {h for h, _, _ in R.helper_calls}
            obs.append(req_ob("R-KM-FORM", site, "the power-law parameters come from the stability helpers %s" % tag, called >= want - {"_phiM"}, detail=str(sorted(called))))
            # ... evaluated at the caller's own measurement height and Obukhov length (the closed form is stated for the
            # inputs as given; a limiter or conversion in between would make it hold for other inputs only)
            mod_km = P.module("bldfm.ffm_kormann_meixner")
            for hn, a, kw in R.helper_calls:
                fdef = mod_km.functions.get(hn)
                if fdef is None:
                    continue
                formals = [p.arg for p in fdef.args.args]
                bound = dict(zip(formals, a))
                bound.update(kw)
                for formal, want_v, label in (("zm", R.zm, "the measurement height"), ("mo_len", R.L, "the Obukhov length")):
                    if formal not in bound:
                        continue
                    got = bound[formal]
                    if isinstance(got, Arr):
                        els = got.meta.get("elements")
                        got = els[0] if els and len(els) == 1 else got.val
                    okh = isinstance(got, Expr) and got.eq(want_v)
                    obs.append(req_ob("R-KM-FORM", site, "%s is evaluated at %s as given %s" % (hn, label, tag), okh if (okh or isinstance(got, Expr)) else None,
                                      detail=None if okh else "receives %s" % repr(got)[:120], key={"helper": hn, "formal": formal}))
        obs.append(req_ob("R-KM-FORM", site, "an upwind path exists %s" % tag, True if ups else None))
        mk = [e for r in rets for e in r.events if e[0] == "masked-nonfinite"]
        mu_ = [e for r in rets for e in r.events if e[0] == "masked-unknown"]
        obs.append(req_ob("R-KM-FORM", site, "cells outside the upwind half plane are set to zero, not multiplied by zero (the closed form divides by the along-wind distance, which is zero on the crosswind line through the receptor) %s" % tag,
                          False if mk else None if mu_ else True, detail="; ".join("line %s: %s" % (e[1], e[2]) for e in (mk or mu_)[:1]) or None, key={"clause": "mask"}))
        # zero structure, dtype and shapes: plain inputs
        for stab in ("stable", "unstable"):
            R2 = KMRun(P, stab, with_wd, form=False)
            rets2 = [r for r in R2.res if r.kind == "return"]
            nz = 0
            for r in rets2:
                v = r.value
                if not (isinstance(v, Tup) and len(v.items) == 3 and all(isinstance(i, Arr) for i in v.items)):
                    obs.append(req_ob("R-KM-FORM", site, "returns (grid_x, grid_y, grid_ffm) %s" % tag, False))
                    continue
                gx, gy, ffm = v.items
                x0 = gx.val - R2.mx
                stored = isinstance(ffm.val, Expr) and not ffm.val.is_zero()
                if not stored:
                    nz += 1
                    obs.append(eq_ob("R-KM-FORM", site, "cells that are not upwind (and the U < 0 early return) hold exactly zero %s %s" % (tag, stab), ffm.val, ZERO))
                shp_ok = ffm.shape is not None and gx.shape is not None and all(a.eq(b) for a, b in zip(ffm.shape, gx.shape))
                obs.append(req_ob("R-KM-FORM", site, "footprint grid has the shape of the coordinate grids %s" % tag, shp_ok))
                sh = [e for e in r.events if e[0] == "shape"]
                obs.append(req_ob("R-KM-FORM", site, "shape-consistent %s" % tag, not sh, detail=str(sh[:2]) if sh else None))
            obs.append(req_ob("R-KM-FORM", site, "zero paths (downwind cells, U < 0) exist %s %s" % (tag, stab), nz >= 2, detail="%d" % nz))
    obs.extend(km_helper_obligations(P))
    # grid: cell centres, x increasing with column, y decreasing with row
    R = KMRun(P, "stable", False, form=False)
    rets = [r for r in R.res if r.kind == "return"]
    if rets:
        gx, gy, _ = rets[0].value.items
        obs.append(eq_ob("R-KM-FORM", site, "x coordinates are cell centres xmin + (i + 1/2) res", gx.val, R.xmin + R.res_ / 2 + alg.fn("idx", gx.shape[1], integer=True) * R.res_))
        obs.append(eq_ob("R-KM-FORM", site, "y coordinates are cell centres ymax - (j + 1/2) res", gy.val, R.ymax - R.res_ / 2 - alg.fn("idx", gy.shape[0], integer=True) * R.res_))
    # estimateZ0 inverts the same diabatic law
    site_z = "src/bldfm/ffm_kormann_meixner.py::estimateZ0"
    for stab in ("stable", "unstable"):
        zm, ws, wd, us, mo = (SymArr(n, 1, shape=(alg.sym("n_obs", pos=True, integer=True),), pos=(n != "mo_obs" and n != "wd_obs")) for n in ("zm_obs", "ws_obs", "wd_obs", "ustar_obs", "mo_obs"))
        facts = Facts()
        facts.refine(mo.val, {"+"} if stab == "stable" else {"-"})
        res = CM.run_paths(P, "bldfm.ffm_kormann_meixner", "estimateZ0", [zm, ws, wd, us, mo], {"half_wd_win": ZERO}, facts=facts)
        rets = [r for r in res if r.kind == "return"]
        raises = [r for r in res if r.kind == "raise"]
        ok = bool(rets)
        if res and not rets and all(r.kind == "raise" for r in res) and not any(d.startswith("unknown test") for r in res for d, _ in r.path):
            # observation series of one common length are what the function is documented for: refusing them all is no estimate
            obs.append(req_ob("R-KM-Z0", site_z, "observation series of equal length get an estimate (%s)" % stab, False, detail="every path raises: " + "; ".join(sorted({str(r.raise_desc)[:100] for r in res}))[:300]))
            continue
        obs.append(req_ob("R-KM-Z0", site_z, "no-smoothing path is interpretable (%s)" % stab, ok if ok else None, detail=str([(r.kind, r.raise_desc, r.path) for r in res])[:300]))
        for r in rets:
            v = r.value
            zv = v.val if isinstance(v, Arr) else v
            if not isinstance(zv, Expr):
                obs.append(req_ob("R-KM-Z0", site_z, "z0 estimate algebraic (%s)" % stab, None, detail=repr(zv)[:200]))
                continue
            zv = zv.expand()
            if zv.eq(alg.sym("nan")):
                # the outlier path (z0 > 1000 replaced by nan): nothing to compare
                obs.append(Ob("R-KM-Z0", site_z, "estimates above 1000 m are discarded (%s)" % stab, "holds", nontrivial=False))
                continue
            x_ = zm.val / mo.val
            if stab == "stable":
                psi_m = 5 * x_
            else:
                zeta = alg.power(ONE - 16 * x_, Q(1, 4))
                psi_m = -2 * alg.log((ONE + zeta) / 2) - alg.log((ONE + zeta * zeta) / 2) + 2 * alg.arctan(zeta) - alg.atom_expr(alg.PI) / 2
            obs.append(eq_ob("R-KM-Z0", site_z, "z0 solves ws = ustar/k (log(zm/z0) + psi_m) (%s)" % stab, zv, zm.val * alg.exp(psi_m - KAPPA * ws.val / us.val), "K&M Eq. 31 inverted", key={"stability": stab}))
            obs.append(req_ob("R-KM-Z0", site_z, "without smoothing the estimate does not depend on the wind direction (%s)" % stab, _atom(wd.val) not in zv.atoms()))
        # a half window below one degree - any such value, not only 0 - means no smoothing (documented): same values as for 0
        hs = alg.sym("half_window_below_one")
        facts2 = Facts()
        facts2.refine(mo.val, {"+"} if stab == "stable" else {"-"})
        facts2.refine(hs - ONE, {"-"})
        try:
            res2 = CM.run_paths(P, "bldfm.ffm_kormann_meixner", "estimateZ0", [zm, ws, wd, us, mo], {"half_wd_win": hs}, facts=facts2, stubs={"numpy.nanmedian": lambda I, a, k, n: alg.sym("sector_median"), "numpy.median": lambda I, a, k, n: alg.sym("sector_median")})
        except AnalysisError as e:
            obs.append(req_ob("R-KM-Z0", site_z, "a half window below one degree is interpretable (%s)" % stab, None, detail=str(e)[:200]))
            continue
        vals0 = [r.value.val.expand() for r in rets if isinstance(r.value, Arr) and isinstance(r.value.val, Expr)]
        rets2 = [r for r in res2 if r.kind == "return" and not any(d.startswith("unknown test") for d, _ in r.path)]
        bad2 = []
        for r in rets2:
            zv2 = r.value.val if isinstance(r.value, Arr) else r.value
            if not (isinstance(zv2, Expr) and any(zv2.expand().eq(v0) for v0 in vals0)):
                bad2.append("for %s the estimate is %s" % ("; ".join("%s is %s" % (d[:50], b) for d, b in r.path if "half_window" in d)[:120] or "some half window below one", repr(zv2)[:60]))
        obs.append(req_ob("R-KM-Z0", site_z, "every half window below one degree (negative and fractional ones included) returns the unsmoothed estimate (%s)" % stab,
                          (not bad2) if rets2 else None, detail="; ".join(bad2[:2]) or None, key={"stability": stab, "clause": "below-one"}))
    return obs


def sector_window_obligations(P, hmax=359):
    """R-SECTOR: the smoothing window of estimateZ0 is circular.  The loop body is interpreted for a generic sector kk, a generic
    observation with wind direction w and a symbolic half-width h; every comparison forks, so each explored path is a
    conjunction of linear constraints over (kk, w, h) together with the decision whether the observation enters the median.
    With exact Fourier-Motzkin elimination each path is checked against  selected <=> exists m in {-1,0,1}:
    kk - h <= w + 360 m < kk + 1 + h  on the domain 0 <= kk <= 359 (integer), 0 <= w < 360, 1 <= h <= hmax (real)."""
    import lin
    from fractions import Fraction as Q_

    obs = []
    site = "src/bldfm/ffm_kormann_meixner.py::estimateZ0"
    zm, ws, wd, us, mo = (SymArr(n, 1, shape=(alg.sym("n_obs", pos=True, integer=True),), pos=(n != "mo_obs" and n != "wd_obs")) for n in ("zm_obs", "ws_obs", "wd_obs", "ustar_obs", "mo_obs"))
    facts = Facts()
    facts.refine(mo.val, {"+"})
    h = alg.sym("half_wd_win", pos=True)  # documented as a float: half a 45-degree window is 22.5
    facts.refine(h - ONE, {"+", "0"})
    calls = []

    def nanmedian(I, args, kwargs, node):
        x = args[0]
        sel = None
        if isinstance(x, Arr):
            sel = x.val is not BOT
            if isinstance(x.val, Unknown):
                sel = None
        if any(d.startswith("unknown test") for d, _ in I.path):
            sel = None  # the selection rests on a branch the interpreter could only guess
        calls.append((sel, list(I.constraints), I.loop_stack[-1] if I.loop_stack else None, getattr(node, "lineno", 0)))
        I.event("median-call", node, None)
        return alg.sym("sector_median")

    try:
        res = CM.run_paths(P, "bldfm.ffm_kormann_meixner", "estimateZ0", [zm, ws, wd, us, mo], {"half_wd_win": h}, facts=facts,
                           stubs={"numpy.nanmedian": nanmedian, "numpy.median": nanmedian}, max_paths=20000)
    except AnalysisError as e:
        return [req_ob("R-SECTOR", site, "the sector loop is interpretable", None, detail=str(e))]
    # a half window of one degree or more is smoothed (the documented threshold): no path for h >= 1 returns without sector medians
    raw = [r for r in res if r.kind == "return" and not any(e[0] == "median-call" for e in r.events)]
    solid = [r for r in raw if not any(d.startswith("unknown test") for d, _ in r.path)]
    obs.append(req_ob("R-KM-Z0", site, "a half window of one degree or more is smoothed: no such call returns without taking sector medians", (not raw) if (solid or not raw) else None,
                      detail=None if not raw else "for %s the raw estimate is returned" % ("; ".join("%s is %s" % (d[:50], b) for d, b in raw[0].path if "half_wd_win" in d)[:160] or "some half window of one or more"),
                      key={"clause": "threshold"}))
    carried = sorted({(e[1], e[2]) for r in res for e in r.events if e[0] == "loop-carried-read"})
    obs.append(req_ob("R-SECTOR", site, "every sector is evaluated independently: no array contents are carried from one iteration of the sector loop into the next", not carried,
                      detail="; ".join("%s: %s" % c for c in carried[:2]) or None, key={"clause": "independent-sectors"}))
    if carried:
        return obs
    if not calls or any(c[0] is None or c[2] is None for c in calls):
        return obs + [req_ob("R-SECTOR", site, "the sector loop takes the median of a masked selection inside a loop over sectors", None,
                       detail="%d median calls, undecided selections: %d" % (len(calls), sum(1 for c in calls if c[0] is None)))]
    w = wd.val
    wa, ha = _atom(w), _atom(h)
    seen = set()
    n_checked = 0
    bad = []
    for sel, constraints, L, line in calls:
        key = (sel, tuple((repr(e), op, d) for e, op, d in constraints))
        if key in seen:
            continue
        seen.add(key)
        kk = L.rng.start + alg.atom_expr(L.ivar) * L.rng.step
        ka = L.ivar
        base = []
        okb = True
        for cexpr, op in ((alg.atom_expr(ka), ">="), (kk - L.rng.stop, "<"), (w, ">="), (w - 360, "<"), (h - ONE, ">="), (h - alg.const(hmax), "<=")):
            base.extend(lin.cons(cexpr, op)[0])
        ints = (ka,)  # the sector index is an integer; the half-width and the directions are real numbers
        dnfs = []
        for e, op, d in constraints:
            c = lin.cons(e, op if d else lin.NEGATE[op], ints)
            if c is None:
                if {wa, ha, ka} & set(e.atoms()):
                    okb = False
                continue  # constraint on other quantities (the outlier test): independent of (kk, w, h)
            if len(c) == 1:
                base.extend(c[0])
            else:
                dnfs.append(c)
        if not okb:
            obs.append(req_ob("R-SECTOR", site, "window conditions are linear in sector, direction and half-width", None, detail=str(constraints)[:300]))
            continue
        if not lin.any_feasible(base, dnfs):
            continue  # this combination of outcomes cannot occur
        n_checked += 1
        win = []
        for mshift in (-1, 0, 1):
            ws_ = w + alg.const(360 * mshift)
            win.append((ws_ - (kk - h), ws_ - (kk + ONE + h)))  # lower: >= 0, upper: < 0
        if sel:
            # selected but outside every shifted window?
            neg = [[lin.cons(lo, "<")[0], lin.cons(up, ">=")[0]] for lo, up in win]
            if lin.any_feasible(base, dnfs + neg):
                bad.append(("an observation outside the circular window [kk - h, kk + 1 + h) is included", constraints, line))
        else:
            for (lo, up), mshift in zip(win, (-1, 0, 1)):
                if lin.any_feasible(base + lin.cons(lo, ">=")[0] + lin.cons(up, "<")[0], dnfs):
                    bad.append(("an observation inside the window (through the %s) is left out" % {-1: "wrap below 0 deg", 0: "direct range", 1: "wrap above 360 deg"}[mshift], constraints, line))
                    break
    # ... and the median of sector kk goes to exactly the observations whose own direction lies in [kk, kk + 1)
    recv_bad, n_recv = [], 0
    seen_r = set()
    for r in res:
        if r.kind != "return" or not isinstance(r.value, Arr) or any(d.startswith("unknown test") for d, _ in r.path):
            continue
        Ls = [L for L in r.loops if any(isinstance(e, Expr) and L.ivar in e.atoms() for e, _, _ in r.constraints)]
        if not Ls:
            continue
        L = Ls[-1]
        v = r.value.val
        stored = isinstance(v, Expr) and v.eq(alg.sym("sector_median"))
        key = (stored, tuple((repr(e), op, d) for e, op, d in r.constraints))
        if key in seen_r:
            continue
        seen_r.add(key)
        kk = L.rng.start + alg.atom_expr(L.ivar) * L.rng.step
        base, dnfs, okb = [], [], True
        for cexpr, op in ((alg.atom_expr(L.ivar), ">="), (kk - L.rng.stop, "<"), (w, ">="), (w - 360, "<"), (h - ONE, ">="), (h - alg.const(hmax), "<=")):
            base.extend(lin.cons(cexpr, op)[0])
        for e, op, d in r.constraints:
            c = lin.cons(e, op if d else lin.NEGATE[op], (L.ivar,))
            if c is None:
                continue
            if len(c) == 1:
                base.extend(c[0])
            else:
                dnfs.append(c)
        if not lin.any_feasible(base, dnfs):
            continue
        n_recv += 1
        lo, up = w - kk, w - kk - ONE  # in the sector: lo >= 0 and up < 0
        if stored:
            if lin.any_feasible(base, dnfs + [[lin.cons(lo, "<")[0], lin.cons(up, ">=")[0]]]):
                recv_bad.append("an observation outside [kk, kk + 1) receives the median of sector kk")
        else:
            if lin.any_feasible(base + lin.cons(lo, ">=")[0] + lin.cons(up, "<")[0], dnfs):
                recv_bad.append("an observation whose direction lies in [kk, kk + 1) does not receive the median of its sector (it keeps NaN)")
        full = r.facts.possible(L.rng.start) <= {"0", "-"} and r.facts.possible((L.rng.stop - 360).expand()) <= {"0", "+"} and L.rng.step.eq(ONE)
        if not full:
            recv_bad.append("the sectors range over [%r, %r), not over all 360 degrees" % (L.rng.start, L.rng.stop))
    obs.append(req_ob("R-SECTOR", site, "every observation receives the smoothed value of the one-degree sector its own direction lies in (sectors 0 .. 359, [kk, kk + 1))",
                      (not recv_bad) if n_recv >= 2 else None, detail="; ".join(sorted(set(recv_bad))[:2]) or ("%d receiving paths" % n_recv), key={"clause": "receiving-sector"}))
    obs.append(req_ob("R-SECTOR", site, "every feasible combination of comparison outcomes in the sector loop was examined", n_checked >= 4, detail="%d feasible path conditions" % n_checked))
    if bad:
        for what, constraints, line in bad[:3]:
            cond = " and ".join("%s %s 0" % (e, op if d else lin.NEGATE[op]) for e, op, d in constraints if lin.cons(e, op) is not None)
            obs.append(req_ob("R-SECTOR", site, "the sector window is circular: an observation enters the median of sector kk exactly when its direction lies within half_wd_win of the sector, across north as well (1 <= half_wd_win <= %d)" % hmax,
                              False, detail="%s when %s" % (what, cond[:400]), key={"clause": "circular-window"}))
    else:
        obs.append(req_ob("R-SECTOR", site, "the sector window is circular: an observation enters the median of sector kk exactly when its direction lies within half_wd_win of the sector, across north as well (1 <= half_wd_win <= %d)" % hmax,
                          True, key={"clause": "circular-window"}))
    return obs


def check_C19(P, tier):
    R = Result("C19", tier)
    R.min_obligations = 30
    R.explanation = ("estimateFootprint is interpreted abstractly on both stability branches, with and without a wind direction; the value stored in upwind cells is compared, "
                     "as an exact identity with symbolic exponents (m, n, r = 2+m-n, mu = (1+m)/r), with the published crosswind-integrated footprint times the Gaussian "
                     "crosswind distribution times the cell area written from Kormann & Meixner (2001); cells that are not upwind, and the U<0 early return, hold exactly "
                     "zero; the value is even in the crosswind coordinate; with a wind direction the coordinates are rotated by theta + pi wd/180 - pi/2 about the "
                     "receptor; (R-DTYPE) no helper stores a float into storage whose dtype is inherited from a caller-supplied scalar, so integers and floats behave "
                     "alike; estimateZ0 inverts the same diabatic law; (R-SECTOR) its sector loop is interpreted for a generic sector kk, observation direction w and symbolic half-width h "
                     "with every comparison forked, and each feasible conjunction of the (linear) comparison outcomes is checked by exact Fourier-Motzkin elimination against "
                     "'selected <=> exists m in {-1,0,1}: kk-h <= w+360m < kk+1+h' on 0<=kk<=359, 0<=w<360, 1<=h<=359 - the window is circular, which is what makes the "
                     "smoothed estimate invariant under a common rotation by whole degrees. The incomplete-gamma mass limit and the median itself (numpy.nanmedian, trusted) are not decided.")
    R.trusted = [TRUST, "scipy.special.gamma is the Gamma function", "physical domain: zm, z0, ws, ustar, sigma_v, grid_res > 0"]
    R.add(km_obligations(P))
    R.add(sector_window_obligations(P))
    o2, km = similarity_obligations(P)
    R.add([o for o in o2 if "ffm_kormann_meixner" in o.site and o.rule == "R-SIBLING"])
    R.analysed = {"files": ["src/bldfm/ffm_kormann_meixner.py"], "functions": ["estimateFootprint", "estimateZ0", "_phiM", "_phiC", "_psiM", "_mParam", "_nParam"], "paths": 0}
    return R, "closed-form equality with symbolic exponents; dtype flow; sign/zero structure"
