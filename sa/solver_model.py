"""Abstract runs of steady_state_transport_solver under S-SIG (shared by C01-C07, C10, C11)."""
import alg
from alg import sym
from front import Program, AnalysisError
from interp import Interp, SymArr, Tup, Opaque, explore, Facts


class SolverInputs:
    """S-SIG: the public solver signature by position, with roles and positivity."""

    def __init__(self, levels_kind="array"):
        self.nx = sym("nx", pos=True, integer=True)
        self.ny = sym("ny", pos=True, integer=True)
        self.nz = sym("nz", pos=True, integer=True)
        self.srf_flx = SymArr("srf_flx", 2, shape=(self.ny, self.nx), role="field")
        self.z = SymArr("z", 1, shape=(self.nz,), pos=True)
        self.u = SymArr("u", 1, shape=(self.nz,))
        self.v = SymArr("v", 1, shape=(self.nz,))
        self.Kx = SymArr("Kx", 1, shape=(self.nz,), pos=True)
        self.Ky = SymArr("Ky", 1, shape=(self.nz,), pos=True)
        self.Kz = SymArr("Kz", 1, shape=(self.nz,), pos=True)
        self.profiles = Tup([self.u, self.v, self.Kx, self.Ky, self.Kz])
        self.xmx, self.ymx = sym("xmax", pos=True), sym("ymax", pos=True)
        self.domain = Tup([self.xmx, self.ymx])
        self.nlx = sym("nlx", pos=True, integer=True)
        self.nly = sym("nly", pos=True, integer=True)
        self.modes = Tup([self.nlx, self.nly])
        self.xm, self.ym = sym("xm"), sym("ym")
        self.meas_pt = Tup([self.xm, self.ym])
        self.p000 = sym("srf_bg_conc")
        self.halo = sym("halo", pos=True)
        self.nlev = sym("nlev", pos=True, integer=True)
        if levels_kind == "array":
            self.levels = SymArr("levels", 1, shape=(self.nlev,), dtype="int")
            self.levels.meta["ident"] = "levels"
        else:
            self.levels = sym("level", integer=True)


def run_solver(P, footprint, analytic, halo="given", precision="double", ctx="generic",
               levels_kind="array", cache=None, stubs=None, facts=None, max_paths=256):
    S = SolverInputs(levels_kind)
    mod = P.module("bldfm.solver")
    fn = P.function("bldfm.solver", "steady_state_transport_solver")
    kwargs = dict(srf_flx=S.srf_flx, z=S.z, profiles=S.profiles, domain=S.domain, levels=S.levels,
                  modes=S.modes, meas_pt=S.meas_pt, srf_bg_conc=S.p000, footprint=footprint,
                  analytic=analytic, halo=(S.halo if halo == "given" else alg.ZERO if halo == "zero" else None), precision=precision, cache=cache)

    if facts is None:
        facts = Facts()
    if levels_kind == "array":
        facts.refine(S.levels.val, {"+", "0"})  # S-SIG: output levels are grid indices 0 .. nz-1
        facts.refine(S.levels.val - S.nz, {"-"})
    else:
        facts.refine(S.levels, {"+", "0"})
        facts.refine(S.levels - S.nz, {"-"})

    def make(dec):
        return Interp(P, dec, ctx=ctx, facts=facts, stubs=stubs)

    def entry(it):
        return it.run_function(mod, fn, [], dict(kwargs))

    return S, explore(make, entry, max_paths=max_paths)
