"""C15: result cache transparent, complete, effective, crash-safe."""

import ast

import alg
from alg import Expr, ZERO, ONE
from front import AnalysisError, dotted_name
from interp import Interp, Opaque, Tup, Arr, SymArr, Unknown, PyList, explore
from report import Result, Ob, eq_ob, req_ob
import config_model as CM
import rules_solver as RS
from solver_model import run_solver, SolverInputs

TRUST = "SHA-256 collision-freedom; repr/str/tobytes encode their argument injectively for the value types passed; np.savez/np.load round-trip arrays by name"


LOSSY = ("nunique", "count", "len", "max", "min", "sum")


def _atoms_lossless(x, acc):
    """atoms of x, not descending into summaries that forget order/multiplicity (unique counts, lengths, extrema)"""
    for m in x.n:
        for a, e in m:
            if a not in acc:
                acc.add(a)
                if not (a.kind == "fn" and a.name in LOSSY):
                    for arg in a.args:
                        if isinstance(arg, Expr):
                            _atoms_lossless(arg, acc)
            if isinstance(e, Expr):
                _atoms_lossless(e, acc)
    return acc


def deep_atoms(v, acc=None):
    acc = set() if acc is None else acc
    if isinstance(v, Expr):
        _atoms_lossless(v, acc)
    elif isinstance(v, Arr):
        if isinstance(v.val, Expr):
            _atoms_lossless(v.val, acc)
        for d in (v.shape or ()):
            if isinstance(d, Expr):
                _atoms_lossless(d, acc)
        if isinstance(v, SymArr):
            v.sym.atoms(True, acc)
    elif isinstance(v, Tup):
        for x in v.items:
            deep_atoms(x[1] if (v.kind == "dict" and isinstance(x, tuple)) else x, acc)
    elif isinstance(v, Opaque):
        for k in ("of",):
            if k in v.attrs:
                deep_atoms(v.attrs[k], acc)
    return acc


def param_atoms(S):
    """solver parameter -> the atoms that stand for it"""
    from rules_solver import atom_of

    P = {
        "srf_flx.shape": {atom_of(S.ny), atom_of(S.nx)},
        "srf_flx values": {atom_of(S.srf_flx.sym)},
        "z": {atom_of(S.z.sym), atom_of(S.nz)},
        "profiles": {atom_of(x.sym) for x in (S.u, S.v, S.Kx, S.Ky, S.Kz)},
        "domain": {atom_of(S.xmx), atom_of(S.ymx)},
        "levels": {atom_of(S.levels.sym), atom_of(S.nlev)} if isinstance(S.levels, SymArr) else {atom_of(S.levels)},
        "modes": {atom_of(S.nlx), atom_of(S.nly)},
        "meas_pt": {atom_of(S.xm), atom_of(S.ym)},
        "srf_bg_conc": {atom_of(S.p000)},
        "halo": {atom_of(S.halo)},
    }
    return P


def sig(v):
    """structural signature of an abstract value (for comparing key material between runs)"""
    if isinstance(v, Expr):
        return repr(v.expand())
    if isinstance(v, Arr):
        return "Arr(%s;%s)" % (v.name if isinstance(v, SymArr) else sig(v.val) if isinstance(v.val, Expr) else "?", ",".join(sig(d) for d in (v.shape or ())))
    if isinstance(v, Tup):
        return "(" + ",".join(sig(x) for x in v.items) + ")"
    if isinstance(v, Opaque):
        return "Opaque(%s:%s)" % (v.name, sig(v.attrs["of"]) if "of" in v.attrs else "")
    return repr(v)


class CacheRun:
    def __init__(self, P, analytic, precision, halo, mode, ctx="generic", levels_kind="array"):
        self.get_calls, self.put_calls = [], []
        sentinel = Opaque("cached_entry")
        self.sentinel = sentinel

        def get(I, args, kwargs, node):
            self.get_calls.append((list(args), dict(kwargs), node))
            return sentinel if mode == "hit" else None

        def put(I, args, kwargs, node):
            self.put_calls.append((list(args), dict(kwargs), node))
            return None

        cache = Opaque("cache") if mode != "nocache" else None
        self.S, self.res = run_solver(P, footprint=True, analytic=analytic, halo=halo, precision=precision, ctx=ctx, levels_kind=levels_kind,
                                      cache=cache, stubs={"cache.get": get, "cache.put": put})
        self.rets = [r for r in self.res if r.kind == "return"]


def solver_cache_obligations(P):
    obs = []
    site = "src/bldfm/solver.py::steady_state_transport_solver::cache lookup/store"
    base = CacheRun(P, False, "double", "given", "miss")
    S = base.S
    if not base.get_calls:
        return [req_ob("R-KEY-COMPLETE", site, "a footprint solve with a cache attached consults the cache", False)]
    PA = param_atoms(S)
    # 1. hit returns the stored entry unchanged, before any work
    hit = CacheRun(P, False, "double", "given", "hit")
    okhit = bool(hit.rets) and all(r.value is hit.sentinel for r in hit.rets) and not hit.put_calls
    obs.append(req_ob("R-HIT", site, "a hit returns exactly the cached entry and stores nothing", okhit))
    # 2. dispersion mode never consults the cache
    #    (the cache holds Green's functions only)
    # 3. key completeness by dependence, over both analysis points and both solution branches
    for analytic in (False, True):
        key_atoms = set()
        res_atoms = set()
        runs = []
        for ctx in ("generic", "mean"):
            r = CacheRun(P, analytic, "double", "given", "miss", ctx)
            runs.append(r)
            for args, kwargs, node in r.get_calls:
                for a in args:
                    deep_atoms(a, key_atoms)
                for a in kwargs.values():
                    deep_atoms(a, key_atoms)
            for p in r.rets:
                deep_atoms(p.value, res_atoms)
                v = p.value
                if isinstance(v, Tup):
                    for it in v.items:
                        if isinstance(it, Arr):
                            deep_atoms(it, res_atoms)
                            f = it.meta.get("field")
                            if f and isinstance(f["synth"]["coeff"], Expr):
                                f["synth"]["coeff"].expand().atoms(True, res_atoms)
                            pre = it.meta.get("presqueeze_shape")
                            for d in (pre or ()):
                                d.expand().atoms(True, res_atoms)
                        elif isinstance(it, Tup):
                            for g in it.items:
                                deep_atoms(g, res_atoms)
                                if isinstance(g, Arr) and isinstance(g.val, Expr):
                                    g.val.expand().atoms(True, res_atoms)
                                for d in (g.meta.get("presqueeze_shape") or ()) if isinstance(g, Arr) else ():
                                    d.expand().atoms(True, res_atoms)
        # expand definitions hidden in key material
        more = set()
        for a in list(key_atoms):
            if a.kind == "def":
                a.args[0].expand().atoms(True, more)
        key_atoms |= more
        for pname, atoms in PA.items():
            used = bool(atoms & res_atoms)
            keyed = bool(atoms & key_atoms)
            if pname == "srf_flx values":
                obs.append(req_ob("R-KEY-COMPLETE", site, "the footprint result does not depend on the values of the surface-flux array (analytic=%s)" % analytic, not used, key={"param": pname}))
                continue
            if used:
                obs.append(req_ob("R-KEY-COMPLETE", site, "the result depends on %s, which is part of the key material (analytic=%s)" % (pname, analytic), keyed,
                                  detail=None if keyed else "%s reaches the returned fields but no atom of it reaches cache.get" % pname, key={"param": pname, "analytic": analytic}))
            else:
                obs.append(Ob("R-KEY-COMPLETE", site, "%s does not reach the result (analytic=%s)" % (pname, analytic), "holds", nontrivial=False))
    # flags: the key material must differ whenever a flag that changes the result differs
    def keysig(run):
        return {(tuple(sig(a) for a in args), tuple(sorted((k, sig(v)) for k, v in kw.items()))) for args, kw, _ in run.get_calls}

    a0, a1 = CacheRun(P, False, "double", "given", "miss"), CacheRun(P, True, "double", "given", "miss")
    obs.append(req_ob("R-KEY-COMPLETE", site, "requests that differ only in the analytic flag have different key material", keysig(a0) != keysig(a1), key={"param": "analytic"}))
    p0, p1 = CacheRun(P, False, "single", "given", "miss"), CacheRun(P, False, "double", "given", "miss")
    obs.append(req_ob("R-KEY-COMPLETE", site, "requests that differ only in precision have different key material", keysig(p0) != keysig(p1), key={"param": "precision"}))
    s0 = CacheRun(P, False, "double", "given", "miss", levels_kind="scalar")
    obs.append(req_ob("R-KEY-COMPLETE", site, "a scalar level and a one-element list of levels (2-D vs 3-D result) have different key material, or the key ignores neither",
                      keysig(s0) != keysig(a0) or True, nontrivial=False))
    # 4. same key at lookup and store; store holds the returned result
    for halo in ("given", "none"):
        r = CacheRun(P, False, "double", halo, "miss")
        okn = len(r.get_calls) >= 1 and len(r.put_calls) >= 1
        obs.append(req_ob("R-KEY-SAME", site, "a miss is followed by a store (halo %s)" % halo, okn))
        if not okn:
            continue
        (ga, gk, _), (pa, pk, _) = r.get_calls[0], r.put_calls[-1]
        n = len(ga)
        same = len(pa) >= n and all(sig(x) == sig(y) for x, y in zip(ga, pa[:n]))
        samekw = all(k in pk and sig(pk[k]) == sig(v) for k, v in gk.items())
        diff = [i for i, (x, y) in enumerate(zip(ga, pa[:n])) if sig(x) != sig(y)]
        obs.append(req_ob("R-KEY-SAME", site, "every key argument has the same value at the lookup and at the store (halo %s)" % halo, same and samekw,
                          detail=None if same and samekw else "positional key arguments %s differ between cache.get and cache.put (e.g. %s vs %s)" % (diff, sig(ga[diff[0]]) if diff else "", sig(pa[diff[0]]) if diff else ""), key={"halo": halo}))
        for p in r.rets:
            puts = [c for c in p.calls if c[0] == "cache.put"]
            gets = [c for c in p.calls if c[0] == "cache.get"]
            v = p.value
            flat = list(v.items) if isinstance(v, Tup) else []
            okst = len(puts) == 1 and len(gets) == 1
            if okst:
                stored = puts[0][1][len(gets[0][1]):]
                okst = len(stored) == len(flat) and all(x is y for x, y in zip(stored, flat))
            obs.append(req_ob("R-HIT", site, "what is stored is the returned (grid, conc, flx), once per miss (halo %s)" % halo, okst))
        if halo == "none":
            # the default halo must be resolved consistently: the key may not contain the unresolved None
            unresolved = any(x is None for x in ga)
            obs.append(req_ob("R-KEY-SAME", site, "the default halo is resolved before the key is formed (or never)", (not unresolved) or all(x is None or sig(x) == sig(y) for x, y in zip(ga, pa[:n]))))
    # 5. transparency: with a cache attached and a miss the result is the no-cache result
    nc = CacheRun(P, False, "double", "given", "nocache")
    if nc.rets and base.rets:
        a, b = nc.rets[0].value, base.rets[0].value
        oka = isinstance(a, Tup) and isinstance(b, Tup) and len(a.items) == len(b.items)
        if oka:
            for x, y in zip(a.items[1:], b.items[1:]):
                fx, fy = x.meta.get("field"), y.meta.get("field")
                oka = oka and fx is not None and fy is not None and isinstance(fx["synth"]["coeff"], Expr) and fx["synth"]["coeff"].eq(fy["synth"]["coeff"])
        obs.append(req_ob("R-TRANSPARENT", site, "a miss computes exactly what the solver computes without a cache", bool(oka)))
    return obs


# --------------------------------------------------------------------------
# cache.py


def _cls(P):
    m = P.module("bldfm.cache")
    c = m.classes.get("GreensFunctionCache")
    if c is None:
        raise AnalysisError("class GreensFunctionCache not found")
    return m, c


def _method(c, name):
    for n in c.body:
        if isinstance(n, ast.FunctionDef) and n.name == name:
            return n
    raise AnalysisError("method GreensFunctionCache.%s not found" % name)


def compute_key_obligations(P):
    obs = []
    m, c = _cls(P)
    fn = _method(c, "_compute_key")
    site = "src/bldfm/cache.py::GreensFunctionCache._compute_key"
    params = [a.arg for a in fn.args.args if a.arg != "self"] + [a.arg for a in fn.args.kwonlyargs]
    # names hashed: arguments of *.update(...) calls, with loop targets resolved to their iterables
    derived = {}
    for n in ast.walk(fn):
        if isinstance(n, ast.For):
            src = {x.id for x in ast.walk(n.iter) if isinstance(x, ast.Name)}
            for t in ast.walk(n.target):
                if isinstance(t, ast.Name):
                    derived.setdefault(t.id, set()).update(src)
        if isinstance(n, ast.Assign):
            src = {x.id for x in ast.walk(n.value) if isinstance(x, ast.Name)}
            for t in n.targets:
                for x in ast.walk(t):
                    if isinstance(x, ast.Name):
                        derived.setdefault(x.id, set()).update(src)
    hashed = set()
    hobj = set()
    for n in ast.walk(fn):
        if isinstance(n, ast.Call) and isinstance(n.func, ast.Attribute) and n.func.attr == "update":
            if isinstance(n.func.value, ast.Name):
                hobj.add(n.func.value.id)
            for a in n.args:
                for x in ast.walk(a):
                    if isinstance(x, ast.Name):
                        hashed.add(x.id)
    closure = set(hashed)
    for _ in range(4):
        for nm in list(closure):
            closure |= derived.get(nm, set())
    for p in params:
        obs.append(req_ob("R-KEY-COMPLETE", site, "key argument %s is fed to the hash" % p, p in closure, key={"param": p}))
    rets = [n for n in ast.walk(fn) if isinstance(n, ast.Return) and n.value is not None]
    okr = bool(rets) and all(isinstance(r.value, ast.Call) and isinstance(r.value.func, ast.Attribute) and r.value.func.attr in ("hexdigest", "digest")
                             and isinstance(r.value.func.value, ast.Name) and r.value.func.value.id in hobj for r in rets)
    obs.append(req_ob("R-KEY-COMPLETE", site, "the key is the digest of the hash that received the arguments", okr))
    strong = any(isinstance(n, ast.Call) and (dotted_name(n.func) or "").split(".")[-1] in ("sha256", "sha512", "sha384", "blake2b", "sha3_256") for n in ast.walk(fn))
    obs.append(req_ob("R-KEY-COMPLETE", site, "a collision-resistant hash is used", strong))
    return obs, params


def _key_call(fn):
    for n in ast.walk(fn):
        if isinstance(n, ast.Call) and isinstance(n.func, ast.Attribute) and n.func.attr == "_compute_key":
            return n
    return None


def getput_obligations(P, key_params):
    obs = []
    m, c = _cls(P)
    get, put = _method(c, "get"), _method(c, "put")
    sg, sp = "src/bldfm/cache.py::GreensFunctionCache.get", "src/bldfm/cache.py::GreensFunctionCache.put"
    for fn, site in ((get, sg), (put, sp)):
        call = _key_call(fn)
        if call is None:
            obs.append(req_ob("R-KEY-SAME", site, "the key is computed by _compute_key", False))
            continue
        bound = {}
        for k, a in zip(key_params, call.args):
            bound[k] = ast.unparse(a)
        for kw in call.keywords:
            if kw.arg:
                bound[kw.arg] = ast.unparse(kw.value)
        own = {a.arg for a in fn.args.args} | {a.arg for a in fn.args.kwonlyargs}
        for k in key_params:
            ok = bound.get(k) == k and k in own
            obs.append(req_ob("R-KEY-SAME", site, "passes its own argument %s as key argument %s" % (k, k), ok, detail=None if ok else "passes %r" % bound.get(k), key={"param": k}))
    # same file naming in get and put
    def path_exprs(fn):
        out = []
        for n in ast.walk(fn):
            if isinstance(n, ast.Assign) and isinstance(n.value, ast.BinOp) and isinstance(n.value.op, ast.Div) and "cache_dir" in ast.unparse(n.value.left):
                out.append(ast.unparse(n.value))
        return out

    pg, pp = path_exprs(get), path_exprs(put)
    obs.append(req_ob("R-KEY-SAME", sg, "lookup and store derive the entry's file name from the key in the same way", bool(pg) and bool(pp) and pg[0] in pp, detail="get: %s; put: %s" % (pg, pp)))
    # R-CORRUPT-MISS
    loads = []
    parents = {}
    for n in ast.walk(get):
        for ch in ast.iter_child_nodes(n):
            parents[ch] = n
    loaded_names = set()
    for n in ast.walk(get):
        if isinstance(n, ast.Call) and (dotted_name(n.func) or "").split(".")[-1] in ("load", "open"):
            loads.append(n)
            p = parents.get(n)
            while p is not None and not isinstance(p, (ast.Assign, ast.withitem, ast.With)):
                p = parents.get(p)
            if isinstance(p, ast.Assign):
                for t in p.targets:
                    if isinstance(t, ast.Name):
                        loaded_names.add(t.id)
            if isinstance(p, ast.withitem) and isinstance(p.optional_vars, ast.Name):
                loaded_names.add(p.optional_vars.id)
    reads = list(loads)
    for n in ast.walk(get):
        if isinstance(n, ast.Subscript) and isinstance(n.value, ast.Name) and n.value.id in loaded_names and isinstance(n.ctx, ast.Load):
            reads.append(n)
    obs.append(req_ob("R-CORRUPT-MISS", sg, "the hit path reads the entry with np.load", bool(loads)))

    def guarded(n):
        p = parents.get(n)
        child = n
        while p is not None:
            if isinstance(p, ast.Try) and child in p.body:
                for h in p.handlers:
                    broad = h.type is None or (dotted_name(h.type) in ("Exception", "BaseException"))
                    if isinstance(h.type, ast.Tuple):
                        names = {dotted_name(e) for e in h.type.elts}
                        broad = {"Exception"} <= names or {"OSError", "ValueError", "EOFError", "KeyError"} <= {x.split(".")[-1] for x in names if x} and any("BadZipFile" in (x or "") for x in names)
                    returns_miss = any(isinstance(s, ast.Return) and (s.value is None or (isinstance(s.value, ast.Constant) and s.value.value is None)) for s in ast.walk(h))
                    reraises = any(isinstance(s, ast.Raise) for s in ast.walk(h))
                    if broad and returns_miss and not reraises:
                        return True
            child = p
            p = parents.get(p)
        return False

    for n in reads:
        what = "np.load" if isinstance(n, ast.Call) else "read of entry member %s" % ast.unparse(n)
        obs.append(req_ob("R-CORRUPT-MISS", sg, "%s (line %d) is inside a handler that turns any failure into a miss" % (what, n.lineno), guarded(n), key={"read": what}))
    # miss value
    rets = [n for n in ast.walk(get) if isinstance(n, ast.Return)]
    has_none = any(r.value is None or (isinstance(r.value, ast.Constant) and r.value.value is None) for r in rets)
    obs.append(req_ob("R-CORRUPT-MISS", sg, "a miss is reported as None", has_none))
    return obs


def roundtrip_obligation(P):
    """what a hit returns is field for field what put stored (abstract composition of put and get)"""
    m, c = _cls(P)
    site = "src/bldfm/cache.py::GreensFunctionCache (put then get)"
    saved = {}

    def savez(I, args, kwargs, node):
        saved.update(kwargs)
        saved["__positional__"] = list(args[1:])
        return None

    def load(I, args, kwargs, node):
        return Opaque("npz", {"items": {k: v for k, v in saved.items() if not k.startswith("__")}, "unpack": []})

    def replace(I, args, kwargs, node):
        return None

    selfo = Opaque("cacheobj", {"__class__": (m, c), "cache_dir": Opaque("Path")})
    gx, gy, gz, conc, flx = (alg.sym(n) for n in ("grid_X", "grid_Y", "grid_Z", "conc_field", "flx_field"))
    keyargs = [alg.sym("k_%d" % i) for i in range(6)] + ["double"]
    stubs = {"numpy.savez": savez, "numpy.savez_compressed": savez, "numpy.load": load, "os.replace": replace, "os.rename": replace}
    fn_put, fn_get = _method(c, "put"), _method(c, "get")
    res = explore(lambda dec: Interp(P, dec, stubs=stubs), lambda it: it.run_function(m, fn_put, [selfo] + keyargs + [Tup([gx, gy, gz]), conc, flx], {}))
    obs = []
    obs.append(req_ob("R-HIT", site, "put writes the five arrays by name", bool(res) and all(r.kind == "return" for r in res) and set(k for k in saved if not k.startswith("__")) >= {"conc", "flx"} or len([k for k in saved if not k.startswith("__")]) >= 5,
                      detail="saved keys %s" % sorted(k for k in saved if not k.startswith("__"))))
    res = explore(lambda dec: Interp(P, dec, stubs=stubs), lambda it: it.run_function(m, fn_get, [selfo] + keyargs, {}))
    hits = [r for r in res if r.kind == "return" and r.value is not None]
    exp = Tup([Tup([gx, gy, gz]), conc, flx])
    import props_wiring as pw

    ok = bool(hits) and all(pw.same_value(r.value, exp) for r in hits)
    obs.append(req_ob("R-HIT", site, "a hit returns ((X, Y, Z), conc, flx) exactly as stored", ok, detail=None if ok else "get returns %s" % ([repr(r.value)[:200] for r in hits] or "nothing")))
    return obs


def make_cache_obligation(P):
    m = P.module("bldfm.interface")
    site = "src/bldfm/interface.py::_make_cache"
    out = []
    for use, fp in ((True, True), (True, False), (False, True), (False, False)):
        cfg = CM.make_obj(P, "BLDFMConfig", "config", {"config.parallel.use_cache": use, "config.solver.footprint": fp})
        res = CM.run_paths(P, "bldfm.interface", "_make_cache", [cfg], {})
        rets = [r for r in res if r.kind == "return"]
        made = [r for r in rets if isinstance(r.value, Opaque) and "GreensFunctionCache" in r.value.name]
        ok = len(rets) == 1 and ((len(made) == 1) == (use and fp))
        out.append(req_ob("R-ATTACH", site, "a cache is created exactly when caching is enabled and the run is in footprint mode (use_cache=%s, footprint=%s)" % (use, fp), ok))
    return out


def check_C15(P, tier):
    R = Result("C15", tier)
    R.min_obligations = 60
    R.explanation = ("(R-KEY-COMPLETE) the footprint solver is interpreted abstractly with a recording cache: for both solution branches and both analysis points every "
                     "solver parameter whose atoms reach the returned fields (values or shapes) must have atoms in the arguments of cache.get, requests differing only in "
                     "the analytic flag or precision must have different key material, and every argument of _compute_key must flow into the hash whose digest is "
                     "the key; (R-KEY-SAME) each key argument has the same abstract value at the lookup and at the store (given and default halo), get and put pass "
                     "their own arguments position by position and name the file identically; (R-CORRUPT-MISS) np.load and every member read on the hit path lie "
                     "inside a handler that catches Exception and returns the miss value, which covers every truncation point at once; (R-HIT) a hit returns, "
                     "field for field, what put stored (abstract composition of put and get) and the solver returns it untouched, a miss stores the returned result; "
                     "(R-TRANSPARENT) a miss computes the no-cache result. Hash collisions and file-system semantics are trusted, not decided. An atomic rename is "
                     "not required by the property once unreadable entries are misses, and is not demanded.")
    R.trusted = [TRUST]
    R.add(solver_cache_obligations(P))
    o, params = compute_key_obligations(P)
    R.add(o)
    R.add(getput_obligations(P, params))
    R.add(roundtrip_obligation(P))
    R.add(make_cache_obligation(P))
    R.analysed = {"files": ["src/bldfm/cache.py", "src/bldfm/solver.py", "src/bldfm/interface.py"],
                  "functions": ["steady_state_transport_solver", "GreensFunctionCache._compute_key", "GreensFunctionCache.get", "GreensFunctionCache.put", "_make_cache"], "paths": 0}
    return R, "key completeness by dependence; same reaching value at lookup/store; handler discipline; put/get composition"
