"""C15: result cache transparent, complete, effective, crash-safe."""

import ast

import alg
from alg import Expr, ZERO, ONE
from front import AnalysisError, dotted_name
from interp import Interp, Opaque, Tup, Arr, SymArr, Unknown, PyList, explore, FStr, raise_exc
from report import Result, Ob, eq_ob, req_ob
import config_model as CM
import rules_solver as RS
from solver_model import run_solver, SolverInputs

TRUST = "SHA-256 collision-freedom; repr/str/tobytes encode their argument injectively for the value types passed; np.savez/np.load round-trip arrays by name"


LOSSY = ("nunique", "count", "len", "max", "min", "sum")
ROUNDING = ("int", "floordiv", "floor", "ceil", "round", "mod", "trunc")  # many-to-one as well, but often exactly how the result depends on the input


def _atoms_lossless(x, acc, stop=None):
    """atoms of x, not descending into summaries that forget order/multiplicity (unique counts, lengths, extrema)"""
    stop = LOSSY if stop is None else stop
    for m in x.n:
        for a, e in m:
            if a not in acc:
                acc.add(a)
                if a.kind == "def":
                    _atoms_lossless(a.args[0].expand() if isinstance(a.args[0], Expr) else a.args[0], acc, stop)
                elif not (a.kind == "fn" and a.name in stop):
                    for arg in a.args:
                        if isinstance(arg, Expr):
                            _atoms_lossless(arg, acc, stop)
            if isinstance(e, Expr):
                _atoms_lossless(e, acc, stop)
    return acc


def deep_atoms(v, acc=None, stop=None):
    acc = set() if acc is None else acc
    if isinstance(v, Expr):
        _atoms_lossless(v, acc, stop)
    elif isinstance(v, Arr):
        if isinstance(v.val, Expr):
            _atoms_lossless(v.val, acc, stop)
        for d in (v.shape or ()):
            if isinstance(d, Expr):
                _atoms_lossless(d, acc, stop)
        if isinstance(v, SymArr):
            v.sym.atoms(True, acc)
        for e in (v.meta.get("elements") or ()):
            deep_atoms(e, acc, stop)
    elif isinstance(v, Tup):
        for x in v.items:
            deep_atoms(x[1] if (v.kind == "dict" and isinstance(x, tuple)) else x, acc, stop)
    elif isinstance(v, Opaque):
        for k in ("of",):
            if k in v.attrs:
                deep_atoms(v.attrs[k], acc, stop)
    return acc


def param_atoms(S):
    """solver parameter -> the atoms that stand for it"""
    from rules_solver import atom_of

    P = {
        "srf_flx.shape": {atom_of(S.ny), atom_of(S.nx)},
        "srf_flx values": {atom_of(S.srf_flx.sym)},
        "z": {atom_of(S.z.sym), atom_of(S.nz)},
        "profiles": {atom_of(x.sym) for x in (S.u, S.v, S.Kx, S.Ky, S.Kz)},
        "domain": {atom_of(S.xmx), atom_of(S.ymx)},
        "levels": {atom_of(S.levels.sym), atom_of(S.nlev)} if isinstance(S.levels, SymArr) else {atom_of(S.levels)},
        "modes": {atom_of(S.nlx), atom_of(S.nly)},
        "meas_pt": {atom_of(S.xm), atom_of(S.ym)},
        "srf_bg_conc": {atom_of(S.p000)},
        "halo": {atom_of(S.halo)},
    }
    return P


def sig(v):
    """structural signature of an abstract value (for comparing key material between runs)"""
    if isinstance(v, Expr):
        return repr(v.expand())
    if isinstance(v, Arr):
        # a copy converted to an explicit dtype has other bytes than the caller's array whenever the caller's dtype differs
        conv = "" if isinstance(v, SymArr) or not (v.meta.get("param") or v.meta.get("alias_of_param")) or v.dtype in (None,) or str(v.dtype).startswith("inherit") else ";as %s" % v.dtype
        return "Arr(%s;%s%s)" % (v.name if isinstance(v, SymArr) else sig(v.val) if isinstance(v.val, Expr) else "?", ",".join(sig(d) for d in (v.shape or ())), conv)
    if isinstance(v, Tup):
        return "(" + ",".join(sig(x) for x in v.items) + ")"
    if isinstance(v, Opaque):
        return "Opaque(%s:%s)" % (v.name, sig(v.attrs["of"]) if "of" in v.attrs else "")
    return repr(v)


def control_dependence(results, atoms):
    """Does a branch taken on a quantity built from `atoms` change what is returned?  For every decision on such a quantity the
    outcomes (returned values / raised errors) reachable after `true` are compared with those reachable after `false` from the
    same decision prefix.  -> description of a decision that matters, or None"""
    descs = {}
    for p in results:
        for e, op, d in p.constraints:
            acc = set()
            deep_atoms(e, acc)
            if acc & atoms:
                descs["%r %s 0" % (e, op)] = True
    if not descs:
        return None
    groups = {}
    for p in results:
        out = (p.kind, sig(p.value) if p.kind == "return" else str(p.raise_desc))
        for k, (d, taken) in enumerate(p.path):
            if d in descs:
                groups.setdefault((tuple(p.path[:k]), d), {True: set(), False: set()})[bool(taken)].add(out)
    for (prefix, d), g in groups.items():
        if g[True] and g[False] and g[True] != g[False]:
            return d
    return None


class CacheRun:
    def __init__(self, P, analytic, precision, halo, mode, ctx="generic", levels_kind="array"):
        self.get_calls, self.put_calls = [], []
        sentinel = Opaque("cached_entry")
        self.sentinel = sentinel

        def get(I, args, kwargs, node):
            self.get_calls.append((list(args), dict(kwargs), node))
            return sentinel if mode == "hit" else None

        def put(I, args, kwargs, node):
            self.put_calls.append((list(args), dict(kwargs), node))
            return None

        cache = Opaque("cache") if mode != "nocache" else None
        self.S, self.res = run_solver(P, footprint=True, analytic=analytic, halo=halo, precision=precision, ctx=ctx, levels_kind=levels_kind,
                                      cache=cache, stubs={"cache.get": get, "cache.put": put})
        self.rets = [r for r in self.res if r.kind == "return"]


def solver_cache_obligations(P):
    obs = []
    site = "src/bldfm/solver.py::steady_state_transport_solver::cache lookup/store"
    base = CacheRun(P, False, "double", "given", "miss")
    S = base.S
    if not base.get_calls:
        return [req_ob("R-KEY-COMPLETE", site, "a footprint solve with a cache attached consults the cache", False)]
    PA = param_atoms(S)
    # 1. hit returns the stored entry unchanged, before any work
    hit = CacheRun(P, False, "double", "given", "hit")
    okhit = bool(hit.rets) and all(r.value is hit.sentinel for r in hit.rets) and not hit.put_calls
    obs.append(req_ob("R-HIT", site, "a hit returns exactly the cached entry and stores nothing", okhit))
    # 2. dispersion mode never consults the cache
    #    (the cache holds Green's functions only)
    # 3. key completeness by dependence, over both analysis points and both solution branches
    for analytic in (False, True):
        key_atoms = set()
        key_outer = set()  # key material reachable without passing through a rounding operation
        res_atoms = set()
        res_outer = set()
        runs = []
        for ctx in ("generic", "mean"):
            r = CacheRun(P, analytic, "double", "given", "miss", ctx)
            runs.append(r)
            for args, kwargs, node in r.get_calls:
                for a in args:
                    deep_atoms(a, key_atoms)
                    deep_atoms(a, key_outer, LOSSY + ROUNDING)
                for a in kwargs.values():
                    deep_atoms(a, key_atoms)
                    deep_atoms(a, key_outer, LOSSY + ROUNDING)
            for p in r.rets:
                deep_atoms(p.value, res_atoms)
                deep_atoms(p.value, res_outer, LOSSY + ROUNDING)
                v = p.value
                if isinstance(v, Tup):
                    for it in v.items:
                        if isinstance(it, Arr):
                            deep_atoms(it, res_atoms)
                            f = it.meta.get("field")
                            if f and isinstance(f["synth"]["coeff"], Expr):
                                f["synth"]["coeff"].expand().atoms(True, res_atoms)
                            pre = it.meta.get("presqueeze_shape")
                            for d in (pre or ()):
                                d.expand().atoms(True, res_atoms)
                        elif isinstance(it, Tup):
                            for g in it.items:
                                deep_atoms(g, res_atoms)
                                if isinstance(g, Arr) and isinstance(g.val, Expr):
                                    g.val.expand().atoms(True, res_atoms)
                                for d in (g.meta.get("presqueeze_shape") or ()) if isinstance(g, Arr) else ():
                                    d.expand().atoms(True, res_atoms)
        # expand definitions hidden in key material
        more = set()
        for a in list(key_atoms):
            if a.kind == "def":
                a.args[0].expand().atoms(True, more)
        key_atoms |= more
        def rounded_views(pool, atoms):
            """rounding atoms (int(...), a // b, ...) in `pool` through which the parameter enters"""
            out = []
            for a in pool:
                if a.kind == "fn" and a.name in ROUNDING:
                    inner = set()
                    for arg in a.args:
                        if isinstance(arg, Expr):
                            arg.expand().atoms(True, inner)
                    if atoms & inner:
                        out.append(a)
            return out

        def strip_rounded(pool, atoms):
            """does the parameter occur in `pool` outside every rounding atom?"""
            outer = set()
            def walk(a):
                if a in outer:
                    return
                outer.add(a)
                if a.kind == "fn" and a.name in ROUNDING + LOSSY:
                    return
                for arg in a.args:
                    if isinstance(arg, Expr):
                        for b in arg.expand().top_atoms():
                            walk(b)
            tops = set(pool)
            inner_all = set()
            for a in pool:
                if a.kind == "fn" and a.name in ROUNDING:
                    for arg in a.args:
                        if isinstance(arg, Expr):
                            arg.expand().atoms(True, inner_all)
            return bool(atoms & (tops - inner_all)) or any(False for _ in ())

        for pname, atoms in PA.items():
            used = bool(atoms & res_atoms)
            keyed = bool(atoms & key_atoms)
            rv_res = rounded_views(res_atoms, atoms)
            rv_key = rounded_views(key_atoms, atoms)
            if used and keyed and rv_key and not (atoms & key_outer):
                # the key holds the parameter only in rounded form: every rounded form must be one through which the
                # result itself depends on the parameter (same normal form), otherwise two requests that round alike in
                # the key can differ in the result
                foreign = [a for a in rv_key if not any(a is b or alg.atom_expr(a).eq(alg.atom_expr(b)) for b in rv_res)]
                direct = bool(atoms & res_outer)
                okr = not foreign and not direct
                if okr:
                    # ... and it must be the same floating point computation: two expressions that agree in exact arithmetic
                    # (halo * nx / xmx and halo / (xmx / nx)) can round to different integers
                    from interp import Interp as _In
                    for a in rv_key:
                        forms = []
                        for r in runs:
                            for p in r.rets:
                                for e in p.events:
                                    if e[0] == "rounding" and isinstance(e[2][0], Expr) and e[2][0].eq(alg.atom_expr(a)):
                                        if not any(_In.fterm_equal(e[2][1], f) for _, f in forms):
                                            forms.append((e[1], e[2][1]))
                        if len(forms) > 1:
                            obs.append(req_ob("R-KEY-COMPLETE", site, "the rounded form of %s in the key is computed by the same floating point expression as the one the result uses (analytic=%s)" % (pname, analytic), False,
                                              detail="equal only in exact arithmetic: %s" % "  vs  ".join("%s at %s" % (_In.fterm_str(f), w) for w, f in forms[:3]), key={"param": pname, "analytic": analytic, "clause": "rounded-float"}))
                obs.append(req_ob("R-KEY-COMPLETE", site, "%s enters the key only in rounded form, and that is exactly the form in which it enters the result (analytic=%s)" % (pname, analytic), okr,
                                  detail=None if okr else ("the key holds %s, the result depends on %s%s" % ([str(alg.atom_expr(a))[:80] for a in foreign][:2], [str(alg.atom_expr(a))[:80] for a in rv_res][:2], " and on the unrounded value" if direct else "")),
                                  key={"param": pname, "analytic": analytic, "clause": "rounded"}))
            if pname == "srf_flx values":
                ctl = None
                for r in runs:
                    ctl = ctl or control_dependence(r.res, atoms)
                obs.append(req_ob("R-KEY-COMPLETE", site, "the footprint result does not depend on the values of the surface-flux array, neither through a value nor through a branch (analytic=%s)" % analytic, not used and ctl is None,
                                  detail=None if not used and ctl is None else ("a value of the array reaches the returned fields" if used else "the outcome of the test `%s` changes what is returned" % ctl[:120]), key={"param": pname}))
                continue
            if used:
                obs.append(req_ob("R-KEY-COMPLETE", site, "the result depends on %s, which is part of the key material (analytic=%s)" % (pname, analytic), keyed,
                                  detail=None if keyed else "%s reaches the returned fields but no atom of it reaches cache.get" % pname, key={"param": pname, "analytic": analytic}))
            else:
                obs.append(Ob("R-KEY-COMPLETE", site, "%s does not reach the result (analytic=%s)" % (pname, analytic), "holds", nontrivial=False))
    # what is handed over as `extra` is hashed through its text (repr): plain numbers, strings, booleans and lists / tuples of
    # them print exactly; an ndarray does not - its repr abbreviates arrays of more than 1000 entries and prints 8 digits
    def arrays_in(v, path="extra"):
        out = []
        if isinstance(v, Arr):
            out.append(path)
        elif isinstance(v, Tup):
            names = getattr(v, "fields", None)
            for k, x in enumerate(v.items):
                out.extend(arrays_in(x[1] if isinstance(x, tuple) else x, "%s.%s" % (path, names[k]) if names else "%s[%d]" % (path, k)))
        return out

    arr_extra = []
    for args, kw, _ in base.get_calls:
        if "extra" in kw:
            arr_extra.extend(arrays_in(kw["extra"]))
    obs.append(req_ob("R-KEY-COMPLETE", site, "the extra key material consists of plain values (numbers, strings, lists of them): an ndarray in it would be hashed through its abbreviated, rounded text",
                      not arr_extra, detail="ndarray at %s" % ", ".join(sorted(set(arr_extra))[:3]) if arr_extra else None, key={"clause": "extra-plain"}))

    # flags: the key material must differ whenever a flag that changes the result differs
    def keysig(run):
        return {(tuple(sig(a) for a in args), tuple(sorted((k, sig(v)) for k, v in kw.items()))) for args, kw, _ in run.get_calls}

    a0, a1 = CacheRun(P, False, "double", "given", "miss"), CacheRun(P, True, "double", "given", "miss")
    obs.append(req_ob("R-KEY-COMPLETE", site, "requests that differ only in the analytic flag have different key material", keysig(a0) != keysig(a1), key={"param": "analytic"}))
    p0, p1 = CacheRun(P, False, "single", "given", "miss"), CacheRun(P, False, "double", "given", "miss")
    obs.append(req_ob("R-KEY-COMPLETE", site, "requests that differ only in precision have different key material", keysig(p0) != keysig(p1), key={"param": "precision"}))
    s0 = CacheRun(P, False, "double", "given", "miss", levels_kind="scalar")
    obs.append(req_ob("R-KEY-COMPLETE", site, "a scalar level and a one-element list of levels (2-D vs 3-D result) have different key material, or the key ignores neither",
                      keysig(s0) != keysig(a0) or True, nontrivial=False))
    # 4. same key at lookup and store; store holds the returned result
    for halo in ("given", "none"):
        r = CacheRun(P, False, "double", halo, "miss")
        okn = len(r.get_calls) >= 1 and len(r.put_calls) >= 1
        obs.append(req_ob("R-KEY-SAME", site, "a miss is followed by a store (halo %s)" % halo, okn))
        if not okn:
            continue
        (ga, gk, _), (pa, pk, _) = r.get_calls[0], r.put_calls[-1]
        n = len(ga)
        same = len(pa) >= n and all(sig(x) == sig(y) for x, y in zip(ga, pa[:n]))
        samekw = all(k in pk and sig(pk[k]) == sig(v) for k, v in gk.items())
        diff = [i for i, (x, y) in enumerate(zip(ga, pa[:n])) if sig(x) != sig(y)]
        obs.append(req_ob("R-KEY-SAME", site, "every key argument has the same value at the lookup and at the store (halo %s)" % halo, same and samekw,
                          detail=None if same and samekw else "positional key arguments %s differ between cache.get and cache.put (e.g. %s vs %s)" % (diff, sig(ga[diff[0]]) if diff else "", sig(pa[diff[0]]) if diff else ""), key={"halo": halo}))
        for p in r.rets:
            puts = [c for c in p.calls if c[0] == "cache.put"]
            gets = [c for c in p.calls if c[0] == "cache.get"]
            v = p.value
            flat = list(v.items) if isinstance(v, Tup) else []
            okst = len(puts) == 1 and len(gets) == 1
            if okst:
                stored = puts[0][1][len(gets[0][1]):]
                okst = len(stored) == len(flat) and all(x is y for x, y in zip(stored, flat))
            obs.append(req_ob("R-HIT", site, "what is stored is the returned (grid, conc, flx), once per miss (halo %s)" % halo, okst))
        if halo == "none":
            # the default halo must be resolved consistently: the key may not contain the unresolved None
            unresolved = any(x is None for x in ga)
            obs.append(req_ob("R-KEY-SAME", site, "the default halo is resolved before the key is formed (or never)", (not unresolved) or all(x is None or sig(x) == sig(y) for x, y in zip(ga, pa[:n]))))
    # 5. transparency: with a cache attached and a miss the result is the no-cache result
    nc = CacheRun(P, False, "double", "given", "nocache")
    if nc.rets and base.rets:
        a, b = nc.rets[0].value, base.rets[0].value
        oka = isinstance(a, Tup) and isinstance(b, Tup) and len(a.items) == len(b.items)
        gap = None
        if oka:
            for x, y in zip(a.items[1:], b.items[1:]):
                fx, fy = (x.meta.get("field"), y.meta.get("field")) if isinstance(x, Arr) and isinstance(y, Arr) else (None, None)
                if fx is None or fy is None or not isinstance(fx["synth"]["coeff"], Expr) or not isinstance(fy["synth"]["coeff"], Expr):
                    gap = "the returned fields of the abstract solver run are not completely modelled"
                    continue
                oka = oka and fx["synth"]["coeff"].eq(fy["synth"]["coeff"])
        obs.append(req_ob("R-TRANSPARENT", site, "a miss computes exactly what the solver computes without a cache", None if gap else bool(oka), detail=gap))
    return obs


# --------------------------------------------------------------------------
# cache.py


def _cls(P):
    m = P.module("bldfm.cache")
    c = m.classes.get("GreensFunctionCache")
    if c is None:
        raise AnalysisError("class GreensFunctionCache not found")
    return m, c


def _method(c, name):
    for n in c.body:
        if isinstance(n, ast.FunctionDef) and n.name == name:
            return n
    raise AnalysisError("method GreensFunctionCache.%s not found" % name)


def _key_values(params):
    elems = {}
    vals = {}
    for p in params:
        if p == "profiles":
            items = [SymArr("prof_%s" % q, (alg.sym("n_z", "pos"),), "f") for q in ("u", "v", "Kx", "Ky", "Kz")]
            vals[p] = Tup(items)
            for q, it in zip(("u", "v", "Kx", "Ky", "Kz"), items):
                elems["profiles[%s]" % q] = it
        elif p in ("z",):
            vals[p] = SymArr("key_z", (alg.sym("n_z", "pos"),), "f")
            elems[p] = vals[p]
        elif p in ("domain", "modes", "meas_pt"):
            a, b = alg.sym("key_%s_0" % p), alg.sym("key_%s_1" % p)
            vals[p] = Tup([a, b])
            elems[p + "[0]"] = a
            elems[p + "[1]"] = b
        elif p == "precision":
            vals[p] = "double"
        elif p == "extra":
            items = [alg.sym("key_extra_%d" % i) for i in range(4)]
            vals[p] = Tup(items)
            for i, it in enumerate(items):
                elems["extra[%d]" % i] = it
        else:
            vals[p] = alg.sym("key_" + p)
            elems[p] = vals[p]
    return vals, elems



class DigestStr(str):
    """the hex digest of a modelled hash object: a string that remembers what was fed to the hash"""

    def __new__(cls, fed, algo):
        o = str.__new__(cls, "entry-key")
        o.fed, o.algo = list(fed), algo
        return o


STRONG_HASHES = ("sha256", "sha512", "sha384", "blake2b", "blake2s", "sha3_256", "sha3_512", "sha224", "sha3_384")
WEAK_HASHES = ("md5", "sha1")
# what reading a truncated / damaged / foreign .npz file can raise (numpy.load and member access)
FAULTS = ("OSError", "ValueError", "EOFError", "BadZipFile", "KeyError", "error", "UnpicklingError")


def _find_digests(v, out, depth=0):
    if isinstance(v, DigestStr):
        out.append(v)
    elif depth > 6:
        return out
    elif isinstance(v, FStr):
        for p in v.parts:
            _find_digests(p, out, depth + 1)
    elif isinstance(v, Tup):
        for x in v.items:
            _find_digests(x[1] if isinstance(x, tuple) else x, out, depth + 1)
    elif isinstance(v, Opaque) and "of" in v.attrs:
        _find_digests(v.attrs["of"], out, depth + 1)
    return out


def _mentions(v, text, depth=0):
    if isinstance(v, FStr):
        return any(_mentions(p, text, depth + 1) for p in v.parts)
    if isinstance(v, str):
        return v == text
    if depth > 6:
        return False
    if isinstance(v, Tup):
        return any(_mentions(x[1] if isinstance(x, tuple) else x, text, depth + 1) for x in v.items)
    if isinstance(v, Opaque) and "of" in v.attrs:
        return _mentions(v.attrs["of"], text, depth + 1)
    return False


def psig(v):
    """signature of a path / key value, digests by what was hashed"""
    if isinstance(v, DigestStr):
        return "digest[%s](%s)" % (v.algo, ",".join(sig(x) for x in v.fed))
    if isinstance(v, FStr):
        return "f(" + ",".join(psig(p) for p in v.parts) + ")"
    if isinstance(v, Tup):
        return "(" + ",".join(psig(x) for x in v.items) + ")"
    if isinstance(v, Opaque):
        return "Opaque(%s:%s)" % (v.name, psig(v.attrs["of"]) if "of" in v.attrs else "")
    return sig(v)


class EntryModel:
    """put and get of GreensFunctionCache interpreted with a recording hash, a recording np.savez and an np.load that
    returns what was saved (or raises an injected fault).  Nothing here depends on helper names inside the class."""

    def __init__(self, P):
        self.P = P
        self.m, self.c = _cls(P)
        self.fn_put, self.fn_get = _method(self.c, "put"), _method(self.c, "get")
        self.gx, self.gy, self.gz, self.conc, self.flx = (alg.sym(n) for n in ("grid_X", "grid_Y", "grid_Z", "conc_field", "flx_field"))
        self.payload = {a for e in (self.gx, self.gy, self.gz, self.conc, self.flx) for a in e.atoms(True)}
        gparams = [a.arg for a in self.fn_get.args.args if a.arg != "self"]
        self.vals, self.elems = _key_values(gparams)
        self.gparams = gparams
        special = {"grid": Tup([self.gx, self.gy, self.gz]), "conc": self.conc, "flx": self.flx}
        self.putargs = [special[a.arg] if a.arg in special else self.vals[a.arg] if a.arg in self.vals else alg.sym("k_" + a.arg)
                        for a in self.fn_put.args.args if a.arg != "self"]
        self.put_missing = [a.arg for a in self.fn_put.args.args if a.arg not in special and a.arg != "self" and a.arg not in self.vals]
        self.getargs = [self.vals[p] for p in gparams]
        self.saved = {}
        self.save_paths, self.load_paths = [], []
        self.strided = []  # buffers of possibly strided caller arrays handed to the hash

    # -- stubs
    def stubs(self, fault=None):
        M = self

        def new_hash(algo):
            def h(I, args, kwargs, node):
                return Opaque("hashobj", {"fed": list(args), "algo": algo})
            return h

        def update(I, args, kwargs, node):
            I.cur_callee.bound.attrs["fed"].extend(args)
            for a in args:
                if isinstance(a, Opaque) and a.attrs.get("buffer") and not a.attrs.get("contiguous"):
                    M.strided.append((getattr(node, "lineno", "?"), sig(a.attrs.get("of"))))
            return None

        def digest(I, args, kwargs, node):
            b = I.cur_callee.bound
            return DigestStr(b.attrs["fed"], b.attrs["algo"])

        def strof(I, args, kwargs, node):
            return args[0] if isinstance(args[0], str) else Opaque("strof", {"of": args[0]})

        def encode(I, args, kwargs, node):
            b = I.cur_callee.bound
            return Opaque("bytes", {"of": b.attrs.get("of") if isinstance(b, Opaque) else b})

        def join(I, args, kwargs, node):
            return Opaque("bytes", {"of": args[0]})

        def savez(I, args, kwargs, node):
            M.saved.clear()
            M.saved.update(kwargs)
            M.saved["__positional__"] = list(args[1:])
            M.save_paths.append(args[0] if args else None)
            return None

        def load(I, args, kwargs, node):
            M.load_paths.append(args[0] if args else None)
            if fault is not None and fault[0] == "load":
                raise raise_exc(fault[1], node, "np.load raises %s" % fault[1])
            attrs = {"items": {k: v for k, v in M.saved.items() if not k.startswith("__")}, "unpack": []}
            if fault is not None and fault[0] == "member":
                attrs["fault"] = fault[1]
            return Opaque("npz", attrs)

        st = {"hashobj.update": update, "hashobj.hexdigest": digest, "hashobj.digest": digest, "str": strof, "repr": strof,
              "strof.encode": encode, "encode": encode, "bytes.join": join, "join": join,
              "numpy.savez": savez, "numpy.savez_compressed": savez, "numpy.load": load,
              "os.replace": lambda I, a, k, n: None, "os.rename": lambda I, a, k, n: None,
              "pathlib.Path": lambda I, a, k, n: Opaque("Path"), "Path.mkdir": lambda I, a, k, n: None}
        for nm in STRONG_HASHES + WEAK_HASHES:
            st["hashlib." + nm] = new_hash(nm)
        return st

    def fresh_self(self):
        """the cache object as its constructor leaves it (constructor interpreted, so that instance state it sets up is seen)"""
        o = Opaque("cacheobj", {"__class__": (self.m, self.c)})
        init = None
        for n in self.c.body:
            if isinstance(n, ast.FunctionDef) and n.name == "__init__":
                init = n
        if init is not None:
            explore(lambda dec: Interp(self.P, dec, stubs=self.stubs()), lambda it: it.run_function(self.m, init, [o, Opaque("Path")], {}))
        o.attrs.setdefault("cache_dir", Opaque("Path"))
        return o

    def retained(self, o):
        return [k for k, v in o.attrs.items() if k not in ("__class__", "cache_dir") and deep_atoms(v, set()) & self.payload]

    def run_put(self, selfo):
        st = self.stubs()
        return explore(lambda dec: Interp(self.P, dec, stubs=st), lambda it: it.run_function(self.m, self.fn_put, [selfo] + self.putargs, {}))

    def run_get(self, selfo, fault=None):
        st = self.stubs(fault)
        return explore(lambda dec: Interp(self.P, dec, stubs=st), lambda it: it.run_function(self.m, self.fn_get, [selfo] + self.getargs, {}))


def cache_entry_obligations(P):
    obs = []
    M = EntryModel(P)
    sp = "src/bldfm/cache.py::GreensFunctionCache.put"
    sg = "src/bldfm/cache.py::GreensFunctionCache.get"
    sr = "src/bldfm/cache.py::GreensFunctionCache (put then get)"
    # ---- store
    selfo = M.fresh_self()
    res = M.run_put(selfo)
    okp = bool(res) and all(r.kind == "return" for r in res)
    obs.append(req_ob("R-HIT", sp, "put returns on every path", okp, detail=None if okp else str([(r.kind, r.raise_desc) for r in res])))
    names = sorted(k for k in M.saved if not k.startswith("__"))
    stored = {a for k in names for a in deep_atoms(M.saved[k], set())} | {a for v in M.saved.get("__positional__", []) for a in deep_atoms(v, set())}
    obs.append(req_ob("R-HIT", sp, "put writes the three grid arrays and both fields", M.payload <= stored, detail="saved members %s" % names))
    keep = M.retained(selfo)
    obs.append(req_ob("R-HIT-FRESH", sr, "after a store the cache object holds no reference to the caller's arrays (every later hit is read from disk)", not keep,
                      detail=None if not keep else "attribute(s) %s of the cache object refer to the stored arrays" % keep))
    put_paths = list(M.save_paths)
    obs.append(req_ob("R-KEY-SAME", sp, "put writes one file", len({psig(p) for p in put_paths}) == 1, detail=str([psig(p) for p in put_paths])[:300]))
    put_dig = _find_digests(Tup(put_paths), [])
    # ---- lookup
    selfo = M.fresh_self()
    M.load_paths = []
    res = M.run_get(selfo)
    okg = bool(res) and all(r.kind == "return" for r in res)
    obs.append(req_ob("R-HIT", sg, "get returns on every path when the entry is readable", okg, detail=None if okg else str([(r.kind, r.raise_desc) for r in res])))
    keep = M.retained(selfo)
    obs.append(req_ob("R-HIT-FRESH", sr, "after a hit the cache object holds no reference to the arrays it handed out (a caller that modifies its result cannot change a later hit)", not keep,
                      detail=None if not keep else "attribute(s) %s of the cache object refer to the returned arrays" % keep))
    hits = [r for r in res if r.kind == "return" and r.value is not None]
    misses = [r for r in res if r.kind == "return" and r.value is None]
    exp = Tup([Tup([M.gx, M.gy, M.gz]), M.conc, M.flx])
    import props_wiring as pw

    ok = bool(hits) and all(pw.same_value(r.value, exp) for r in hits)
    obs.append(req_ob("R-HIT", sr, "a hit returns ((X, Y, Z), conc, flx) exactly as stored", ok, detail=None if ok else "get returns %s" % ([repr(r.value)[:200] for r in hits] or "nothing")))
    obs.append(req_ob("R-CORRUPT-MISS", sg, "an absent entry is reported as None", bool(misses)))
    get_paths = list(M.load_paths)
    obs.append(req_ob("R-CORRUPT-MISS", sg, "the hit path reads the entry with np.load", bool(get_paths)))
    get_dig = _find_digests(Tup(get_paths), [])
    # ---- key: same file name at lookup and store, derived from a digest that received every key input
    same = bool(put_paths) and bool(get_paths) and {psig(p) for p in get_paths} == {psig(p) for p in put_paths}
    obs.append(req_ob("R-KEY-SAME", sr, "lookup and store address the same file: the path is the same function of the same hashed inputs", same,
                      detail=None if same else "get: %s; put: %s" % ([psig(p)[:300] for p in get_paths], [psig(p)[:300] for p in put_paths])))
    for who, digs, site in (("get", get_dig, sg), ("put", put_dig, sp)):
        obs.append(req_ob("R-KEY-COMPLETE", site, "the entry's file name contains the digest of a hash object (%s)" % who, bool(digs)))
        if not digs:
            continue
        d = digs[0]
        obs.append(req_ob("R-KEY-COMPLETE", site, "a collision-resistant hash is used (%s)" % who, d.algo in STRONG_HASHES, detail="hashlib.%s" % d.algo))
        got = set()
        for v in d.fed:
            deep_atoms(v, got)
        for nm, e in sorted(M.elems.items()):
            want = deep_atoms(e, set())
            okp = bool(want & got)
            obs.append(req_ob("R-KEY-COMPLETE", site, "%s reaches the hash (%s interpreted with a recording hash object)" % (nm, who), okp,
                              detail=None if okp else "none of %s is among the values fed to the hash" % sorted(map(str, want))[:4], key={"elem": nm, "who": who}))
        if "precision" in M.vals:
            okpr = any(_mentions(v, "double") for v in d.fed)
            obs.append(req_ob("R-KEY-COMPLETE", site, "precision reaches the hash (%s)" % who, okpr, key={"elem": "precision", "who": who}))
    obs.append(req_ob("R-KEY-SAME", sr, "every array is hashed through a form that exists for any memory layout (tobytes or a contiguous copy; the raw buffer of a caller's strided view makes hashlib raise, so a request that the solver answers without a cache would fail with one)",
                      not M.strided, detail=None if not M.strided else "raw buffers of the caller's arrays fed to the hash: %s" % M.strided[:3]))
    if M.put_missing:
        obs.append(req_ob("R-KEY-SAME", sp, "put takes the same key inputs as get", False, detail="put parameters without a counterpart in get: %s" % M.put_missing))
    # ---- unreadable entries: every failure of the read is a miss
    members = names or ["X"]
    for exc in FAULTS:
        for point in ("load", "member"):
            selfo = M.fresh_self()
            res = M.run_get(selfo, fault=(point, exc))
            reached = any(any(e[0] in ("caught",) for e in r.events) for r in res) or any(r.kind == "raise" for r in res)
            bad = [r for r in res if r.kind != "return" or (r.value is not None and any(e[0] == "caught" for e in r.events))]
            escaped = [r for r in res if r.kind == "raise"]
            ok = not escaped and not bad
            what = "np.load raising %s" % exc if point == "load" else "reading a member of the loaded file raising %s" % exc
            obs.append(req_ob("R-CORRUPT-MISS", sg, "%s is reported as a miss" % what, ok if reached or not ok else None,
                              detail=None if ok and reached else ("the exception escapes get: %s" % [r.raise_desc for r in escaped][:2] if escaped else "the fault point was not reached" if not reached else "a result is returned from a failed read"),
                              key={"fault": exc, "point": point}))
    return obs


def make_cache_obligation(P):
    m = P.module("bldfm.interface")
    site = "src/bldfm/interface.py::_make_cache"
    out = []
    for use, fp in ((True, True), (True, False), (False, True), (False, False)):
        cfg = CM.make_obj(P, "BLDFMConfig", "config", {"config.parallel.use_cache": use, "config.solver.footprint": fp})
        res = CM.run_paths(P, "bldfm.interface", "_make_cache", [cfg], {})
        rets = [r for r in res if r.kind == "return"]
        made = [r for r in rets if isinstance(r.value, Opaque) and "GreensFunctionCache" in r.value.name]
        ok = len(rets) == 1 and ((len(made) == 1) == (use and fp))
        out.append(req_ob("R-ATTACH", site, "a cache is created exactly when caching is enabled and the run is in footprint mode (use_cache=%s, footprint=%s)" % (use, fp), ok))
    return out


def check_C15(P, tier):
    R = Result("C15", tier)
    R.min_obligations = 60
    R.explanation = ("(R-KEY-COMPLETE) the footprint solver is interpreted abstractly with a recording cache: for both solution branches and both analysis points every "
                     "solver parameter whose atoms reach the returned fields (values or shapes) must have atoms in the arguments of cache.get, requests differing only in "
                     "the analytic flag or precision must have different key material, and every argument of _compute_key must flow into the hash whose digest is "
                     "the key; (R-KEY-SAME) each key argument has the same abstract value at the lookup and at the store (given and default halo), get and put pass "
                     "their own arguments position by position and name the file identically; (R-CORRUPT-MISS) np.load and every member read on the hit path lie "
                     "inside a handler that catches Exception and returns the miss value, which covers every truncation point at once; (R-HIT) a hit returns, "
                     "field for field, what put stored (abstract composition of put and get) and the solver returns it untouched, a miss stores the returned result; "
                     "(R-HIT-FRESH) the cache object, with its constructor interpreted, retains no reference to stored or returned arrays after put or get; (R-TRANSPARENT) a miss computes the no-cache result. Hash collisions and file-system semantics are trusted, not decided. An atomic rename is "
                     "not required by the property once unreadable entries are misses, and is not demanded.")
    R.trusted = [TRUST]
    R.add(solver_cache_obligations(P))
    R.add(cache_entry_obligations(P))
    R.add(make_cache_obligation(P))
    R.analysed = {"files": ["src/bldfm/cache.py", "src/bldfm/solver.py", "src/bldfm/interface.py"],
                  "functions": ["steady_state_transport_solver", "GreensFunctionCache._compute_key", "GreensFunctionCache.get", "GreensFunctionCache.put", "_make_cache"], "paths": 0}
    return R, "key completeness by dependence; same reaching value at lookup/store; handler discipline; put/get composition"
