"""Abstract configuration objects built from the dataclass declarations in
config_parser.py (field names, annotations and defaults are read from the AST)."""

import ast

import alg
from front import AnalysisError, dotted_name
from interp import Opaque, Tup, PyList, Interp, explore

MOD = "bldfm.config_parser"


def dataclass_fields(cls):
    out = []
    for n in cls.body:
        if isinstance(n, ast.AnnAssign) and isinstance(n.target, ast.Name):
            out.append((n.target.id, n.annotation, n.value))
    return out


def is_dataclass(cls):
    return any((dotted_name(d) or (dotted_name(d.func) if isinstance(d, ast.Call) else "")) in ("dataclass", "dataclasses.dataclass") for d in cls.decorator_list)


def ann_text(node):
    return ast.unparse(node)


def make_obj(P, clsname, path, overrides=None, strict=True):
    """Opaque instance of a config dataclass; leaves are symbols named by their
    access path unless overridden (overrides: {path: abstract value})."""
    overrides = overrides or {}
    m = P.module(MOD)
    cls = m.classes.get(clsname)
    if cls is None or not is_dataclass(cls):
        raise AnalysisError("dataclass %s not found in config_parser" % clsname)
    attrs = {"__class__": (m, cls), "__strict__": strict, "__path__": path}
    for name, ann, default in dataclass_fields(cls):
        p = "%s.%s" % (path, name)
        if p in overrides:
            attrs[name] = overrides[p]
            continue
        t = ann_text(ann)
        inner = None
        for cn in m.classes:
            if t == cn:
                inner = ("obj", cn)
            elif t in ("List[%s]" % cn, "list[%s]" % cn):
                inner = ("list", cn)
        if inner and inner[0] == "obj":
            attrs[name] = make_obj(P, inner[1], p, overrides, strict)
        elif inner:
            attrs[name] = Tup([make_obj(P, inner[1], "%s[%d]" % (p, k), overrides, strict) for k in range(2)], "list")
        else:
            attrs[name] = alg.sym(p)
    return Opaque(path, attrs)


def field_names(P, clsname):
    m = P.module(MOD)
    cls = m.classes.get(clsname)
    if cls is None:
        raise AnalysisError("class %s not found" % clsname)
    return [n for n, _, _ in dataclass_fields(cls)]


def field_annotations(P, clsname):
    m = P.module(MOD)
    cls = m.classes.get(clsname)
    if cls is None:
        raise AnalysisError("class %s not found" % clsname)
    return {n: ann_text(a) for n, a, _ in dataclass_fields(cls)}


def field_defaults(P, clsname):
    m = P.module(MOD)
    cls = m.classes.get(clsname)
    return {n: d for n, _, d in dataclass_fields(cls)}


def bind_formals(I, module, fn, args, kwargs):
    """actuals -> {formal: value}; formals not supplied are bound to their
    default expression's abstract value"""
    return I.bind(module, fn, list(args), dict(kwargs))


def run_paths(P, modname, fname, args, kwargs, stubs=None, facts=None, ctx="generic", max_paths=128):
    mod = P.module(modname)
    fn = P.function(modname, fname)

    def make(dec):
        return Interp(P, dec, ctx=ctx, stubs=stubs, facts=facts)

    def entry(it):
        return it.run_function(mod, fn, list(args), dict(kwargs))

    return explore(make, entry, max_paths=max_paths)
