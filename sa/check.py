#!/usr/bin/env python3
"""Static checks of the BLDFM properties.  usage: python3 sa/check.py Cnn [--tier quick|thorough]

exit 0: every obligation of the property discharged on /repo's current source
exit 1: VIOLATION property=<id> replay=<path>
exit 2: ANALYSIS-ERROR (an anchored construct is missing or cannot be interpreted)
"""
import os
import sys
import traceback

sys.path.insert(0, os.path.dirname(os.path.abspath(__file__)))
sys.setrecursionlimit(10000)


def main(argv):
    if len(argv) < 2:
        print(__doc__)
        return 2
    prop = argv[1]
    tier = os.environ.get("VERIF_TIER", "quick")
    if "--tier" in argv:
        tier = argv[argv.index("--tier") + 1]
    from front import Program, AnalysisError
    import interp

    try:
        interp.reset_state()
        P = Program()
        import registry

        fn = registry.CHECKS.get(prop)
        if fn is None:
            print("ANALYSIS-ERROR property=%s: no check registered" % prop)
            return 2
        R, technique = fn(P, tier)
        R.analysed.setdefault("source_digest", P.digest())
        if tier == "thorough" and prop in ("C01", "C02", "C03", "C04", "C05", "C06", "C07", "C10") and not os.environ.get("VERIF_EVIDENCE_DIR"):
            # every rule again on the paths where the requested mode counts exceed the padded grid (x, resp. y only)
            import rules_solver as RS

            seen = {(o.rule, o.site, o.what) for o in R.obs}
            for state in ((True, None), (False, True)):
                RS.DEFAULT_CLAMP = state
                try:
                    R2, _ = fn(P, tier)
                    for o in R2.obs:
                        o.site = "%s [mode clamp %s]" % (o.site, state)
                        R.add(o)
                except AnalysisError as e:
                    from report import req_ob

                    R.add(req_ob("R-PATHS", "clamp outcome %s" % (state,), "rules can be evaluated on the clamped paths", None, detail=str(e)))
                finally:
                    RS.DEFAULT_CLAMP = (False, False)
            # ... and for the other ways the solver can be called where a rule does not fix them: default halo, single
            # precision, one scalar level
            styles = [{"halo": "default"}, {"precision": "single"}]
            if prop in ("C01", "C04", "C05", "C06"):
                # the shape rules of C02, C03, C07 and C10 are written for the array form of `levels`; the scalar form's shapes are C11's R-SHAPE-OUT
                styles.append({"levels_kind": "scalar"})
            for style in styles:
                saved = dict(RS.DEFAULT_STYLE)
                RS.DEFAULT_STYLE.update(style)
                tag = ", ".join("%s=%s" % kv for kv in style.items())
                try:
                    R2, _ = fn(P, tier)
                    for o in R2.obs:
                        o.site = "%s [%s]" % (o.site, tag)
                        R.add(o)
                except AnalysisError as e:
                    from report import req_ob

                    R.add(req_ob("R-PATHS", "call style %s" % tag, "rules can be evaluated for this call style", None, detail=str(e)))
                finally:
                    RS.DEFAULT_STYLE.clear()
                    RS.DEFAULT_STYLE.update(saved)
        if tier == "thorough" and not os.environ.get("VERIF_EVIDENCE_DIR"):
            import selftest
            from report import req_ob

            recs, summ = selftest.run_selftest(prop)
            for r in recs:
                if r.get("skipped"):
                    continue
                what = ("breaking variant %s of the current source makes the check fire" if r["kind"] != "preserve" else "behaviour-preserving variant %s of the current source leaves the check silent") % r["id"]
                R.add(req_ob("R-SELFTEST", "checker self-test on a scratch copy of /repo/src", what, True if r["ok"] else None,
                             detail=None if r["ok"] else "exit code %s, expected %s: %s" % (r["rc"], r["expected"], "; ".join(r["lines"])[:300])))
            R.extra["selftest"] = summ
            R.extra["exhaustive"] = R.extra.get("exhaustive", False)
        return R.finish(technique)
    except AnalysisError as e:
        print("ANALYSIS-ERROR property=%s: %s" % (prop, e))
        return 2
    except Exception:
        traceback.print_exc()
        print("ANALYSIS-ERROR property=%s: internal error of the checker (see traceback)" % prop)
        return 2


if __name__ == "__main__":
    sys.exit(main(sys.argv))
