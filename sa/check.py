#!/usr/bin/env python3
"""Static checks of the BLDFM properties.  usage: python3 sa/check.py Cnn [--tier quick|thorough]

exit 0: every obligation of the property discharged on /repo's current source
exit 1: VIOLATION property=<id> replay=<path>
exit 2: ANALYSIS-ERROR (an anchored construct is missing or cannot be interpreted)
"""
import os
import sys
import traceback

sys.path.insert(0, os.path.dirname(os.path.abspath(__file__)))
sys.setrecursionlimit(10000)


def main(argv):
    if len(argv) < 2:
        print(__doc__)
        return 2
    prop = argv[1]
    tier = os.environ.get("VERIF_TIER", "quick")
    if "--tier" in argv:
        tier = argv[argv.index("--tier") + 1]
    from front import Program, AnalysisError
    import interp

    try:
        interp.reset_state()
        P = Program()
        import registry

        fn = registry.CHECKS.get(prop)
        if fn is None:
            print("ANALYSIS-ERROR property=%s: no check registered" % prop)
            return 2
        R, technique = fn(P, tier)
        R.analysed.setdefault("source_digest", P.digest())
        return R.finish(technique)
    except AnalysisError as e:
        print("ANALYSIS-ERROR property=%s: %s" % (prop, e))
        return 2
    except Exception:
        traceback.print_exc()
        print("ANALYSIS-ERROR property=%s: internal error of the checker (see traceback)" % prop)
        return 2


if __name__ == "__main__":
    sys.exit(main(sys.argv))
