#!/usr/bin/env python3
"""Rewrite the rules table of DESIGN.md (between the RULES-TABLE markers) from the evidence files of the last run."""
import json, os, re
VERIF = os.path.dirname(os.path.dirname(os.path.abspath(__file__)))
rows = []
for i in range(1, 21):
    p = os.path.join(VERIF, "evidence", "C%02d.json" % i)
    d = json.load(open(p))
    c = d["coverage"]
    rules = ", ".join("%s (%d)" % (k, v["obligations"]) for k, v in c["per_rule"].items() if k != "R-SELFTEST")
    n = sum(v["obligations"] for k, v in c["per_rule"].items() if k != "R-SELFTEST")
    rows.append("| C%02d | %s | %d | %s |" % (i, rules, n, d["tier"]))
table = "| id | rules evaluated (obligations) on the current tree | obligations | tier of the last run |\n|---|---|---|---|\n" + "\n".join(rows) + "\n"
path = os.path.join(VERIF, "DESIGN.md")
s = open(path).read()
s = re.sub(r"(<!-- RULES-TABLE-BEGIN -->\n).*?(<!-- RULES-TABLE-END -->)", lambda m: m.group(1) + table + m.group(2), s, flags=re.S)
open(path, "w").write(s)
print(table)
