#!/bin/bash
# usage: mut.sh <file-rel-to-repo> <python-regex-or-literal old> <new> <prop...>   (literal replacement, first occurrence)
f=/repo/$1; old="$2"; new="$3"; shift 3
python3 - "$f" "$old" "$new" <<'PY'
import sys
f,old,new=sys.argv[1:4]
s=open(f).read()
assert old in s, "pattern not found: "+old
open(f,'w').write(s.replace(old,new,1))
PY
[ $? -eq 0 ] || { git -C /repo checkout -- .; exit 9; }
for p in "$@"; do
  out=$(cd /verif && timeout 600 python3 sa/check.py $p 2>&1); rc=$?
  echo "  [$p rc=$rc] $(echo "$out" | grep -E "^  violated|VIOLATION|ANALYSIS-ERROR|uninterpretable" | head -3 | cut -c1-220 | tr '\n' '|')"
done
git -C /repo checkout -- .
