#!/bin/bash
# usage: seedtest.sh <patch-file> <prop...> : apply a seeded patch to /repo, run checks, undo
pf=$1; shift
git -C /repo apply "$pf" || { echo "patch does not apply"; exit 9; }
for p in "$@"; do
  out=$(cd /verif && timeout 900 python3 sa/check.py $p 2>&1); rc=$?
  echo "  [$p rc=$rc] $(echo "$out" | grep -E "^  violated|VIOLATION|ANALYSIS-ERROR|uninterpretable" | head -2 | cut -c1-260 | tr '\n' '|')"
done
git -C /repo checkout -- . ; git -C /repo status --short | head -3
