"""C18: NetCDF export/import keeps every value and every label attached to its data."""

import ast

import alg
from alg import Expr, ZERO, ONE
from front import AnalysisError, dotted_name
from interp import Interp, Opaque, Tup, Arr, SymArr, Unknown, SliceV, explore, has_unknown
from report import Result, Ob, eq_ob, req_ob
import config_model as CM
import props_wiring as pw

TRUST = "xarray/netCDF4 write float64 variables without packing unless an encoding asks for it (S-NUMPY/xarray defaults); zlib compression is lossless"
LOSSLESS_ENCODING = {"zlib", "complevel", "shuffle", "chunksizes", "fletcher32", "contiguous", "compression"}
LOSSY_KEYS = {"scale_factor", "add_offset", "dtype", "_FillValue", "least_significant_digit", "missing_value", "significant_digits", "quantize_mode"}


def _grid_array(name, ndim):
    def getitem(key):
        items = key.items if isinstance(key, Tup) else [key]
        sig = []
        for k in items:
            if isinstance(k, SliceV):
                sig.append(":" if k.is_full() else "slice")
            elif isinstance(k, Expr) and k.as_const() is not None:
                sig.append(str(k.as_const().re))
            else:
                sig.append("?")
        return Opaque("%s[%s]" % (name, ",".join(sig)), {"of": name, "index": tuple(sig)})

    return Opaque(name, {"ndim": alg.const(ndim), "getitem": getitem})


def _results(P, cfg, order, n_time, is3d, z0):
    """results dict keyed by tower name in the given order of config towers"""
    towers = cfg.attrs["towers"].items
    nx, ny, nz = alg.sym("nx", pos=True, integer=True), alg.sym("ny", pos=True, integer=True), alg.sym("nlev", pos=True, integer=True)
    shape = (nz, ny, nx) if is3d else (ny, nx)
    items = []
    for k in order:
        tw = towers[k]
        steps = []
        for t in range(n_time):
            params = [("ustar", alg.sym("ustar_%d" % t)), ("mol", alg.sym("mol_%d" % t)), ("wind_speed", alg.sym("ws_%d" % t)), ("wind_dir", alg.sym("wd_%d" % t))]
            if z0 is True or (z0 == "late" and t >= 1):
                params.append(("z0", alg.sym("z0_%d" % t)))
            elif z0 == "late":
                params.append(("z0", None))  # a series assembled step by step: the first step was forced by ustar alone
            params.append(("timestamp", alg.sym("ts_%d" % t)))
            nd = 3 if is3d else 2
            grid = Tup([_grid_array("X", nd), _grid_array("Y", nd), _grid_array("Z", nd)])
            r = Tup([("grid", grid), ("conc", SymArr("conc_%d_%d" % (k, t), len(shape), shape=shape)), ("flx", SymArr("flx_%d_%d" % (k, t), len(shape), shape=shape)),
                     ("tower_name", tw.attrs["name"]), ("tower_xy", Tup([tw.attrs["x"], tw.attrs["y"]])), ("timestamp", alg.sym("ts_%d" % t)), ("params", Tup(params, "dict"))], "dict")
            steps.append(r)
        items.append((tw.attrs["name"], Tup(steps, "list")))
    return Tup(items, "dict"), shape


class Recorder:
    def __init__(self):
        self.arrays = []
        self.datasets = []

    def stubs(self):
        rec = self

        def zeros(kind):
            def h(I, args, kwargs, node):
                shp = args[0] if args else kwargs.get("shape")
                for d in (shp.items if isinstance(shp, Tup) else [shp]):
                    c = d.as_const() if isinstance(d, Expr) else None
                    if (isinstance(d, Expr) and d.eq(alg.sym("nan"))) or (c is not None and (c.im != 0 or c.re != int(c.re) or c.re < 0)) or isinstance(d, str):
                        import interp as _I
                        raise _I.raise_exc("TypeError", node, "%r is not an array extent" % (d,))
                dt = kwargs.get("dtype")
                if getattr(dt, "kind", None) == "builtin":
                    dt = {"float": "float64", "int": "int64"}.get(dt.dotted, dt.dotted)  # dtype=float, dtype=object, ...
                o = Opaque("alloc@%s" % node.lineno, {"shape": shp, "fill": kind if kind != "full" else (args[1] if len(args) > 1 else None), "dtype": dt, "line": node.lineno})
                rec.arrays.append(o)
                dims = shp.items if isinstance(shp, Tup) else None
                if dims and len(dims) == 2 and isinstance(dims[0], Expr) and dims[0].as_const() is not None and 1 <= dims[0].as_const().re <= 16:
                    # a small block of rows: iterating it (or indexing it with a row number) hands out views of its rows
                    rows = [Opaque("row %d of alloc@%s" % (k, node.lineno), {"row_of": (o, k), "dtype": dt}) for k in range(int(dims[0].as_const().re))]
                    o.attrs["unpack"] = rows

                    def getitem(key, rows=rows):
                        c = key.as_const() if isinstance(key, Expr) else None
                        if c is not None and c.im == 0 and 0 <= c.re < len(rows):
                            return rows[int(c.re)]
                        return Unknown("item %r of a block of rows" % (key,))
                    o.attrs["getitem"] = getitem
                return o
            return h

        def zeros_like(kind):
            def h(I, args, kwargs, node):
                a = args[0] if args else None
                if isinstance(a, Opaque) and "shape" in a.attrs:
                    shp, dt = a.attrs["shape"], a.attrs.get("dtype")
                elif isinstance(a, Arr) and a.shape is not None:
                    shp, dt = Tup(list(a.shape)), Opaque("the dtype of %s" % (a.name or "a result field"))  # inherited: whatever precision that array has
                else:
                    return Unknown("np.%s_like of %r" % (kind, a))
                if kwargs.get("shape") is not None:
                    shp = kwargs["shape"]
                if kwargs.get("dtype") is not None:
                    dt = kwargs["dtype"]
                o = Opaque("alloc@%s" % node.lineno, {"shape": shp, "fill": kind, "dtype": dt, "line": node.lineno})
                rec.arrays.append(o)
                return o
            return h

        def dataset(I, args, kwargs, node):
            o = Opaque("dataset", {"data_vars": args[0] if args else kwargs.get("data_vars"), "coords": kwargs.get("coords"), "attrs_": kwargs.get("attrs")})
            rec.datasets.append(o)
            return o

        def path(I, args, kwargs, node):
            return Opaque("Path", {"arg": args[0] if args else None})

        def strof(I, args, kwargs, node):
            return args[0] if isinstance(args[0], str) else Opaque("str", {"of": args[0]})

        def unique(I, args, kwargs, node):
            a = args[0] if args else None
            if isinstance(a, Opaque) and "getitem" in a.attrs and not kwargs and len(args) == 1:
                return Opaque("unique(%s)" % a.name, {"of": a.name, "index": ("sorted distinct values",)})
            return Unknown("np.unique")

        return {"str": strof, "numpy.unique": unique, "numpy.zeros": zeros("zeros"), "numpy.zeros_like": zeros_like("zeros"), "numpy.empty_like": zeros_like("empty"), "numpy.ones_like": zeros_like("ones"), "numpy.empty": zeros("empty"), "numpy.ones": zeros("ones"), "numpy.full": zeros("full"),
                "xarray.Dataset": dataset, "pathlib.Path": path}


def io_obligations(P):
    obs = []
    site = "src/bldfm/io.py::save_footprints_to_netcdf"
    for is3d, z0, order, n_time in [(a, b, [1, 0], 2) for a in (False, True) for b in (False, True)] + [(False, False, [1], 2), (True, True, [1], 2), (False, "late", [1, 0], 2), (False, True, [0, 1], 1)]:
        if True:
            cfg = CM.make_obj(P, "BLDFMConfig", "config", {})
            # results keyed in another order than config.towers; and a result set for one tower only (not the first configured)
            results, shape = _results(P, cfg, order, n_time, is3d, z0)
            rec = Recorder()
            fp = alg.sym("filepath")
            res = CM.run_paths(P, "bldfm.io", "save_footprints_to_netcdf", [results, cfg, fp], {}, stubs=rec.stubs())
            rets = [r for r in res if r.kind == "return"]
            tag = "(%s, %s%s%s)" % ("3-D" if is3d else "2-D", "z0 forcing from the second step on" if z0 == "late" else "z0 forcing" if z0 else "ustar forcing", "" if len(order) > 1 else ", one tower", "" if n_time > 1 else ", one step")
            if res and not rets and all(r.kind == "raise" for r in res):
                obs.append(req_ob("R-NC-PLACE", site, "the export of a complete result set returns %s" % tag, False, detail="every path raises: " + str([r.raise_desc for r in res])[:300]))
                continue
            if not rets:
                obs.append(req_ob("R-NC-PLACE", site, "export is interpretable %s" % tag, None, detail=str([(r.kind, r.raise_desc) for r in res])[:300]))
                continue
            towers = cfg.attrs["towers"].items
            wrote_z0 = False
            for r in rets:
                n_before = len(obs)
                # `if not np.all(np.isnan(z0_data))` is a test on recorded storage: both outcomes are examined (R-NC-FIELDS), neither is a guess
                guessed = [d for d, _ in r.path if d.startswith("unknown test") and "numpy.all" not in d and "np.all" not in d]
                stores = [e[2] for e in r.events if e[0] == "item-store"]
                dsets = [c for c in r.calls if c[0] == "xarray.Dataset"]
                if len(dsets) != 1:
                    obs.append(req_ob("R-NC-PLACE", site, "one dataset is built %s" % tag, False, detail="%d" % len(dsets)))
                    continue
                dv = dsets[0][1][0] if dsets[0][1] else dsets[0][2].get("data_vars")
                coords = dsets[0][2].get("coords")
                if not (isinstance(dv, Tup) and dv.kind == "dict" and isinstance(coords, Tup) and coords.kind == "dict"):
                    obs.append(req_ob("R-NC-PLACE", site, "data variables and coordinates are given as mappings %s" % tag, None))
                    continue
                dvd = {k: v for k, v in dv.items if isinstance(k, str)}
                cd = {k: v for k, v in coords.items if isinstance(k, str)}
                later = {e[1]: e[2] for e in stores if isinstance(e[0], str) and e[0] == "ds" or (isinstance(e, tuple) and len(e) == 3 and e[0] == "ds")}
                # ---- placement
                want_dims = ["time", "tower"] + (["z"] if is3d else []) + ["y", "x"]
                for var, fld in (("footprint", "flx"), ("concentration", "conc")):
                    ent = dvd.get(var)
                    ok = isinstance(ent, Tup) and len(ent.items) >= 2
                    if not ok:
                        obs.append(req_ob("R-NC-PLACE", site, "variable %s is written %s" % (var, tag), False))
                        continue
                    dims, data = ent.items[0], ent.items[1]
                    okd = isinstance(dims, Tup) and [d for d in dims.items] == want_dims
                    obs.append(req_ob("R-NC-PLACE", site, "%s has dimensions %s %s" % (var, want_dims, tag), okd, detail=repr(dims)[:120], key={"var": var}))
                    shp = data.attrs.get("shape") if isinstance(data, Opaque) else None
                    want_shape = [alg.const(n_time), alg.const(len(order))] + list(shape)
                    oks = isinstance(shp, Tup) and len(shp.items) == len(want_shape) and all(isinstance(a, Expr) and a.eq(b) for a, b in zip(shp.items, want_shape))
                    obs.append(req_ob("R-NC-PLACE", site, "%s is allocated as (time, tower%s, y, x) %s" % (var, ", z" if is3d else "", tag), oks, detail=repr(shp)[:160], key={"var": var}))
                    okt = isinstance(data, Opaque) and data.attrs.get("dtype") in (None, "float64", "float") or (isinstance(data, Opaque) and isinstance(data.attrs.get("dtype"), type(None)))
                    obs.append(req_ob("R-NC-LOSSLESS", site, "%s is stored in a float64 container %s" % (var, tag), bool(okt), detail=repr(data.attrs.get("dtype") if isinstance(data, Opaque) else data)))
                    mine = [e for e in stores if e[0] == "%s_data" % fld or (isinstance(data, Opaque) and False)]
                    # stores into this array: by allocation identity
                    arr_stores = []
                    for e in r.events:
                        if e[0] == "item-store":
                            nm, idx, val = e[2][:3]
                            arr_stores.append((nm, idx, val))
                    placed = {}
                    for nm, idx, val in arr_stores:
                        items = idx.items if isinstance(idx, Tup) else [idx]
                        if len(items) == 2 and all(isinstance(i, Expr) and i.as_const() is not None for i in items) and isinstance(val, SymArr) and val.name.startswith(fld + "_"):
                            placed[(int(items[0].as_const().re), int(items[1].as_const().re))] = val.name
                    for ti, k in enumerate(order):
                        for t in range(n_time):
                            got = placed.get((t, ti))
                            obs.append(req_ob("R-NC-PLACE", site, "%s[time %d, tower slot %d] is that tower's %s field of that step %s" % (var, t, ti, fld, tag), got == "%s_%d_%d" % (fld, k, t),
                                              detail="holds %s" % got, key={"var": var}))
                tw_ = [e for e in r.events if e[0] == "module-table-write"]
                obs.append(req_ob("R-NC-PLACE", site, "the export leaves module-level tables as it found them (a second export in the same process writes the same file) %s" % tag, not tw_,
                                  detail="; ".join("line %s: %s" % (e[1], e[2]) for e in tw_[:1]) or None, key={"clause": "tables"}))
                # ---- labels
                tw = cd.get("tower")
                names = tw.items[1] if isinstance(tw, Tup) and len(tw.items) >= 2 else None
                okn = isinstance(names, Tup) and len(names.items) == len(order) and all(pw.same_value(n, towers[k].attrs["name"]) for n, k in zip(names.items, order))
                obs.append(req_ob("R-NC-LABELS", site, "the tower coordinate lists the names in the order of the data slots %s" % tag, okn, detail=repr(names)[:160]))
                for var, attr in (("tower_lat", "lat"), ("tower_lon", "lon"), ("tower_z", "z_m")):
                    ent = dvd.get(var)
                    vals = ent.items[1] if isinstance(ent, Tup) and len(ent.items) >= 2 else None
                    ok = isinstance(vals, Tup) and len(vals.items) == len(order) and all(pw.same_value(v, towers[k].attrs[attr]) for v, k in zip(vals.items, order))
                    obs.append(req_ob("R-NC-LABELS", site, "%s slot k belongs to the tower named in tower slot k %s" % (var, tag), ok, detail=repr(vals)[:160], key={"var": var}))
                tm = cd.get("time")
                tvals = tm.items[1] if isinstance(tm, Tup) and len(tm.items) >= 2 else None
                if isinstance(tvals, Opaque) and "shape" in tvals.attrs:
                    # the labels collected in a pre-allocated array: its element type must hold any string (object), a fixed-width
                    # string type clips longer labels; the entries are what was stored at each step's own index
                    dt = tvals.attrs.get("dtype")
                    okdt = dt in ("object", "O") or (isinstance(dt, Opaque) and dt.name in ("object",))
                    fixed = isinstance(dt, str) and (dt[:1] in ("U", "S") or dt[:2] in ("<U", ">U", "|S") or dt in ("str", "bytes"))
                    obs.append(req_ob("R-NC-LABELS", site, "the time labels are collected in a container that holds strings of any length %s" % tag, True if okdt else False if fixed else None,
                                      detail=None if okdt else "dtype %r%s" % (dt, ": labels longer than the fixed width are clipped" if fixed else "")))
                    names_of = [k for k, v in r.env.items() if v is tvals]
                    got = []
                    for t in range(n_time):
                        cand = [val for nm, idx, val in arr_stores if nm in names_of and isinstance(idx, Expr) and idx.eq(alg.const(t))]
                        got.append(cand[-1] if cand else Unknown("no label stored at index %d" % t))
                    tvals = Tup(got, "list")
                obs.append(req_ob("R-NC-LABELS", site, "one time label per step, in step order %s" % tag, isinstance(tvals, Tup) and len(tvals.items) == n_time))
                if isinstance(tvals, Tup) and len(tvals.items) == n_time:
                    for t, lab in enumerate(tvals.items):
                        of = lab.attrs.get("of") if isinstance(lab, Opaque) and lab.name == "str" else lab
                        okl = isinstance(of, Expr) and of.eq(alg.sym("ts_%d" % t))
                        obs.append(req_ob("R-NC-LABELS", site, "the label of step %d is that step's own timestamp, whatever its value %s" % (t, tag), okl if (okl or isinstance(of, Expr)) else None,
                                          detail=None if okl else "label is %s on the path %s" % (repr(of)[:80], "; ".join("%s=%s" % (d, b) for d, b in r.path)[:160]), key={"step": t}))
                # ---- coordinates invert the solver's meshgrid convention
                want = {"x": ("X", ("0", ":") if not is3d else ("0", "0", ":")), "y": ("Y", (":", "0") if not is3d else ("0", ":", "0"))}
                if is3d:
                    want["z"] = ("Z", (":", "0", "0"))
                for cname, (gname, index) in want.items():
                    ent = cd.get(cname)
                    val = ent.items[1] if isinstance(ent, Tup) and len(ent.items) >= 2 else None
                    ok = isinstance(val, Opaque) and val.attrs.get("of") == gname and val.attrs.get("index") == index
                    if not ok and isinstance(val, Opaque) and val.attrs.get("index") == ("sorted distinct values",) and cname in ("x", "y"):
                        ok = None  # equal to the axis only because the solver's horizontal axes ascend strictly: not decided here (the levels carry no such order)
                    obs.append(req_ob("R-NC-COORD", site, "coordinate %s is %s[%s] %s" % (cname, gname, ",".join(index), tag), ok, detail=repr(val)[:120], key={"coord": cname}))
                # ---- per-step met values
                met = {"ustar": "ustar", "mol": "mol", "wind_speed": "ws", "wind_dir": "wd"}
                obj_stores = [(e[2][3] if len(e[2]) > 3 else None, e[2][1], e[2][2]) for e in r.events if e[0] == "item-store"]

                def written_at(container, t):
                    """what the container handed to the dataset holds at time index t: the last value stored there, through the
                    container itself, through a row view of a block, or through the block at (row, t)"""
                    out = None
                    if isinstance(container, Arr) and container.meta.get("elements") is not None and t < len(container.meta["elements"]):
                        return container.meta["elements"][t]  # an array made from the list of the per-step values
                    for ob, idx, val in obj_stores:
                        if ob is container and isinstance(idx, Expr) and idx.eq(alg.const(t)):
                            out = val
                        row = container.attrs.get("row_of") if isinstance(container, Opaque) else None
                        if row is not None and ob is row[0] and isinstance(idx, Tup) and len(idx.items) == 2 and all(isinstance(i, Expr) for i in idx.items) and idx.items[0].eq(alg.const(row[1])) and idx.items[1].eq(alg.const(t)):
                            out = val
                    return out

                for var, pre in met.items():
                    ent = dvd.get(var)
                    data = ent.items[1] if isinstance(ent, Tup) and len(ent.items) >= 2 else None
                    if isinstance(data, Opaque) and ("shape" in data.attrs or "row_of" in data.attrs):
                        got = [written_at(data, t) for t in range(n_time)]
                        ok = all(isinstance(g, Expr) and g.eq(alg.sym("%s_%d" % (pre, t))) for t, g in enumerate(got))
                        if not ok and any(g is not None and has_unknown(g) for g in got):
                            ok = None  # (an index that was never written holds the fill value: a definite different content)
                        det = None if ok else "the array written as %s holds %s" % (var, [repr(g)[:30] for g in got])
                    else:
                        ok, det = None, "the data of variable %s is %r" % (var, data)
                    obs.append(req_ob("R-NC-FIELDS", site, "the array written as variable %s holds, at every time index, that step's own %s %s" % (var, var, tag), ok, detail=det, key={"var": var}))
                    okd = isinstance(ent, Tup) and isinstance(ent.items[0], Tup) and ent.items[0].items == ["time"]
                    obs.append(req_ob("R-NC-FIELDS", site, "%s is a variable over time %s" % (var, tag), okd))
                if z0:
                    dsz = [e for e in r.events if e[0] == "item-store" and e[2][1] == "z0"]
                    okz = False
                    for e in dsz:
                        ent = e[2][2]
                        data = ent.items[1] if isinstance(ent, Tup) and len(ent.items) >= 2 else None
                        if isinstance(data, (Opaque, Arr)):
                            got = [written_at(data, t) for t in range(n_time)]
                            steps = [t for t in range(n_time) if z0 is True or t >= 1]
                            okz = okz or all(isinstance(got[t], Expr) and got[t].eq(alg.sym("z0_%d" % t)) for t in steps)
                    wrote_z0 = wrote_z0 or okz
                # ---- encoding
                tn = [e for e in r.events if e[0] == "opaque-call" and e[2][1] == "to_netcdf"]
                okw = len(tn) == 1 and tn[0][2][2] and tn[0][2][2][0] is fp or (len(tn) == 1 and isinstance(tn[0][2][2][0], Opaque) and tn[0][2][2][0].attrs.get("arg") is fp)
                obs.append(req_ob("R-NC-LOSSLESS", site, "the dataset is written once to the requested path %s" % tag, bool(okw)))
                if len(tn) == 1:
                    enc = tn[0][2][3].get("encoding")
                    bad = []
                    if isinstance(enc, Tup) and enc.kind == "dict":
                        for vname, e in enc.items:
                            if isinstance(e, Tup) and e.kind == "dict":
                                for k, v in e.items:
                                    if k == "_FillValue" and (v is None or (isinstance(v, Expr) and v.eq(alg.sym("nan")))):
                                        continue  # no fill value, or NaN (what the writer uses for floats anyway): no number is lost
                                    if k not in LOSSLESS_ENCODING:
                                        bad.append("%s.%s%s" % (vname, k, "=%r (every cell holding exactly this number reads back as missing)" % (v,) if k == "_FillValue" and isinstance(v, Expr) else ""))
                            else:
                                bad.append("%s=?" % vname)
                    elif enc is not None:
                        bad.append("encoding not a literal mapping")
                    obs.append(req_ob("R-NC-LOSSLESS", site, "every encoding key is lossless (no packing, fill values or digit truncation) %s" % tag, not bad, detail="; ".join(bad) or None))
                for vname, ent in dvd.items():
                    if isinstance(ent, Tup) and len(ent.items) >= 3 and isinstance(ent.items[2], Tup) and ent.items[2].kind == "dict":
                        badk = [k for k, _ in ent.items[2].items if k in LOSSY_KEYS]
                        if badk:
                            obs.append(req_ob("R-NC-LOSSLESS", site, "variable %s carries no packing attributes" % vname, False, detail=str(badk)))
                if guessed:
                    # this path rests on a branch the interpreter could only guess (a test on a value it did not model): what
                    # fails on it is a gap of the analysis, not a verdict
                    for o in obs[n_before:]:
                        if o.verdict == "differs":
                            o.verdict = "uninterpretable"
                            o.detail = "on a path that rests on a guessed branch (%s): %s" % (guessed[0][:80], o.detail)
            if z0:
                obs.append(req_ob("R-NC-FIELDS", site, "a roughness length that some step carries is written at that step %s" % tag, wrote_z0, key={"var": "z0"}))
    # load: interpreted with a recording xarray
    m = P.module("bldfm.io")
    fn = m.functions.get("load_footprints_from_netcdf")
    site = "src/bldfm/io.py::load_footprints_from_netcdf"
    if fn is None:
        obs.append(req_ob("R-NC-LOAD", site, "loader exists", None))
    else:
        opened = []

        def open_ds(I, args, kwargs, node):
            o = Opaque("opened-dataset", {"args": list(args), "kwargs": dict(kwargs)})
            opened.append(o)
            return o

        def same(I, args, kwargs, node):
            return I.cur_callee.bound  # .load() / .compute() / .persist() return the same data

        fp = alg.sym("filepath")
        stubs = {"xarray.open_dataset": open_ds, "xarray.load_dataset": open_ds, "pathlib.Path": lambda I, a, k, n: Opaque("Path", {"arg": a[0] if a else None}),
                 "opened-dataset.load": same, "opened-dataset.compute": same, "opened-dataset.persist": same,
                 "opened-dataset.__enter__": same, "opened-dataset.close": lambda I, a, k, n: None}
        try:
            res = CM.run_paths(P, "bldfm.io", "load_footprints_from_netcdf", [fp], {}, stubs=stubs)
        except AnalysisError as e:
            res = None
            obs.append(req_ob("R-NC-LOAD", site, "the loader is interpretable", None, detail=str(e)))
        if res is not None:
            rets = [r for r in res if r.kind == "return"]
            others = [r for r in res if r.kind != "return" and not (r.kind == "raise" and "FileNotFoundError" in (r.raise_desc or ""))]
            ok = bool(rets) and not others and len(opened) >= 1
            decode = [k for o in opened for k in o.attrs["kwargs"] if k in ("mask_and_scale", "decode_cf", "decode_times", "drop_variables", "decode_coords", "use_cftime")]
            okr = bool(rets) and all(any(r.value is o for o in opened) for r in rets)
            obs.append(req_ob("R-NC-LOAD", site, "the file is opened with default decoding and returned as opened", ok and okr and not decode,
                              detail=None if ok and okr and not decode else "paths %s; decoding options %s; returns %s" % ([(r.kind, r.raise_desc) for r in res][:3], decode, [repr(r.value)[:60] for r in rets][:2])))
    return obs


def check_C18(P, tier):
    R = Result("C18", tier)
    R.min_obligations = 100
    R.explanation = ("save_footprints_to_netcdf is interpreted abstractly on a 2-tower x 2-step result set whose tower order differs from config.towers, in 2-D and 3-D and "
                     "with ustar or z0 forcing, with allocations and the Dataset constructor replaced by recording stubs: (R-NC-PLACE) allocation shape, dims list and "
                     "the [time, tower] slot of every field agree with the (tower, step) it came from; (R-NC-LABELS) tower names, latitude, longitude and height are "
                     "ordered by the same sequence as the data slots; (R-NC-COORD) x, y, z are extracted along the axes on which the solver's meshgrid varies them; "
                     "(R-NC-FIELDS) every per-step met value including a configured z0 is written at its own time index; (R-NC-LOSSLESS) float64 containers, only "
                     "lossless encoding keys, no packing attributes, one write to the requested path; (R-NC-LOAD) the loader returns the dataset as opened. The bit "
                     "fidelity of the NetCDF/HDF5 stack itself is trusted, not decided.")
    R.trusted = [TRUST]
    R.add(io_obligations(P))
    R.analysed = {"files": ["src/bldfm/io.py"], "functions": ["save_footprints_to_netcdf", "load_footprints_from_netcdf"], "paths": 8}
    return R, "positional agreement of allocation/dims/stores, label provenance, lossless-encoding table"
