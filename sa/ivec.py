"""Piecewise-affine integer index vectors (a small abstract domain for FFT index arithmetic).

An IVec is a concatenation of runs (length, start) of consecutive integers with symbolic length and start.  It models
what np.arange, slices of np.r_, +/- a scalar, fftshift / ifftshift / np.roll of an index vector, np.where on a
threshold, % N and slice-wise in-place updates produce.  Equality of two index vectors (modulo the length N of the
axis they index) is decided exactly by a case split over the parities of the integers that occur under `// 2`.

Used to recognise the retained-mode gather / scatter of a truncated Fourier series when it is written with index
vectors instead of fftshift -> slice / pad -> ifftshift."""

from fractions import Fraction as Q
from itertools import product

import alg
from alg import Expr, ZERO, ONE


class IVec:
    def __init__(self, segs):
        self.segs = [(l, s) for l, s in segs]

    def __repr__(self):
        return "IVec(%s)" % ", ".join("%r@%r" % (l, s) for l, s in self.segs)

    def length(self):
        t = ZERO
        for l, _ in self.segs:
            t = t + l
        return t

    def shift(self, c):
        return IVec([(l, s + c) for l, s in self.segs])

    def concat(self, other):
        return IVec(self.segs + other.segs)

    def split(self, k):
        """(first k entries, the rest) or None when the position cannot be located"""
        k = alg.as_expr(k)
        pos = ZERO
        for i, (l, s) in enumerate(self.segs):
            if pos.eq(k):
                return IVec(self.segs[:i]), IVec(self.segs[i:])
            pos = pos + l
        if pos.eq(k):
            return IVec(self.segs), IVec([])
        if len(self.segs) == 1:
            l, s = self.segs[0]
            return IVec([(k, s)]), IVec([(l - k, s + k)])
        # inside the last / first run when everything before is located
        pos = ZERO
        for i, (l, s) in enumerate(self.segs):
            inside = k - pos
            if i == len(self.segs) - 1:
                return IVec(self.segs[:i] + [(inside, s)]), IVec([(l - inside, s + inside)])
            pos = pos + l
        return None

    def roll_left(self, k):
        sp = self.split(k)
        if sp is None:
            return None
        a, b = sp
        return b.concat(a)


def arange(n, start=ZERO):
    return IVec([(alg.as_expr(n), alg.as_expr(start))])


def trunc_map(n, N):
    """indices of the n retained modes of a length-N spectrum in standard FFT order: the n - n//2 non-negative
    wavenumbers in front, the n//2 negative ones at the back"""
    h = alg.fn("floordiv", n, alg.const(2), integer=True)
    return IVec([(n - h, ZERO), (h, N - h)])


# ---------------------------------------------------------------- parity case analysis


def _floordiv_atoms(e, acc):
    for a in e.atoms():
        if a.kind == "fn" and a.name == "floordiv" and len(a.args) == 2 and isinstance(a.args[1], Expr) and a.args[1].eq(alg.const(2)):
            acc.add(a)


def _parity_syms(exprs):
    """atoms that occur inside the numerator of some `// 2`"""
    fd = set()
    for e in exprs:
        _floordiv_atoms(e, fd)
    syms = set()
    for a in fd:
        num = a.args[0].expand()  # definitions (nxe = nx + 2 px) opened: parities are those of the integers they are built from
        inner = set()
        _floordiv_atoms(num, inner)
        if inner - fd:
            _, more = _parity_syms([num])
            syms |= more
        for b in num.top_atoms():
            if b.kind == "fn" and b.name == "floordiv":
                continue
            syms.add(b)
    return fd, syms


def _resolve(e, assign, half):
    """e with every parity symbol x replaced by 2*h_x (+1) and every `// 2` of an integer-affine form evaluated; None
    when some numerator is not such a form"""
    e = e.expand()
    sub = {}
    fd = set()
    _floordiv_atoms(e, fd)
    for a in fd:
        num = _resolve(a.args[0], assign, half)
        if num is None:
            return None
        num = num.expand()
        out = ZERO
        for mono, c in num.n.items():
            if c.im != 0 or c.re.denominator != 1:
                return None
            if len(mono) == 0:
                out = out + alg.const(c.re.numerator // 2)
                continue
            if c.re.numerator % 2 != 0:
                return None
            term = alg.const(Q(c.re.numerator // 2))
            for b, p in mono:
                term = term * alg.power(alg.atom_expr(b), p)
            out = out + term
        sub[a] = out
    if sub:
        e = e.subs(sub)
    s2 = {}
    for x, odd in assign.items():
        s2[x] = 2 * alg.atom_expr(half[x]) + (ONE if odd else ZERO)
    return e.subs(s2).expand() if s2 else e


def _canon(segs, N):
    out = []
    for l, s in segs:
        l, s = l.expand(), s.expand()
        if l.is_zero():
            continue
        if N is not None and alg._lead_negative(s):
            end = (s + l).expand()
            if end.is_zero() or alg._lead_negative(end):
                s = (s + N).expand()  # a run of negative indices counts from the end of the axis
        if out:
            pl, ps = out[-1]
            if (ps + pl).eq(s):
                out[-1] = ((pl + l).expand(), ps)
                continue
        out.append((l, s))
    return out


def compare(I, a, b, N):
    """are the index vectors a and b equal (as indices into an axis of length N) for every parity of the integers under
    `// 2` that the path's facts allow?  -> (True, None) | (False, description of a case in which they differ) |
    (None, reason)"""
    if N is None:
        N = ZERO  # scalars: nothing is taken modulo the axis length
        no_mod = True
    else:
        no_mod = False
    exprs = [x for l, s in a.segs + b.segs for x in (l, s)] + [N]
    fd, syms = _parity_syms(exprs)
    syms = sorted(syms, key=repr)
    if len(syms) > 5:
        return None, "too many integers under // 2"
    half = {x: alg.sym_atom("half(%s)" % (x.name if x.kind == "sym" else repr(alg.atom_expr(x))[:30]), integer=True) for x in syms}
    choices = []
    for x in syms:
        xe = alg.atom_expr(x)
        if I is not None and I.facts.is_even(xe):
            choices.append([False])
        else:
            choices.append([False, True])
    differ = None
    for combo in product(*choices):
        assign = dict(zip(syms, combo))
        ra, rb = [], []
        ok = True
        for src, dst in ((a.segs, ra), (b.segs, rb)):
            for l, s in src:
                l2, s2 = _resolve(l, assign, half), _resolve(s, assign, half)
                if l2 is None or s2 is None:
                    ok = False
                    break
                dst.append((l2, s2))
        N2 = _resolve(N, assign, half) if ok else None
        if not ok or N2 is None:
            return None, "an index expression is not an integer-affine form"
        ca, cb = _canon(ra, None if no_mod else N2), _canon(rb, None if no_mod else N2)
        same = len(ca) == len(cb) and all(x[0].eq(y[0]) and x[1].eq(y[1]) for x, y in zip(ca, cb))
        if not same:
            case = ", ".join("%s %s" % (x.name if x.kind == "sym" else repr(alg.atom_expr(x)), "odd" if odd else "even") for x, odd in assign.items()) or "all cases"
            differ = "for %s the index vector is %s, the retained modes are %s" % (case, ca, cb)
            break
    if differ is not None:
        return False, differ
    return True, None


def simp_floor2(I, e):
    """rewrite x // 2 inside e when the path's facts fix the parity of x up to its constant term"""
    e = e.expand()
    fd = set()
    _floordiv_atoms(e, fd)
    sub = {}
    for a in fd:
        num = simp_floor2(I, a.args[0])
        c0 = ZERO
        for mono, c in num.n.items():
            if len(mono) == 0 and c.im == 0 and c.re.denominator == 1:
                c0 = alg.const(c.re)
        rest = (num - c0).expand()
        if I.facts.is_even(rest):
            sub[a] = rest / 2 + alg.const(c0.as_const().re.numerator // 2 if c0.as_const() is not None else 0)
    return e.subs(sub).expand() if sub else e


def as_simple(I, e):
    """e rewritten without `// 2` when it equals, for every parity the facts allow, one of the integers it is built
    from (e.g. (n + 1) // 2 + n // 2 == n)"""
    e1 = simp_floor2(I, e)
    fd, syms = _parity_syms([e1])
    if not fd:
        return e1
    syms = sorted(syms, key=repr)
    if len(syms) > 4:
        return e1
    half = {x: alg.sym_atom("half(%s)" % (x.name if x.kind == "sym" else repr(alg.atom_expr(x))[:30]), integer=True) for x in syms}
    choices = [[False] if I.facts.is_even(alg.atom_expr(x)) else [False, True] for x in syms]
    cands = list(syms)
    for a in fd:
        for b in a.args[0].top_atoms():  # also the unopened definitions the expression is written in
            if b not in cands and not (b.kind == "fn" and b.name == "floordiv"):
                cands.append(b)
    for cand in cands:
        ce = alg.atom_expr(cand)
        ok = True
        for combo in product(*choices):
            assign = dict(zip(syms, combo))
            a, b = _resolve(e1, assign, half), _resolve(ce, assign, half)
            if a is None or b is None or not a.eq(b):
                ok = False
                break
        if ok:
            return ce
    return e1


def scalar_equal(I, a, b):
    """a == b for every parity the facts allow -> (True, None) | (False, case) | (None, reason)"""
    r = compare(I, IVec([(ONE, alg.as_expr(a))]), IVec([(ONE, alg.as_expr(b))]), None)
    return r
