"""E0 front-end: parse the package, symbol tables, import/alias resolution.

Pure function of the source text under <repo>/src/bldfm (plus, for call-site
corpora, examples/ runs/ tests/).  Nothing is imported or executed.
"""

import ast
import os
import hashlib

REPO = os.environ.get("BLDFM_REPO", "/repo")
PKG = "bldfm"


class AnalysisError(Exception):
    """An anchored construct could not be found or interpreted (exit 2)."""


class Module:
    def __init__(self, name, path, src):
        self.name = name
        self.path = path
        self.src = src
        self.tree = ast.parse(src, filename=path)
        self.imports = {}  # local alias -> dotted target
        self.functions = {}  # name -> FunctionDef (top level)
        self.classes = {}  # name -> ClassDef
        self.assigns = {}  # name -> value node (module level, last one wins)
        self._index()

    def _index(self):
        pkg_parts = self.name.split(".")
        is_pkg = self.path.endswith("__init__.py")
        for node in self.tree.body:
            self._index_stmt(node, pkg_parts, is_pkg)

    def _resolve_from(self, node, pkg_parts, is_pkg):
        if node.level == 0:
            return node.module or ""
        base = pkg_parts if is_pkg else pkg_parts[:-1]
        if node.level > 1:
            base = base[: len(base) - (node.level - 1)]
        return ".".join(base + ([node.module] if node.module else []))

    def _index_stmt(self, node, pkg_parts, is_pkg):
        if isinstance(node, ast.Import):
            for a in node.names:
                self.imports[a.asname or a.name.split(".")[0]] = a.name if a.asname else a.name.split(".")[0]
        elif isinstance(node, ast.ImportFrom):
            base = self._resolve_from(node, pkg_parts, is_pkg)
            for a in node.names:
                self.imports[a.asname or a.name] = (base + "." + a.name) if base else a.name
        elif isinstance(node, (ast.FunctionDef, ast.AsyncFunctionDef)):
            self.functions[node.name] = node
        elif isinstance(node, ast.ClassDef):
            self.classes[node.name] = node
        elif isinstance(node, ast.Assign):
            for t in node.targets:
                if isinstance(t, ast.Name):
                    self.assigns[t.id] = node.value
        elif isinstance(node, ast.AnnAssign) and isinstance(node.target, ast.Name) and node.value is not None:
            self.assigns[node.target.id] = node.value

    def local_imports(self, fn):
        """imports executed inside a function body (alias -> dotted)"""
        out = {}
        pkg_parts = self.name.split(".")
        is_pkg = self.path.endswith("__init__.py")
        for node in ast.walk(fn):
            if isinstance(node, ast.Import):
                for a in node.names:
                    out[a.asname or a.name.split(".")[0]] = a.name if a.asname else a.name.split(".")[0]
            elif isinstance(node, ast.ImportFrom):
                base = self._resolve_from(node, pkg_parts, is_pkg)
                for a in node.names:
                    out[a.asname or a.name] = (base + "." + a.name) if base else a.name
        return out

    def segment(self, node):
        """source text of a node (cached line table; offsets are UTF-8 bytes)"""
        lines = getattr(self, "_lines", None)
        if lines is None:
            lines = self._lines = [ln.encode("utf-8") for ln in self.src.splitlines(keepends=True)]
        try:
            l0, l1 = node.lineno - 1, node.end_lineno - 1
            c0, c1 = node.col_offset, node.end_col_offset
        except AttributeError:
            return ""
        if l0 == l1:
            return lines[l0][c0:c1].decode("utf-8")
        parts = [lines[l0][c0:]] + lines[l0 + 1: l1] + [lines[l1][:c1]]
        return b"".join(parts).decode("utf-8")


class Program:
    def __init__(self, repo=None):
        self.repo = repo or REPO
        self.modules = {}
        self.files = []
        root = os.path.join(self.repo, "src", PKG)
        if not os.path.isdir(root):
            raise AnalysisError("package directory missing: %s" % root)
        for dirpath, dirnames, filenames in os.walk(root):
            dirnames.sort()
            for fnm in sorted(filenames):
                if not fnm.endswith(".py"):
                    continue
                path = os.path.join(dirpath, fnm)
                rel = os.path.relpath(path, os.path.join(self.repo, "src"))
                parts = rel[:-3].split(os.sep)
                if parts[-1] == "__init__":
                    parts = parts[:-1]
                name = ".".join(parts)
                with open(path, encoding="utf-8") as f:
                    src = f.read()
                try:
                    self.modules[name] = Module(name, path, src)
                except SyntaxError as e:
                    raise AnalysisError("cannot parse %s: %s" % (path, e))
                self.files.append(os.path.relpath(path, self.repo))

    def digest(self):
        h = hashlib.sha256()
        for name in sorted(self.modules):
            h.update(name.encode())
            h.update(self.modules[name].src.encode())
        return h.hexdigest()[:16]

    def module(self, name):
        m = self.modules.get(name)
        if m is None:
            raise AnalysisError("module %s not found" % name)
        return m

    def function(self, modname, fname):
        m = self.module(modname)
        if "." in fname:
            cname, meth = fname.split(".", 1)
            c = m.classes.get(cname)
            if c is None:
                raise AnalysisError("class %s.%s not found" % (modname, cname))
            for n in c.body:
                if isinstance(n, (ast.FunctionDef,)) and n.name == meth:
                    return n
            raise AnalysisError("method %s.%s not found" % (modname, fname))
        f = m.functions.get(fname)
        if f is None:
            raise AnalysisError("function %s.%s not found" % (modname, fname))
        return f

    def resolve(self, modname, dotted):
        """Resolve a dotted name seen in module `modname` to
        ('func', module, FunctionDef) | ('class', module, ClassDef) |
        ('module', name) | ('const', module, node) | ('ext', dotted)."""
        seen = 0
        while True:
            seen += 1
            if seen > 10:
                return ("ext", dotted)
            parts = dotted.split(".")
            # longest module prefix inside the package
            for k in range(len(parts), 0, -1):
                mn = ".".join(parts[:k])
                if mn in self.modules:
                    m = self.modules[mn]
                    rest = parts[k:]
                    if not rest:
                        return ("module", mn)
                    head = rest[0]
                    if head in m.functions and len(rest) == 1:
                        return ("func", m, m.functions[head])
                    if head in m.classes:
                        if len(rest) == 1:
                            return ("class", m, m.classes[head])
                        return ("classattr", m, m.classes[head], rest[1:])
                    if head in m.imports:
                        dotted = ".".join([m.imports[head]] + rest[1:])
                        break
                    if head in m.assigns and len(rest) == 1:
                        return ("const", m, m.assigns[head])
                    return ("ext", dotted)
            else:
                return ("ext", dotted)

    def corpus_files(self, subdirs=("examples", "runs", "tests")):
        out = []
        for sd in subdirs:
            root = os.path.join(self.repo, sd)
            for dirpath, dirnames, filenames in os.walk(root):
                dirnames.sort()
                for fnm in sorted(filenames):
                    if fnm.endswith(".py"):
                        out.append(os.path.join(dirpath, fnm))
        return out


def dotted_name(node):
    """a.b.c for Name/Attribute chains, else None"""
    parts = []
    while isinstance(node, ast.Attribute):
        parts.append(node.attr)
        node = node.value
    if isinstance(node, ast.Name):
        parts.append(node.id)
        return ".".join(reversed(parts))
    return None
