#!/usr/bin/env python3
"""Run every check against every seeded change (on scratch copies of /repo/src with the
patch applied), record which checks fire in seeded/<id>/meta.json and print a table."""
import json, os, shutil, subprocess, sys, tempfile
from concurrent.futures import ThreadPoolExecutor
HERE = os.path.dirname(os.path.abspath(__file__)); VERIF = os.path.dirname(HERE)
sys.path.insert(0, HERE)
import selftest

PROPS = ["C%02d" % i for i in range(1, 21)]

def main(only=None):
    root = os.path.join(VERIF, "seeded")
    seeds = sorted(d for d in os.listdir(root) if os.path.exists(os.path.join(root, d, "patch.diff")))
    if only:
        seeds = [s for s in seeds if s in only]
    base = tempfile.mkdtemp(prefix="bldfm_seedmatrix_")
    trees = {}
    for s in seeds:
        t = os.path.join(base, s); os.makedirs(t)
        selftest._copy_tree(t)
        if not selftest._apply_patch(t, os.path.join(root, s, "patch.diff")):
            print("patch does not apply:", s); trees[s] = None
        else:
            trees[s] = t
    jobs = [(s, p) for s in seeds if trees[s] for p in PROPS]
    def one(job):
        s, p = job
        rc, lines = selftest._run(p, trees[s])
        return s, p, rc, lines
    res = {}
    with ThreadPoolExecutor(max_workers=16) as ex:
        for s, p, rc, lines in ex.map(one, jobs):
            res.setdefault(s, {})[p] = (rc, lines)
    shutil.rmtree(base, ignore_errors=True)
    for s in seeds:
        if not trees[s]:
            continue
        fired = [p for p in PROPS if res[s][p][0] == 1]
        errs = [p for p in PROPS if res[s][p][0] == 2]
        mp = os.path.join(root, s, "meta.json")
        m = json.load(open(mp))
        m["detected_by"] = fired
        m["analysis_error_in"] = errs
        m["first_report"] = {p: res[s][p][1][:1] for p in fired}
        json.dump(m, open(mp, "w"), indent=1)
        print("%-8s target=%s fired=%s rc2=%s" % (s, m.get("property"), ",".join(fired) or "-", ",".join(errs) or "-"))

if __name__ == "__main__":
    main(sys.argv[1:] or None)
