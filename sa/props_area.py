"""C20: source-area rescaling and percentile contours."""

import alg
from alg import Expr, ZERO, ONE
from front import AnalysisError
from interp import Interp, Tup, Arr, SymArr, Unknown, Opaque, explore
from report import Result, Ob, eq_ob, req_ob
import config_model as CM
from npsem import _last_of

KNOWN = {"scatter", "cumsum", "gather", "permidx", "elem"}
KNOWN_CONTOUR = {"cumsum", "gather", "permidx", "elem", "at", "abs", "searchsorted", "last", "pick", "min", "max", "idx", "sum", "countwhere"}
TRUST = "numpy: argsort ascending and stable; a[::-1] / np.flip reverse; cumsum inclusive prefix sums; searchsorted(side='left') first index with c[i] >= v; a[p] gathers, a[p] = v scatters"


def _recognised(x, known):
    """every function atom of x is one of the recognised sort/prefix building blocks"""
    for a in x.atoms():
        if a.kind == "fn" and a.name not in known:
            return False, a.name
        if a.kind == "sym" and any(c in a.name for c in "@(:?"):
            return False, a.name  # placeholder for an operation without array semantics
    return True, None


def source_area_obligations(P):
    obs = []
    site = "src/bldfm/utils.py::get_source_area"
    ny, nx = alg.sym("ny", pos=True, integer=True), alg.sym("nx", pos=True, integer=True)
    f = SymArr("f", 2, shape=(ny, nx))
    g = SymArr("g", 2, shape=(ny, nx))
    res = CM.run_paths(P, "bldfm.utils", "get_source_area", [f, g], {})
    rets = [r for r in res if r.kind == "return"]
    if len(res) != 1 or len(rets) != 1 or not isinstance(rets[0].value, Arr):
        return [req_ob("R-SORTDIR", site, "one straight path returning an array", False if res else None, detail=str([(r.kind, r.raise_desc, r.path) for r in res])[:300])]
    out = rets[0].value
    v = out.val
    perm = alg.fn("permidx", "desc", g.val)
    fs = alg.fn("gather", f.val, perm)
    spec = alg.fn("scatter", alg.fn("cumsum", fs) - fs, perm)
    if not isinstance(v, Expr):
        return [req_ob("R-SORTDIR", site, "result is built from recognised sort / prefix-sum operations", None, detail=repr(v)[:200])]
    ok, bad = _recognised(v, KNOWN)
    if not ok:
        obs.append(req_ob("R-SORTDIR", site, "result is built from recognised sort / prefix-sum operations", None, detail="unrecognised operation %s in %s" % (bad, repr(v)[:200])))
    else:
        perms = [a for a in v.atoms() if a.kind == "fn" and a.name == "permidx"]
        desc = bool(perms) and all(a.args[0] == "desc" and a.args[1].eq(g.val) for a in perms)
        obs.append(req_ob("R-SORTDIR", site, "cells are ordered by the base field g, descending", desc, detail="; ".join("%s by %r" % (a.args[0], a.args[1]) for a in perms), key={"clause": "direction"}))
        obs.append(eq_ob("R-EXCL", site, "each cell receives the exclusive prefix sum of f over the cells ordered before it, scattered back through the same permutation", v, spec,
                         "sum of f over {g' > g(cell)}: scatter(cumsum(f[p]) - f[p], p), p = argsort(g) descending", key={"clause": "value"}))
    # g only through ordering and shape
    garr = [a for a in v.atoms() if a.kind == "fn" and a.name == "elem" and a.args[0].eq(g.sym)]
    inside = True
    def scan(x, in_perm=False):
        nonlocal inside
        for m in x.n:
            for a, e in m:
                if a.kind == "fn" and a.name == "elem" and a.args[0].eq(g.sym) and not in_perm:
                    inside = False
                for arg in a.args:
                    if isinstance(arg, Expr):
                        scan(arg, in_perm or (a.kind == "fn" and a.name == "permidx"))
    scan(v)
    obs.append(req_ob("R-ORDER-ONLY", site, "g reaches the result only as a sort key (never arithmetically)", inside, key={"clause": "order-only"}))
    obs.append(req_ob("R-DTYPE", site, "the result's storage does not inherit the dtype of g", not (out.dtype or "").startswith("inherit:g"), detail="dtype %s" % out.dtype, key={"clause": "dtype"}))
    ev = [e for e in rets[0].events if e[0] == "dtype"]
    obs.append(req_ob("R-DTYPE", site, "no value derived from f is stored into storage typed by g", not ev, detail="; ".join("%s %s" % (e[1], e[2]) for e in ev[:2]) or None))
    lay = [e for e in rets[0].events if e[0] == "layout"]
    obs.append(req_ob("R-ORDER-ONLY", site, "f and g are flattened in index order, so cell k of f and cell k of g are the same cell whatever the memory layout of either", not lay,
                      detail="; ".join("%s %s" % (e[1], e[2]) for e in lay[:2]) or None, key={"clause": "layout"}))
    shp = out.shape
    obs.append(req_ob("R-ORDER-ONLY", site, "the result has the shape of g", shp is not None and len(shp) == 2 and shp[0].eq(ny) and shp[1].eq(nx), detail=repr(shp)))
    return obs


def _grid_for(ndim_xy):
    ny, nx = alg.sym("ny", pos=True, integer=True), alg.sym("nx", pos=True, integer=True)
    if ndim_xy == 2:
        X, Y = SymArr("X", 2, shape=(ny, nx)), SymArr("Y", 2, shape=(ny, nx))
    else:
        X, Y = SymArr("X", 1, shape=(nx,)), SymArr("Y", 1, shape=(ny,))
    return X, Y, ny, nx


def contour_obligations(P):
    obs = []
    site = "src/bldfm/plotting/footprint.py::extract_percentile_contour"
    for ndim_xy in (2, 1):
        X, Y, ny, nx = _grid_for(ndim_xy)
        flx = SymArr("flx", 2, shape=(ny, nx))
        pct = alg.sym("pct", pos=True)
        grid = Tup([X, Y, SymArr("Zc", 2, shape=(ny, nx))])
        res = CM.run_paths(P, "bldfm.plotting.footprint", "extract_percentile_contour", [flx, grid], {"pct": pct})
        rets = [r for r in res if r.kind == "return"]
        tag = "(%d-D coordinates)" % ndim_xy
        if len(rets) != 1:
            obs.append(req_ob("R-COUNT", site, "one returning path %s" % tag, False if res else None, detail=str([(r.kind, r.raise_desc, r.path) for r in res])[:300]))
            continue
        v = rets[0].value
        if not (isinstance(v, Tup) and len(v.items) == 2 and all(isinstance(i, Expr) for i in v.items)):
            obs.append(req_ob("R-COUNT", site, "returns (level, area) %s" % tag, None, detail=repr(v)[:200]))
            continue
        level, area = (x.expand() for x in v.items)
        # counting the entries of the searched (non-decreasing) sums that lie below the target is the same search:
        # count(c < t) = searchsorted(c, t, 'left'), count(c <= t) = searchsorted(c, t, 'right') - whenever the sums are sorted,
        # which is the only case in which searchsorted itself means anything
        sub = {}
        for a in set(level.atoms()) | set(area.atoms()):
            if a.kind == "fn" and a.name == "countwhere" and a.args[1] in ("<", "<="):
                e = a.args[0].expand()
                carr_part = alg.ZERO
                for mono, cf in e.n.items():
                    t = Expr({mono: cf})
                    if any(b.kind == "fn" and b.name == "cumsum" for b in t.top_atoms()):
                        carr_part = carr_part + t
                if not carr_part.is_zero():
                    sub[a] = alg.fn("searchsorted", carr_part, (carr_part - e).expand(), "left" if a.args[1] == "<" else "right", integer=True)
        if sub:
            level, area = level.subs(sub).expand(), area.subs(sub).expand()
        perm = alg.fn("permidx", "desc", flx.val)
        srt = alg.fn("gather", flx.val, perm)
        # cell area as the code computes it: located as the factor multiplying (k+1)
        ks = [a for a in area.atoms() if a.kind == "fn" and a.name == "searchsorted"]
        if len(ks) != 1:
            obs.append(req_ob("R-COUNT", site, "the number of selected cells comes from one search on the cumulative sum %s" % tag, None if not ks else False, detail=repr(area)[:200]))
            continue
        k = alg.atom_expr(ks[0])
        carr, target, side = ks[0].args
        unrec = [bad for ok_, bad in (_recognised(x, KNOWN_CONTOUR) for x in (carr, target, level, area) if isinstance(x, Expr)) if not ok_]
        if unrec:
            obs.append(req_ob("R-COUNT", site, "level and area are built from recognised sort / prefix-sum / search operations %s" % tag, None, detail="unrecognised operation %s" % unrec[0]))
            continue
        cell = (area / (k + ONE)).simp()
        obs.append(req_ob("R-COUNT", site, "area is (k + 1) cells times a cell area that does not depend on the field %s" % tag,
                          ks[0] not in cell.atoms() and not any(a.kind == "fn" and a.name in ("gather", "cumsum", "permidx") for a in cell.atoms()), detail="cell area %r" % (cell,), key={"clause": "area"}))
        # cumulative sum searched: cumsum of the descending-sorted field times the cell area
        obs.append(eq_ob("R-SORTDIR", site, "the search runs on the cumulative sum of the field sorted descending (times the cell area) %s" % tag, carr, alg.fn("cumsum", srt) * cell,
                         "highest-valued cells first", key={"clause": "direction"}))
        spec_target = pct * _last_of(alg.fn("cumsum", srt) * cell)
        alt_target = pct * alg.fn("sum", flx.val) * cell
        if isinstance(target, Expr) and not target.eq(spec_target) and (target.eq(alt_target) or target.eq(pct * alg.fn("sum", srt) * cell)):
            # the total is summed separately from the searched partial sums: equal in exact arithmetic, but in floating point it can
            # exceed the last partial sum, so for p = 1 the search can return n and the area (k + 1) cells exceeds the grid
            clamped = (area / cell).simp().eq(alg.fmin(k, ny * nx - ONE) + ONE)
            obs.append(req_ob("R-COUNT", site, "the total is the last searched partial sum itself, or the cell count is clamped to the grid %s" % tag, clamped,
                              detail="target %r is summed independently of the searched array (rounding: target can exceed cumsum[-1] at p = 1, then k = n)" % (target,), key={"clause": "target"}))
        else:
            obs.append(eq_ob("R-COUNT", site, "the target is the fraction pct of the total %s" % tag, target, spec_target, "p * sum(f) * cell area", key={"clause": "target"}))
        lay = [e for e in rets[0].events if e[0] == "layout"]
        obs.append(req_ob("R-COUNT", site, "the field is flattened in index order %s" % tag, not lay, detail="; ".join("%s %s" % (e[1], e[2]) for e in lay[:2]) or None))
        obs.append(req_ob("R-COUNT", site, "the search returns the first position where the cumulative sum reaches the target (side='left') %s" % tag, side == "left", detail="side=%r" % (side,)))
        n = ny * nx
        want_level = alg.fn("pick", srt, alg.fmin(k, n - ONE))
        obs.append(eq_ob("R-COUNT", site, "level is the smallest selected value: sorted[min(k, n-1)] %s" % tag, level, want_level, key={"clause": "level"}))
        # homogeneity in f: target and searched array are both degree one in the field (same cell-area factor)
        ok_h = isinstance(carr, Expr) and isinstance(target, Expr)
        obs.append(req_ob("R-HOMOG", site, "searched sums and target carry the same power of the cell area and of the field (scaling f scales the level, not the area) %s" % tag, ok_h and (carr / alg.fn("cumsum", srt)).simp().eq((target / (pct * _last_of(alg.fn("cumsum", srt) * cell)) * cell).simp())))
        # cell area is |dx|*|dy| from the coordinate arrays
        xs = [a for a in cell.atoms() if a.kind == "fn" and a.name in ("at", "elem", "pick") and a.args and isinstance(a.args[0], Expr)]
        uses_x = any(X.sym in a.args[0].atoms() or a.args[0].eq(X.sym) for a in xs) or any(X.sym.top_atoms() <= set(a.args[0].atoms()) for a in xs)
        uses_y = any(Y.sym.top_atoms() <= set(a.args[0].atoms()) for a in xs)
        absx = [a for a in cell.atoms() if a.kind == "fn" and a.name == "abs"]

        def spacing_of(a, arr, axis):
            """|a| where a = arr[.., k+1, ..] - arr[.., k, ..]: two neighbouring entries along `axis`, everything else equal"""
            e = a.args[0].expand() if a.args and isinstance(a.args[0], Expr) else None
            if e is None or len(e.n) != 2:
                return False
            terms = list(e.n.items())
            if not all(len(m) == 1 and m[0][1] == 1 and m[0][0].kind == "fn" and m[0][0].name == "at" and c.im == 0 for m, c in terms):
                return False
            (m1, c1), (m2, c2) = terms
            if c1.re * c2.re != -1:
                return False
            a1, a2 = m1[0][0], m2[0][0]
            if not (isinstance(a1.args[0], Expr) and a1.args[0].eq(arr.sym) and isinstance(a2.args[0], Expr) and a2.args[0].eq(arr.sym)) or len(a1.args) != len(a2.args):
                return False
            i1, i2 = a1.args[1:], a2.args[1:]
            ax = axis if len(i1) > 1 else 0
            for k, (p, q) in enumerate(zip(i1, i2)):
                if not (isinstance(p, Expr) and isinstance(q, Expr)):
                    return False
                d = (p - q).expand()
                if k == ax:
                    if not (d.eq(ONE) or d.eq(-ONE)):
                        return False
                elif not d.is_zero():
                    return False
            return True

        okx = any(spacing_of(a, X, 1) for a in absx)
        oky = any(spacing_of(a, Y, 0) for a in absx)
        power_ok = len(absx) == 2 and cell.eq(alg.atom_expr(absx[0]) * alg.atom_expr(absx[1]))
        obs.append(req_ob("R-COUNT", site, "the cell area is |dx| * |dy|: the spacing of two neighbouring x entries along the x axis times that of two neighbouring y entries along the y axis %s" % tag,
                          uses_x and uses_y and okx and oky and power_ok, detail="cell area %r" % (cell,), key={"clause": "cell"}))
    return obs


def level_slice_obligations(P):
    """R-LEVEL: for 3-D input the helper hands on exactly field[level] and grid[k][level] for the index as given (negative
    from-the-end indices included) - interpreted with a symbolic level and compared with direct indexing"""
    obs = []
    site = "src/bldfm/plotting/_common.py::_maybe_slice_level"
    nz, ny, nx = (alg.sym(n, pos=True, integer=True) for n in ("nz", "ny", "nx"))
    lev = alg.sym("level", integer=True)
    F = SymArr("flx3", 3, shape=(nz, ny, nx))
    G = [SymArr(n, 3, shape=(nz, ny, nx)) for n in ("X3", "Y3", "Z3")]
    try:
        res = CM.run_paths(P, "bldfm.plotting._common", "_maybe_slice_level", [F, Tup(G)], {"level": lev})
    except AnalysisError as e:
        return [req_ob("R-LEVEL", site, "the level helper is interpretable", None, detail=str(e))]
    rets = [r for r in res if r.kind == "return"]
    if not rets or len(rets) != len(res):
        return [req_ob("R-LEVEL", site, "the level helper returns on every path for 3-D input", False if res else None, detail=str([(r.kind, r.raise_desc) for r in res])[:200])]
    for r in rets:
        v = r.value
        ok = isinstance(v, Tup) and len(v.items) == 2 and isinstance(v.items[0], Arr) and isinstance(v.items[1], Tup) and len(v.items[1].items) == 3
        if not ok:
            obs.append(req_ob("R-LEVEL", site, "returns (field, (X, Y, Z))", None, detail=repr(v)[:200]))
            continue
        tag = "" if len(rets) == 1 else " (path: %s)" % "; ".join("%s=%s" % (d[:40], b) for d, b in r.path)[:120]
        want = alg.fn("at", F.sym, lev, alg.fn("idx", ny, integer=True), alg.fn("idx", nx, integer=True), pos=F.elempos)
        obs.append(eq_ob("R-LEVEL", site, "the field handed on is field[level] for the level as given%s" % tag, v.items[0].val, want, key={"what": "field"}))
        for g, out in zip(G, v.items[1].items):
            w = alg.fn("at", g.sym, lev, alg.fn("idx", ny, integer=True), alg.fn("idx", nx, integer=True), pos=g.elempos)
            obs.append(eq_ob("R-LEVEL", site, "coordinate %s handed on is %s[level]%s" % (g.name, g.name, tag), out.val if isinstance(out, Arr) else out, w, key={"what": g.name}))
    # a stack of levels over coordinates that describe one level (a 2-D meshgrid or 1-D axes): the field is sliced all the same,
    # the coordinates pass through
    for nd, shapes in ((2, [(ny, nx)] * 3), (1, [(nx,), (ny,), (nz,)])):
        G2 = [SymArr(n + str(nd), nd, shape=shp) for n, shp in zip(("Xc", "Yc", "Zc"), shapes)]
        try:
            res2 = CM.run_paths(P, "bldfm.plotting._common", "_maybe_slice_level", [F, Tup(G2)], {"level": lev})
        except AnalysisError as e:
            obs.append(req_ob("R-LEVEL", site, "the level helper is interpretable for %d-D coordinates" % nd, None, detail=str(e)))
            continue
        for r in [r for r in res2 if r.kind == "return"]:
            v = r.value
            if not (isinstance(v, Tup) and len(v.items) == 2 and isinstance(v.items[0], Arr)):
                obs.append(req_ob("R-LEVEL", site, "returns (field, grid) for %d-D coordinates" % nd, None, detail=repr(v)[:200]))
                continue
            want = alg.fn("at", F.sym, lev, alg.fn("idx", ny, integer=True), alg.fn("idx", nx, integer=True), pos=F.elempos)
            obs.append(eq_ob("R-LEVEL", site, "a 3-D field over %d-D coordinates is reduced to field[level]" % nd, v.items[0].val, want, key={"what": "field", "coords": nd}))
            same = isinstance(v.items[1], Tup) and len(v.items[1].items) == 3 and all(a is b for a, b in zip(v.items[1].items, G2))
            obs.append(req_ob("R-LEVEL", site, "%d-D coordinates pass through unchanged" % nd, same, key={"what": "grid", "coords": nd}))
    return obs


def check_C20(P, tier):
    R = Result("C20", tier)
    R.min_obligations = 14
    R.explanation = ("get_source_area and extract_percentile_contour are interpreted abstractly with argsort/reverse/gather/cumsum/shift/scatter/searchsorted given their "
                     "array semantics as structured atoms: (R-SORTDIR) the permutation feeding the cumulative sums is descending in its key - by g for the rescaling, by the "
                     "field itself for the contour; (R-EXCL) the value scattered back is the exclusive prefix sum (cumsum(s) - s, which is what zeros + shift-right "
                     "produces) through the same permutation that gathered f; (R-ORDER-ONLY) g reaches the result only as the sort key and through its shape, so any "
                     "strictly increasing transform of g (including one that changes its dtype) leaves the result unchanged; (R-DTYPE) the result's storage is not typed "
                     "by g; (R-COUNT) k = searchsorted(c, p*c[-1], left), area = (k+1)|dx||dy|, level = sorted[min(k, n-1)]; (R-HOMOG) searched sums and target are "
                     "both of degree one in f. Only recognised constructions are judged: an unrecognised one is an analysis error, not a violation. Minimality in the "
                     "presence of ties, monotonicity in p and permutation invariance are properties of the sort-based algorithm as a whole and are not decided.")
    R.trusted = [TRUST]
    R.add(source_area_obligations(P))
    R.add(contour_obligations(P))
    R.add(level_slice_obligations(P))
    R.analysed = {"files": ["src/bldfm/utils.py", "src/bldfm/plotting/footprint.py", "src/bldfm/plotting/_common.py"], "functions": ["get_source_area", "extract_percentile_contour", "_maybe_slice_level"], "paths": 3}
    return R, "order-only information flow; dtype flow; recognised sort/prefix patterns as structured atoms"
