"""E1 abstract interpreter: algebraic value numbering over function bodies.

Evaluates a function of the package *abstractly*: every variable holds its value
as a canonical algebraic expression (``alg.Expr``) of the function's inputs, or
an abstract array (``Arr``: symbolic shape + pointwise value + layout/typestate
meta).  Nothing is executed; numpy/library calls are interpreted by the
semantics table in ``npsem`` (S-NUMPY).  Undecided branch tests are resolved by
a decision sequence supplied by ``explore`` (all paths are enumerated).

The analysis point of spectral arrays is fixed per run by ``ctx``:
``generic`` (a non-mean Fourier mode; boolean masks derived from ``msk`` are
True there) or ``mean`` (the [0,0] mode).
"""

import ast
from fractions import Fraction as Q

import alg
from alg import Expr, as_expr, ZERO, ONE
from front import AnalysisError, dotted_name


# --------------------------------------------------------------------------
# abstract values


class _Bot:
    def __repr__(self):
        return "BOT"


BOT = _Bot()  # element does not exist at the analysis point (masked out)


class Unknown:
    def __init__(self, why):
        self.why = why

    def __repr__(self):
        return "Unknown(%s)" % self.why


class Pred:
    """undecided atomic predicate  sign(e) in trueset"""

    def __init__(self, e, op):
        self.e, self.op = e, op

    def __repr__(self):
        return "(%r %s 0)" % (self.e, self.op)


class Tup:
    def __init__(self, items, kind="tuple"):
        self.items = list(items)
        self.kind = kind

    def __repr__(self):
        return "Tup(%s)" % ", ".join(repr(i) for i in self.items)


class Opaque:
    def __init__(self, name, attrs=None):
        self.name = name
        self.attrs = attrs or {}

    def __repr__(self):
        return "<%s>" % self.name


class FuncRef:
    def __init__(self, kind, dotted, module=None, node=None, bound=None):
        self.kind, self.dotted, self.module, self.node, self.bound = kind, dotted, module, node, bound

    def __repr__(self):
        return "<func %s>" % self.dotted


class ModRef:
    def __init__(self, dotted):
        self.dotted = dotted

    def __repr__(self):
        return "<module %s>" % self.dotted


class Arr:
    """Abstract array."""

    def __init__(self, shape, val, dtype=None, meta=None, name=None):
        self.shape = tuple(shape) if shape is not None else None
        self.val = val
        self.dtype = dtype
        self.meta = dict(meta) if meta else {}
        self.name = name

    def copy(self, **kw):
        a = Arr(self.shape, self.val, self.dtype, self.meta, self.name)
        for k, v in kw.items():
            setattr(a, k, v)
        return a

    @property
    def ndim(self):
        return len(self.shape) if self.shape is not None else None

    def __repr__(self):
        return "Arr(shape=%r, val=%r, dtype=%s, meta=%s)" % (self.shape, self.val, self.dtype, sorted(self.meta))


class SymArr(Arr):
    """A caller-supplied array: elements are atoms at(name, index)."""

    def __init__(self, name, ndim=1, shape=None, dtype="float", pos=False, role=None):
        if shape is None:
            shape = tuple(alg.sym("%s.shape[%d]" % (name, k), pos=True, integer=True) for k in range(ndim))
        self.sym = alg.sym(name, pos=pos)
        self.elempos = pos
        super().__init__(shape, None, dtype, {"param": name, "role": role}, name)
        self.val = alg.fn("elem", self.sym, pos=pos)

    def at(self, idx):
        return alg.fn("at", self.sym, idx, pos=self.elempos)

    def copy(self, **kw):
        a = Arr(self.shape, self.val, self.dtype, self.meta, self.name)
        for k, v in kw.items():
            setattr(a, k, v)
        return a


class PyList:
    """a Python list of unknown (symbolic) length whose elements are atoms at(name, i)"""

    def __init__(self, name, length=None, pos=False):
        self.name = name
        self.sym = alg.sym(name, pos=pos)
        self.length = length if length is not None else alg.fn("len", self.sym, integer=True, pos=True)
        self.pos = pos

    def at(self, idx):
        return alg.fn("at", self.sym, idx, pos=self.pos)

    def __repr__(self):
        return "PyList(%s)" % self.name


class GenList:
    """[elem(i) for i in range(...)]: a list known through its generic element"""

    def __init__(self, elem, ivar, rng):
        self.elem, self.ivar, self.rng = elem, ivar, rng

    def __repr__(self):
        return "GenList(%r for %r in [%r, %r))" % (self.elem, self.ivar, self.rng.start, self.rng.stop)


class SetV:
    """a Python set of scalar values; duplicates are removed by (possibly decided) equality"""

    def __init__(self, items):
        self.items = list(items)

    def __repr__(self):
        return "SetV(%s)" % ", ".join(repr(i) for i in self.items)


class NeedDecision(Exception):
    pass


class AbstractFault(Exception):
    """the code divides by a quantity that is identically zero at the analysis point"""


class _Return(Exception):
    def __init__(self, value):
        self.value = value


class FStr(str):
    """a formatted string: still a string for every consumer, but it remembers the values formatted into it"""

    def __new__(cls, text, parts=()):
        o = str.__new__(cls, text)
        o.parts = list(parts)
        return o


EXC_PARENTS = {
    "BaseException": None, "Exception": "BaseException", "KeyboardInterrupt": "BaseException", "SystemExit": "BaseException",
    "OSError": "Exception", "IOError": "OSError", "FileNotFoundError": "OSError", "PermissionError": "OSError", "FileExistsError": "OSError",
    "EOFError": "Exception", "ValueError": "Exception", "TypeError": "Exception", "RuntimeError": "Exception", "AttributeError": "Exception",
    "LookupError": "Exception", "KeyError": "LookupError", "IndexError": "LookupError", "ImportError": "Exception", "ModuleNotFoundError": "ImportError",
    "ArithmeticError": "Exception", "ZeroDivisionError": "ArithmeticError", "OverflowError": "ArithmeticError", "FloatingPointError": "ArithmeticError",
    "BadZipFile": "Exception", "error": "Exception", "UnpicklingError": "PickleError", "PickleError": "Exception", "StopIteration": "Exception",
    "NotImplementedError": "RuntimeError", "UnicodeDecodeError": "ValueError", "MemoryError": "Exception", "AssertionError": "Exception",
}


def exc_ancestors(name):
    name = (name or "Exception").split(".")[-1]
    out = [name]
    cur = EXC_PARENTS.get(name, "Exception")
    while cur is not None:
        out.append(cur)
        cur = EXC_PARENTS.get(cur)
    return out


class _Raise(Exception):
    def __init__(self, node, desc, exc_name=None):
        self.node, self.desc = node, desc
        self.exc_name = exc_name


def raise_exc(name, node=None, desc=None):
    """for stubs: the modelled call raises exception `name`"""
    return _Raise(node, desc or "%s (injected fault)" % name, exc_name=name)


class _LoopCtl(Exception):
    """continue / break inside an unrolled loop"""

    def __init__(self, kind, node):
        self.kind, self.node = kind, node


class PathResult:
    def __init__(self, kind, value, env, interp, raise_desc=None):
        self.kind = kind  # 'return' | 'raise'
        self.value = value
        self.env = env
        self.events = interp.events
        self.constraints = getattr(interp, "constraints", [])
        self.path = interp.path
        self.loops = interp.loops
        self.calls = interp.calls
        self.raise_desc = raise_desc
        self.ctx = interp.ctx
        self.facts = interp.facts


TRACK_CANCEL = False  # set by checks that judge signs as floating point computes them

TRUESET = {"<": {"-"}, "<=": {"-", "0"}, ">": {"+"}, ">=": {"0", "+"}, "==": {"0"}, "!=": {"-", "+"}}
ALLSIGNS = {"-", "0", "+"}
FLIP = {"-": "+", "+": "-", "0": "0"}


class Facts:
    def __init__(self):
        self.signs = []  # [Expr, set]
        self.even = []  # Exprs known to be even integers
        self.members = []  # (Expr value, container id) -> bool

    def clone(self):
        f = Facts()
        f.signs = [[e, set(s)] for e, s in self.signs]
        f.even = list(self.even)
        f.members = list(self.members)
        return f

    def lookup(self, e):
        for ent in self.signs:
            if ent[0].eq(e):
                return ent, False
            if ent[0].eq(-e):
                return ent, True
        return None, False

    def possible(self, e):
        c = e.as_const()
        if c is not None and c.im == 0:
            return {"+" if c.re > 0 else "-" if c.re < 0 else "0"}
        s = manifest_sign(e)
        if "-" in s:
            # quantities that cannot be negative whatever their arguments: a remainder modulo a positive number, counts, lengths
            cm = e.as_mono()
            if cm is not None and cm[0].im == 0 and len(cm[1]) == 1 and cm[1][0][1] == 1:
                a = cm[1][0][0]
                nonneg = a.kind == "fn" and (a.name in ("count", "countwhere", "len", "nunique", "abs") or (a.name == "mod" and len(a.args) == 2 and isinstance(a.args[1], Expr) and manifest_sign(a.args[1]) <= {"+"}))
                if nonneg:
                    s = s & ({"0", "+"} if cm[0].re > 0 else {"0", "-"})
        if "0" in s:
            # a single product whose every factor is a reciprocal (or flagged positive) cannot vanish
            x = e.expand() if hasattr(e, "expand") else e
            if len(x.n) == 1:
                (mono, c), = x.n.items()
                if mono and all(a.pos or (isinstance(p, int) and p < 0) or (not isinstance(p, int) and getattr(p, "denominator", 1) == 1 and p < 0) for a, p in mono):
                    s = s - {"0"}
        ent, flip = self.lookup(e)
        if ent is not None:
            t = {FLIP[x] for x in ent[1]} if flip else set(ent[1])
            s = s & t
        return s

    def refine(self, e, allowed):
        ent, flip = self.lookup(e)
        if ent is None:
            self.signs.append([e, set(allowed) & manifest_sign(e)])
        else:
            a = {FLIP[x] for x in allowed} if flip else set(allowed)
            ent[1] &= a

    def is_even(self, e):
        c = e.as_const()
        if c is not None:
            return c.im == 0 and c.re.denominator == 1 and c.re % 2 == 0
        for x in self.even:
            if x.eq(e):
                return True
        ent, flip = self.lookup(alg.fn("mod", e, alg.const(2)))
        if ent is not None and not flip and ent[1] <= {"0", "-"}:
            return True  # a dominating guard established e % 2 == 0
        # sums of even things
        if e.is_poly():
            ok = True
            for m, cf in e.n.items():
                t = Expr({m: cf})
                if cf.im == 0 and cf.re.denominator == 1 and cf.re % 2 == 0 and all(a.integer and isinstance(x, (int, Q)) and x >= 1 and x.denominator == 1 for a, x in m):
                    continue
                if any(x.eq(t) for x in self.even):
                    continue
                ok = False
                break
            if ok and e.n:
                return True
        return False


manifest_sign = alg.manifest_sign


# --------------------------------------------------------------------------


class Interp:
    def __init__(self, program, decisions=(), ctx="generic", facts=None, stubs=None, max_depth=4, options=None):
        self.P = program
        self.decisions = list(decisions)
        self.dpos = 0
        self.ctx = ctx
        self.facts = facts.clone() if facts is not None else Facts()
        self.stubs = stubs or {}
        self.events = []  # (kind, where, detail)
        self.fterms = {}  # id(env) -> {name: (operation tree, the value it described)}
        self.path = []  # (description, bool)
        self.loops = []  # LoopSummary
        self.calls = []  # (dotted, args, kwargs, where)
        self.depth = 0
        self.max_depth = max_depth
        self.loop_stack = []
        self.options = options or {}
        self.guard_stack = []
        self._loop_ids = 0
        import npsem

        self.np = npsem
        del npsem.MODE_DIMS[:]
        self.views = {}
        self.constraints = []  # (expression, comparison with 0, outcome) of every forked comparison, in order

    # ---- bookkeeping
    def event(self, kind, node, detail):
        where = "%s:%s" % (self.cur_mod.name if self.cur_mod else "?", getattr(node, "lineno", "?"))
        self.seq = getattr(self, "seq", 0) + 1
        self.events.append((kind, where, detail, self.seq))

    def decide(self, desc):
        if self.dpos < len(self.decisions):
            d = self.decisions[self.dpos]
            self.dpos += 1
            self.path.append((desc, d))
            return d
        raise NeedDecision(desc)

    def possible_term(self, t):
        return self.facts.possible(t)

    def decide_pred(self, p):
        """truth of a (possibly undecided) predicate"""
        if isinstance(p, bool):
            return p
        if isinstance(p, Pred):
            poss = self.facts.possible(p.e)
            ts = TRUESET[p.op]
            if poss <= ts:
                return True
            if not (poss & ts):
                return False
            if len(self.facts.signs) >= 2:
                # what the affine facts of the path imply together (a < b, b < c settles a - c): exact Fourier-Motzkin
                import lin
                if lin.affine(p.e) is not None:
                    poss = poss & lin.implied_signs(self.facts, p.e)
                    if poss <= ts:
                        return True
                    if not (poss & ts):
                        return False
            d = self.decide("%r %s 0" % (p.e, p.op))
            self.facts.refine(p.e, ts if d else (ALLSIGNS - ts))
            est = ts if d else (ALLSIGNS - ts)
            if est <= {"0", "-"} and len(p.e.n) > 1:
                # a sum of quantities none of which can be negative is not positive: every one of them is zero
                terms = [Expr({m: c}) for m, c in p.e.expand().n.items()]
                if all(self.possible_term(t) <= {"0", "+"} for t in terms):
                    for t in terms:
                        self.facts.refine(t, {"0"})
            cm = p.e.as_mono()
            qa = cm[1][0][0] if cm is not None and cm[0] == alg.C1 and len(cm[1]) == 1 and cm[1][0][1] == 1 else None
            if qa is not None and qa.kind == "fn" and (qa.name.startswith("any:") or qa.name.startswith("all:")) and p.op == "!=" and qa.name.endswith("0"):
                # a quantified test says something about the generic entry in one direction only: "no entry satisfies c" gives
                # not-c for every entry, "all entries satisfy c" gives c
                qop = qa.name[4:-1]
                inner = qa.args[0]
                if qop in TRUESET and isinstance(inner, Expr):
                    if qa.name.startswith("any:") and not d:
                        self.facts.refine(inner, ALLSIGNS - TRUESET[qop])
                    elif qa.name.startswith("all:") and d:
                        self.facts.refine(inner, TRUESET[qop])
            self.constraints.append((p.e, p.op, d))
            return d
        if isinstance(p, BoolCombo):
            if p.op == "and":
                for x in p.items:
                    if not self.decide_pred(x):
                        return False
                return True
            if p.op == "or":
                for x in p.items:
                    if self.decide_pred(x):
                        return True
                return False
            if p.op == "not":
                return not self.decide_pred(p.items[0])
        if isinstance(p, Member):
            for (v, cid, res) in self.facts.members:
                if cid == p.cid and v.eq(p.value):
                    return res
            d = self.decide("%r in %s" % (p.value, p.cname))
            self.facts.members.append((p.value, p.cid, d))
            return d
        if isinstance(p, Unknown):
            # one decision per unknown *value*: testing the same object twice (`if is_3d:` ... `if is_3d:`) is consistent
            memo = self.__dict__.setdefault("unknown_truth", {})
            ent = memo.get(id(p))
            if ent is not None and ent[0] is p:
                return ent[1]
            d = self.decide("unknown test: %s" % p.why)
            memo[id(p)] = (p, d)
            return d
        return self.truth(p)

    def truth(self, v):
        if isinstance(v, bool):
            return v
        if v is None:
            return False
        if isinstance(v, str):
            return bool(v)
        if isinstance(v, Tup):
            return len(v.items) > 0
        if isinstance(v, SetV):
            return len(v.items) > 0
        if isinstance(v, Expr):
            c = v.as_const()
            if c is not None:
                return not c.is_zero()
            return self.decide_pred(Pred(v, "!="))
        if isinstance(v, (Pred, BoolCombo, Member, Unknown)):
            return self.decide_pred(v)
        if isinstance(v, Arr):
            if isinstance(v.val, (bool, Pred, BoolCombo)):
                return self.decide_pred(v.val)
            return self.decide("truth of array %s" % (v.name,))
        if isinstance(v, (Opaque, FuncRef, ModRef)):
            return True
        if isinstance(v, PyList):
            return self.decide("list %s is non-empty" % v.name)
        return self.decide("truth of %r" % (v,))

    # ---- entry
    def run_function(self, module, fn, args=(), kwargs=None, closure=None):
        """Interpret `fn` (FunctionDef in `module`) with abstract arguments."""
        kwargs = dict(kwargs or {})
        env = self.bind(module, fn, list(args), kwargs)
        pobj = self.__dict__.setdefault("param_objs", {})
        first = "param_items" not in self.__dict__
        pit = self.__dict__.setdefault("param_items", {})
        for pname, v in env.items():
            if isinstance(v, (Arr, Tup)):
                pobj[id(v)] = v  # objects that belong to a caller (for aliasing through np.asarray)
            if first and isinstance(v, Tup) and v.kind in ("tuple", "list"):
                for k, it in enumerate(v.items):
                    if isinstance(it, Expr):
                        pit[id(it)] = (it, pname, k)  # an element of a sequence the caller handed in: a number, or a 0-d / one-element array
        if closure:
            for k, v in closure.items():
                env.setdefault(k, v)
        saved = (getattr(self, "cur_mod", None), getattr(self, "cur_fn", None), getattr(self, "cur_imports", None))
        self.cur_mod, self.cur_fn = module, fn
        self.cur_imports = module.local_imports(fn)
        is_gen = _is_generator(fn)
        if is_gen:
            self.__dict__.setdefault("yield_stack", []).append([])
        try:
            try:
                self.exec_block(fn.body, env)
                ret = None
            except _Return as r:
                ret = r.value
            if is_gen:
                ret = Tup(self.yield_stack[-1], "list")
        finally:
            if is_gen:
                self.yield_stack.pop()
            self.cur_mod, self.cur_fn, self.cur_imports = saved
        self.last_env = env
        return ret

    def ev_Yield(self, node, env):
        if not getattr(self, "yield_stack", None):
            raise AnalysisError("yield outside a generator function")
        v = self.eval(node.value, env) if node.value is not None else None
        if self.loop_stack:
            L = self.loop_stack[-1]
            self.yield_stack[-1].append(GenList(v, L.ivar, L.rng))
        else:
            self.yield_stack[-1].append(v)
        return None

    def ev_YieldFrom(self, node, env):
        if not getattr(self, "yield_stack", None):
            raise AnalysisError("yield outside a generator function")
        v = self.eval(node.value, env)
        if isinstance(v, Tup) and v.kind != "dict":
            self.yield_stack[-1].extend(v.items)
            return None
        raise AnalysisError("yield from %r not modelled" % (v,))

    def bind(self, module, fn, args, kwargs):
        a = fn.args
        env = {}
        params = [p.arg for p in a.posonlyargs + a.args]
        defaults = [None] * (len(params) - len(a.defaults)) + list(a.defaults)
        if len(args) > len(params) and a.vararg is None:
            raise AnalysisError("too many positional arguments for %s" % fn.name)
        for name, val in zip(params, args):
            env[name] = val
        if a.vararg is not None:
            env[a.vararg.arg] = Tup(args[len(params):])
        for name, dflt in zip(params, defaults):
            if name in env:
                if name in kwargs:
                    raise AnalysisError("duplicate argument %s for %s" % (name, fn.name))
                continue
            if name in kwargs:
                env[name] = kwargs.pop(name)
            elif dflt is not None:
                env[name] = self.eval_in_module(module, dflt)
            else:
                raise AnalysisError("missing argument %s for %s" % (name, fn.name))
        for p, d in zip(a.kwonlyargs, a.kw_defaults):
            if p.arg in kwargs:
                env[p.arg] = kwargs.pop(p.arg)
            elif d is not None:
                env[p.arg] = self.eval_in_module(module, d)
            else:
                raise AnalysisError("missing kw-only argument %s" % p.arg)
        if kwargs:
            if a.kwarg is not None:
                env[a.kwarg.arg] = Tup([(k, v) for k, v in kwargs.items()], "dict")  # (**name is an ordinary dict of the extra keywords)
            else:
                raise AnalysisError("unexpected keyword arguments %s for %s" % (sorted(kwargs), fn.name))
        elif a.kwarg is not None:
            env[a.kwarg.arg] = Tup([], "dict")
        return env

    def eval_in_module(self, module, node):
        saved = (getattr(self, "cur_mod", None), getattr(self, "cur_fn", None), getattr(self, "cur_imports", None))
        self.cur_mod, self.cur_fn, self.cur_imports = module, None, {}
        try:
            return self.eval(node, {})
        finally:
            self.cur_mod, self.cur_fn, self.cur_imports = saved

    # ---- the expression as floating point evaluates it
    def _fterms_of_assign(self, s, env):
        out = []
        if len(s.targets) != 1:
            return out
        t, v = s.targets[0], s.value
        pairs = []
        if isinstance(t, ast.Name):
            pairs = [(t, v)]
        elif isinstance(t, (ast.Tuple, ast.List)) and isinstance(v, (ast.Tuple, ast.List)) and len(t.elts) == len(v.elts):
            pairs = [(a, b) for a, b in zip(t.elts, v.elts) if isinstance(a, ast.Name)]
        for a, b in pairs:
            if isinstance(b, (ast.BinOp, ast.UnaryOp)):
                try:
                    out.append((a.id, self.fterm(b, env)))
                except AnalysisError:
                    pass
        return out

    def fterm(self, node, env):
        """operation tree of an arithmetic expression with the names that were themselves defined by arithmetic opened and the
        operands of + and * ordered: two expressions with the same tree round alike, two that are merely equal in exact
        arithmetic (halo * nx / xmx and halo / (xmx / nx)) need not"""
        frame = self.fterms.get(id(env), {})
        if isinstance(node, ast.BinOp):
            l, r = self.fterm(node.left, env), self.fterm(node.right, env)
            op = type(node.op).__name__
            if op in ("Add", "Mult") and repr(r) < repr(l):
                l, r = r, l
            return (op, l, r)
        if isinstance(node, ast.UnaryOp) and isinstance(node.op, ast.USub):
            return ("Neg", self.fterm(node.operand, env))
        if isinstance(node, ast.UnaryOp) and isinstance(node.op, ast.UAdd):
            return self.fterm(node.operand, env)
        if isinstance(node, ast.Constant) and isinstance(node.value, (int, float)) and not isinstance(node.value, bool):
            return ("const", repr(float(node.value)))
        if isinstance(node, ast.Name):
            ent = frame.get(node.id)
            if ent is None and node.id in env:
                # a copy of the scope (comprehensions, closures): the name still holds the object its operation tree describes
                for fr in self.fterms.values():
                    e2 = fr.get(node.id)
                    if e2 is not None and e2[1] is env[node.id]:
                        ent = e2
                        break
            if ent is not None and ent[1] is env.get(node.id):
                return ent[0]
            if node.id in env:
                return ("leaf", env[node.id])
            return ("name", node.id)
        if isinstance(node, ast.Call) and dotted_name(node.func) in ("float", "np.float64", "numpy.float64") and len(node.args) == 1 and not node.keywords:
            return self.fterm(node.args[0], env)
        if isinstance(node, ast.Subscript) and isinstance(node.value, ast.Name) and node.value.id in env and isinstance(env[node.value.id], Arr):
            return ("leaf", env[node.value.id])  # an element (or selection of elements) of that array
        if isinstance(node, ast.Call) and dotted_name(node.func) and not node.keywords and all(not isinstance(a, ast.Starred) for a in node.args):
            return ("call", dotted_name(node.func)) + tuple(self.fterm(a, env) for a in node.args)
        return ("source", ast.unparse(node))

    @staticmethod
    def fterm_at_infinity(t, is_inf):
        """class of the value of an operation tree when the leaves selected by is_inf are +-infinity and every other leaf is
        finite: 'fin' | 'inf' | 'nan' (definitely not a number: inf/inf, inf-inf) | '?'"""
        k = t[0] if isinstance(t, tuple) else None
        if k == "leaf":
            return "inf" if is_inf(t[1]) else "fin"
        if k in ("const", "name"):
            return "fin"
        if k == "Neg":
            return Interp.fterm_at_infinity(t[1], is_inf)
        if k in ("Add", "Sub", "Mult", "Div", "Pow"):
            a, b = Interp.fterm_at_infinity(t[1], is_inf), Interp.fterm_at_infinity(t[2], is_inf)
            if "nan" in (a, b):
                return "nan"
            if "?" in (a, b):
                return "?"
            if k in ("Add", "Sub"):
                if a == "inf" and b == "inf":
                    return "?"  # inf - inf is NaN, inf + inf is inf: depends on the signs
                return "inf" if "inf" in (a, b) else "fin"
            if k == "Mult":
                return "inf" if "inf" in (a, b) else "fin"  # (0 * inf is left aside: only definite verdicts are used)
            if k == "Div":
                if a == "inf" and b == "inf":
                    return "nan"
                if b == "inf":
                    return "fin"
                return a
            if k == "Pow":
                if a == "inf":
                    e = t[2]
                    neg = (e[0] == "Neg" and e[1][0] == "const") or (e[0] == "const" and float(e[1]) < 0)
                    pos = e[0] == "const" and float(e[1]) > 0
                    return "fin" if neg else "inf" if pos else "?"
                return "fin" if b == "fin" else "?"
        return "?"

    @staticmethod
    def fterm_equal(a, b):
        if isinstance(a, tuple) and isinstance(b, tuple):
            if len(a) != len(b) or a[0] != b[0]:
                return False
            if a[0] == "leaf":
                x, y = a[1], b[1]
                return x is y or (isinstance(x, Expr) and isinstance(y, Expr) and x.eq(y))
            return all(Interp.fterm_equal(x, y) for x, y in zip(a[1:], b[1:]))
        return a == b

    @staticmethod
    def fterm_str(a):
        if not isinstance(a, tuple):
            return str(a)
        if a[0] == "leaf":
            return repr(a[1])[:40]
        if a[0] in ("const", "name", "source"):
            return str(a[1])
        if a[0] == "call":
            return "%s(%s)" % (a[1], ", ".join(Interp.fterm_str(x) for x in a[2:]))
        if a[0] == "Neg":
            return "-(%s)" % Interp.fterm_str(a[1])
        sym = {"Add": "+", "Sub": "-", "Mult": "*", "Div": "/", "Pow": "**", "FloorDiv": "//", "Mod": "%"}.get(a[0], a[0])
        return "(%s %s %s)" % (Interp.fterm_str(a[1]), sym, Interp.fterm_str(a[2]))

    # ---- statements
    def exec_block(self, stmts, env):
        for s in stmts:
            self.exec_stmt(s, env)

    def exec_stmt(self, s, env):
        if isinstance(s, ast.Expr):
            if isinstance(s.value, ast.Constant):
                return
            self.eval(s.value, env)
        elif isinstance(s, ast.Assign):
            fts = self._fterms_of_assign(s, env)
            if TRACK_CANCEL and any(isinstance(n, ast.BinOp) for n in ast.walk(s.value)):
                try:
                    self.event("arith", s, self.fterm(s.value, env))  # the operation tree as floating point evaluates it
                except AnalysisError:
                    pass
            v = self.eval(s.value, env)
            for t in s.targets:
                self.assign(t, v, env)
            frame = self.fterms.setdefault(id(env), {})
            for t in s.targets:
                for n in ast.walk(t):
                    if isinstance(n, ast.Name):
                        frame.pop(n.id, None)
            for name, ft in fts:
                frame[name] = (ft, env.get(name))
        elif isinstance(s, ast.AnnAssign):
            if s.value is not None:
                self.assign(s.target, self.eval(s.value, env), env)
        elif isinstance(s, ast.AugAssign):
            cur = self.eval(_load(s.target), env)
            ent = getattr(self, "param_items", {}).get(id(cur))
            if ent is not None and ent[0] is cur and isinstance(s.target, ast.Name):
                self.event("param-mutation", s, "in-place %s on %s, which is element %d of the caller's %s: a coordinate given as a 0-d or one-element array is modified in the caller" % (
                    type(s.op).__name__, s.target.id, ent[2], ent[1]))
            v = self.binop(s.op, cur, self.eval(s.value, env), s)
            if isinstance(cur, Arr) and isinstance(s.target, ast.Name):
                # numpy's augmented assignment works in place: every alias of the array sees it, the caller's array included
                if isinstance(cur, SymArr) or cur.meta.get("param") or cur.meta.get("alias_of_param"):
                    self.event("param-mutation", s, "in-place %s on %s, which is (or may be, through np.asarray) the caller's own array" % (
                        type(s.op).__name__, s.target.id))
                    if isinstance(v, Arr):
                        v = v.copy()
                        v.meta = dict(v.meta)
                        v.meta["alias_of_param"] = True
                for k in list(env):
                    if env[k] is cur and k != s.target.id:
                        env[k] = v
            self.assign(s.target, v, env)
        elif isinstance(s, ast.If):
            self.exec_if(s, env)
        elif isinstance(s, ast.For):
            self.exec_for(s, env)
        elif isinstance(s, ast.Return):
            raise _Return(self.eval(s.value, env) if s.value is not None else None)
        elif isinstance(s, ast.Raise):
            if s.exc is None:
                cur = self.handling[-1] if getattr(self, "handling", None) else None
                raise _Raise(s, cur.desc if cur is not None else "re-raise", exc_name=cur.exc_name if cur is not None else None)
            e = s.exc.func if isinstance(s.exc, ast.Call) else s.exc
            raise _Raise(s, self.cur_mod.segment(s.exc), exc_name=(dotted_name(e) or "Exception").split(".")[-1])
        elif isinstance(s, (ast.Import, ast.ImportFrom, ast.Pass, ast.Global, ast.Nonlocal)):
            return
        elif isinstance(s, ast.FunctionDef):
            env[s.name] = FuncRef("closure", s.name, self.cur_mod, s, bound=env)
        elif isinstance(s, ast.With):
            for it in s.items:
                v = self.eval(it.context_expr, env)
                if it.optional_vars is not None:
                    self.assign(it.optional_vars, v, env)
            self.exec_block(s.body, env)
        elif isinstance(s, ast.Try):
            self.exec_try(s, env)
        elif isinstance(s, (ast.Continue, ast.Break)):
            raise _LoopCtl(type(s).__name__, s)
        elif isinstance(s, ast.Assert):
            return
        elif isinstance(s, ast.Delete):
            return
        else:
            raise AnalysisError("%s:%d: statement kind %s not modelled" % (self.cur_mod.name, s.lineno, type(s).__name__))

    def exec_try(self, s, env):
        """try/except/else/finally for modelled exceptions (explicit `raise` statements and faults injected by stubs)"""
        self.event("try", s, "try statement")
        try:
            try:
                self.exec_block(s.body, env)
            except _Raise as r:
                anc = exc_ancestors(r.exc_name)
                chosen = None
                for h in s.handlers:
                    if h.type is None:
                        chosen = h
                        break
                    types = h.type.elts if isinstance(h.type, ast.Tuple) else [h.type]
                    names = {(dotted_name(t) or "?").split(".")[-1] for t in types}
                    if names & set(anc):
                        chosen = h
                        break
                if chosen is None:
                    raise
                self.event("caught", chosen, (r.exc_name, r.desc))
                if chosen.name:
                    env[chosen.name] = Opaque("exception", {"class_name": r.exc_name})
                self.__dict__.setdefault("handling", []).append(r)
                try:
                    self.exec_block(chosen.body, env)
                finally:
                    self.handling.pop()
            else:
                self.exec_block(s.orelse, env)
        except (_Raise, _Return, _LoopCtl):
            self.exec_block(s.finalbody, env)
            raise
        else:
            self.exec_block(s.finalbody, env)

    def assign(self, target, v, env):
        if isinstance(target, ast.Name):
            if isinstance(v, Expr) and len(v.n) >= 2:
                v = alg.define(v, target.id)
            elif isinstance(v, Arr):
                ent = self.view_entry(v)
                if isinstance(v.val, Expr) and len(v.val.n) >= 2 and not isinstance(v, SymArr):
                    v = v.copy(val=alg.define(v.val, target.id))
                if v.name is None:
                    v = v.copy(name=target.id)
                if ent is not None and ent[0] is not v:
                    self.views[id(v)] = (v,) + ent[1:]  # the named copy is the same view
            env[target.id] = v
        elif isinstance(target, (ast.Tuple, ast.List)):
            items = self.unpack(v, len(target.elts), target)
            for t, x in zip(target.elts, items):
                self.assign(t, x, env)
        elif isinstance(target, ast.Subscript):
            self.store_subscript(target, v, env)
        elif isinstance(target, ast.Attribute):
            base = self.eval(target.value, env)
            self.event("attr-store", target, (repr(base), target.attr, v, base))
            if isinstance(base, Opaque):
                base.attrs[target.attr] = v
        elif isinstance(target, ast.Starred):
            raise AnalysisError("starred assignment target not modelled")
        else:
            raise AnalysisError("assignment target %s not modelled" % type(target).__name__)

    def unpack(self, v, n, node):
        if isinstance(v, Tup):
            if len(v.items) != n:
                if v.kind in ("tuple", "list") and not any(isinstance(x, (GenList, Unknown)) for x in v.items):
                    raise raise_exc("ValueError", node, "cannot unpack %d values into %d targets" % (len(v.items), n))
                raise AnalysisError("%s:%d: cannot unpack %d values into %d targets" % (self.cur_mod.name, node.lineno, len(v.items), n))
            return v.items
        if isinstance(v, Arr) and v.ndim == 1 and v.meta.get("elements") is not None and len(v.meta["elements"]) == n:
            return list(v.meta["elements"])
        if isinstance(v, Arr) and v.shape is not None and v.ndim >= 1:
            # unpacking along the first axis of an array (e.g. profiles given as an array)
            return [Unknown("unpack array %s[%d]" % (v.name, k)) for k in range(n)]
        if isinstance(v, Opaque) and "unpack" in v.attrs:
            items = v.attrs["unpack"]
            if len(items) == n:
                return items
        if isinstance(v, Unknown):
            return [Unknown(v.why)] * n
        raise AnalysisError("%s:%d: cannot unpack %r" % (self.cur_mod.name, node.lineno, v))

    def exec_if(self, s, env):
        t = self.eval(s.test, env)
        m = self.membership_guard(t)
        if m is not None:
            self.exec_guarded(s, m, env)
            return
        if self.truth(t):
            self.exec_block(s.body, env)
        else:
            self.exec_block(s.orelse, env)

    # ---- membership-guarded blocks (level bookkeeping idiom)
    def membership_guard(self, t):
        if isinstance(t, Member) and t.levelish:
            return t
        return None

    def exec_guarded(self, s, m, env):
        """`if <x> in <levels>:` -- record the stores it guards (level slots)."""
        if s.orelse:
            self.event("unsupported", s, "else branch on a level-membership test")
        before = dict(env)
        self.guard_stack.append(m)
        try:
            self.exec_block(s.body, env)
        finally:
            self.guard_stack.pop()
        # names rebound inside the guard: only slot counters (+1) are accepted
        for k, v in list(env.items()):
            if k in before and v is before[k]:
                continue
            if isinstance(v, Arr):
                continue  # array stores were recorded by store_subscript
            old = before.get(k)
            if isinstance(v, Expr) and isinstance(old, Expr) and (v - old).eq(ONE):
                self.record_counter(k, old, m, s)
                if self.loop_stack:
                    env[k] = old
            else:
                self.event("unsupported", s, "assignment to %s under a level-membership test" % k)

    def record_counter(self, name, old, m, node):
        if self.loop_stack:
            self.loop_stack[-1].counters[name] = old
        self.event("counter", node, (name, old, m.value))

    # ---- loops
    def _array_loop(self, s, env):
        """`for x in a`, `for i, x in enumerate(a)`, `for x, y in zip(a, b)` over 1-D arrays: the same loop over
        range(len(a)) with the elements read at the loop index -> (rng, index target or None, [(target, array), ...])"""
        it = s.iter
        def arr_of(node):
            try:
                v = self.eval(node, env)
            except AnalysisError:
                return None
            return v if isinstance(v, Arr) and v.ndim == 1 and v.shape is not None and ("gen" in v.meta or isinstance(v, SymArr)) else None
        if isinstance(it, ast.Call) and isinstance(it.func, ast.Name) and it.func.id == "enumerate" and len(it.args) == 1 and not it.keywords and it.func.id not in env:
            a = arr_of(it.args[0])
            if a is not None and isinstance(s.target, ast.Tuple) and len(s.target.elts) == 2 and isinstance(s.target.elts[0], ast.Name):
                return RangeV(ZERO, a.shape[0], ONE), s.target.elts[0], [(s.target.elts[1], a)]
        if isinstance(it, ast.Call) and isinstance(it.func, ast.Name) and it.func.id == "zip" and it.args and not it.keywords and it.func.id not in env:
            arrs = [arr_of(x) for x in it.args]
            if all(a is not None for a in arrs) and isinstance(s.target, ast.Tuple) and len(s.target.elts) == len(arrs):
                return RangeV(ZERO, arrs[0].shape[0], ONE), None, list(zip(s.target.elts, arrs))
        if not isinstance(it, ast.Call):
            a = arr_of(it)
            if a is not None:
                return RangeV(ZERO, a.shape[0], ONE), None, [(s.target, a)]
        return None

    def _check_block_cover(self, arr, idx, node):
        """a block slice [lo(k):hi(k)] stands for the whole axis only if the blocks start at 0 and end at the axis length"""
        if not any(getattr(it, "block", None) for it in idx if isinstance(it, SliceV)) or arr.shape is None:
            return
        try:
            items = self.np._expand_index(self, arr, idx, node)
        except Exception:
            return
        axis = 0
        for it in items:
            if it is None:
                continue
            ctx = getattr(it, "block", None) if isinstance(it, SliceV) else None
            if ctx is not None and axis < len(arr.shape):
                dim = arr.shape[axis]
                first = self.refold(ctx["lo"].subs({ctx["ivar"]: ZERO}))
                last = self.refold(ctx["hi"].subs({ctx["ivar"]: ctx["count"] - ONE}))
                if not (first.is_zero() and last.eq(dim)):
                    key = (repr(first), repr(last), repr(dim))
                    if key not in ctx["reported"]:
                        ctx["reported"].add(key)
                        self.event("partition-gap", node, "the blocks [%r, %r) over k = 0 .. %r - 1 cover [%r, %r) of an axis of length %r" % (ctx["lo"], ctx["hi"], ctx["count"], first, last, dim))
            axis += it.ndim if isinstance(it, Arr) and it.dtype == "bool" else 1

    def _block_loop(self, s, env):
        """`for k in range(B): lo = f(k); hi = f(k + 1); ... x[lo:hi] ...`: the same statements applied block by block to
        disjoint, contiguous shares of an axis.  When every store into an array from outside the loop goes through [lo:hi],
        the loop does to the whole axis what its body does to one block, so the body is followed once with [lo:hi] standing
        for the whole axis (that the shares start at 0 and end at the axis length is checked where they are used)."""
        if not isinstance(s.target, ast.Name) or s.orelse:
            return False
        try:
            rng = self.eval(s.iter, env)
        except AnalysisError:
            return False
        if not isinstance(rng, RangeV) or not rng.start.is_zero() or not rng.step.eq(ONE):
            return False
        dep = {s.target.id}
        cands = []
        for st in s.body:
            if isinstance(st, ast.Assign) and len(st.targets) == 1 and isinstance(st.targets[0], ast.Name) and any(isinstance(n, ast.Name) and n.id in dep for n in ast.walk(st.value)):
                cands.append(st)  # computed from the block index (directly, or from an earlier such name: hi = lo + blk)
                dep.add(st.targets[0].id)
        if len(cands) < 2:
            return False
        assigned = set()  # names bound inside the body (not arrays that are merely stored into)
        for st in s.body:
            for n in ast.walk(st):
                tg = n.targets if isinstance(n, ast.Assign) else [n.target] if isinstance(n, (ast.AugAssign, ast.AnnAssign, ast.For)) else []
                for t in tg:
                    for x in ast.walk(t):
                        if isinstance(x, ast.Name) and isinstance(x.ctx, ast.Store):
                            assigned.add(x.id)
        # every store into an outside array must go through a slice written with the two names
        def slice_names(sub):
            out = []
            items = sub.slice.elts if isinstance(sub.slice, ast.Tuple) else [sub.slice]
            for it in items:
                if isinstance(it, ast.Slice) and isinstance(it.lower, ast.Name) and isinstance(it.upper, ast.Name) and it.step is None:
                    out.append((it.lower.id, it.upper.id))
            return out
        pairs = set()
        for st in s.body:
            for n in ast.walk(st):
                if isinstance(n, (ast.Assign, ast.AugAssign)):
                    for t in (n.targets if isinstance(n, ast.Assign) else [n.target]):
                        if isinstance(t, ast.Subscript) and isinstance(t.value, ast.Name) and t.value.id not in assigned:
                            sn = slice_names(t)
                            if not sn:
                                return False
                            pairs.update(sn)
                        elif isinstance(t, ast.Name) and isinstance(n, ast.AugAssign) and t.id not in assigned:
                            return False
        if len(pairs) != 1:
            return False
        lo_name, hi_name = next(iter(pairs))
        by_name = {st.targets[0].id: st for st in cands}
        if lo_name not in by_name or hi_name not in by_name:
            return False
        self._loop_ids += 1
        ivar = alg._atom("sym", "b#%d" % self._loop_ids, (), pos=False, real=True, integer=True)
        k = alg.atom_expr(ivar)
        self.facts.refine(k, {"0", "+"})
        self.facts.refine((k - rng.count + ONE).expand(), {"-", "0"})
        e2 = dict(env)
        e2[s.target.id] = k
        n_ev = len(self.events)
        try:
            for st in cands:
                e2[st.targets[0].id] = self.eval(st.value, e2)
            lo, hi = e2[lo_name], e2[hi_name]
        except AnalysisError:
            return False
        if not (isinstance(lo, Expr) and isinstance(hi, Expr)):
            return False
        if not self.refold(lo.subs({ivar: k + ONE})).eq(self.refold(hi)):
            return False
        for ev in self.events[n_ev:]:
            if ev[0] == "rounding" and "Div" in repr(ev[2][1]):
                self.event("fragile-partition", s, "the cut points %s are truncated floating point products: where the exact value is an integer (at the end of the axis) it can be computed as one ulp less, and int() then drops the last entry" % self.fterm_str(ev[2][1]))
        before = set(env)
        env[s.target.id] = k
        ctx = {"lo": lo, "hi": hi, "ivar": ivar, "count": rng.count, "reported": set()}
        self.__dict__.setdefault("block_ctx", []).append(ctx)
        try:
            self.exec_block(s.body, env)
        finally:
            self.block_ctx.pop()
        for nm in assigned | {s.target.id}:
            if nm in env:
                if nm in before:
                    env[nm] = Unknown("%s as the last block left it" % nm)
                else:
                    del env[nm]
        self.event("block-loop", s, (lo, hi, rng.count))
        return True

    def exec_for(self, s, env):
        if self._block_loop(s, env):
            return
        al = self._array_loop(s, env)
        if al is not None:
            self.exec_range_loop(s, al[0], env, index_target=al[1], elements=al[2])
            return
        it = self.eval(s.iter, env)
        if isinstance(it, Tup) and it.kind == "iterator":
            it = self.np.consume(it)
        if isinstance(it, RangeV):
            self.exec_range_loop(s, it, env)
            return
        # generic iteration: run the body once on a generic element, havoc rebinding
        elems = None
        if isinstance(it, Tup):
            elems = it.items
        if elems is not None and any(isinstance(x, GenList) for x in elems):
            elems = None  # a list known through its generic element: one generic iteration below
        if elems is not None and len(elems) <= 16:
            broke = False
            for x in elems:
                self.assign(s.target, x, env)
                try:
                    self.exec_block(s.body, env)
                except _LoopCtl as c:
                    if c.kind == "Break":
                        broke = True
                        break
            if not broke:
                self.exec_block(s.orelse, env)
            return
        if isinstance(it, Tup) and it.kind != "dict" and len(it.items) == 1 and isinstance(it.items[0], GenList) and not self.loop_stack_uses(it.items[0].ivar):
            # a list known through its generic element: the loop over its positions, the target bound to the generic element
            g = it.items[0]
            self.exec_range_loop(s, g.rng, env, index_target=None, elements=(), gen=g)
            return
        before = dict(env)
        gen = Unknown("element of %s" % (ast.dump(s.iter)[:40],))
        if isinstance(it, Arr):
            gen = it.val
        self.assign(s.target, gen, env)
        self.generic_depth = getattr(self, "generic_depth", 0) + 1
        try:
            self.exec_block(s.body, env)
        except _LoopCtl as c:
            raise AnalysisError("%s:%d: %s in a loop that is summarised by one generic iteration is not modelled" % (self.cur_mod.name, c.node.lineno, c.kind.lower()))
        finally:
            self.generic_depth -= 1
        for k, v in list(env.items()):
            if k in before and v is not before[k] and not isinstance(v, Arr):
                env[k] = Unknown("loop-carried %s" % k)

    def loop_stack_uses(self, ivar):
        return any(L.ivar is ivar for L in self.loop_stack)

    def _recurrence_rewrite(self, s, rng, env):
        """`a[i + 1] = F(a[i], i)` inside `for i in range(...)`, with `a` read nowhere else in the body: a first-order recurrence
        kept in an array.  -> (loop with the array accesses replaced by one carried scalar, [(array name, scalar name)]) or None"""
        if not isinstance(s.target, ast.Name) or not rng.step.eq(ONE):
            return None
        iname = s.target.id
        cands = {}
        for st in s.body:
            for n in ast.walk(st):
                if isinstance(n, (ast.Assign, ast.AugAssign)):
                    tg = n.targets if isinstance(n, ast.Assign) else [n.target]
                    for t in tg:
                        if isinstance(t, ast.Subscript) and isinstance(t.value, ast.Name):
                            cands.setdefault(t.value.id, []).append((n, t))
        out = []
        for name, stores in cands.items():
            arr = env.get(name)
            if not isinstance(arr, Arr) or isinstance(arr, SymArr) or arr.ndim != 1 or arr.meta.get("param") or len(stores) != 1:
                continue
            n, t = stores[0]
            if not isinstance(n, ast.Assign) or len(n.targets) != 1:
                continue
            ix = t.slice
            nxt = (isinstance(ix, ast.BinOp) and isinstance(ix.op, ast.Add) and (
                (isinstance(ix.left, ast.Name) and ix.left.id == iname and isinstance(ix.right, ast.Constant) and ix.right.value == 1) or
                (isinstance(ix.right, ast.Name) and ix.right.id == iname and isinstance(ix.left, ast.Constant) and ix.left.value == 1)))
            if not nxt:
                continue
            reads = [x for st in s.body for x in ast.walk(st) if isinstance(x, ast.Name) and x.id == name and isinstance(x.ctx, ast.Load)]
            parents = {}
            for st in s.body:
                for p in ast.walk(st):
                    for ch in ast.iter_child_nodes(p):
                        parents[id(ch)] = p
            ok = True
            for r in reads:
                p = parents.get(id(r))
                if p is t:
                    continue
                if not (isinstance(p, ast.Subscript) and p.value is r and isinstance(p.slice, ast.Name) and p.slice.id == iname and isinstance(p.ctx, ast.Load)):
                    ok = False
            if not ok or not reads:
                continue
            init = self.np.load(self, arr, [rng.start], s, env)
            if not isinstance(init, Expr):
                continue
            out.append((name, "_rec_" + name, init))
        if not out:
            return None
        import copy

        names = {a: b for a, b, _ in out}

        class Rw(ast.NodeTransformer):
            def visit_Subscript(self, node):
                if isinstance(node.value, ast.Name) and node.value.id in names:
                    return ast.copy_location(ast.Name(id=names[node.value.id], ctx=node.ctx), node)
                return self.generic_visit(node)

        s2 = copy.copy(s)
        s2.body = [ast.fix_missing_locations(Rw().visit(copy.deepcopy(st))) for st in s.body]
        return s2, out

    def exec_range_loop(self, s, rng, env, index_target="target", elements=(), gen=None):
        if index_target == "target" and gen is None and not elements and not getattr(s, "_rec_done", False):
            rw = self._recurrence_rewrite(s, rng, env)
            if rw is not None:
                s2, recs = rw
                s2._rec_done = True
                for name, sc, init in recs:
                    env[sc] = init
                    if (env[name].dtype or "") in self.np.NARROW_DTYPES:
                        self.event("narrowing-cast", s, "the recurrence for %s is carried through %s storage: every step of the accumulation is rounded to single precision, not only the result" % (name, env[name].dtype))
                self.exec_range_loop(s2, rng, env)
                L = self.loops[-1] if self.loops and self.loops[-1].node is s2 else None
                for name, sc, init in recs:
                    arr = env[name]
                    new = arr.copy()
                    new.meta = {k: v for k, v in arr.meta.items() if k not in ("points", "partial_store", "gen")}
                    st_at = getattr(L, "state_at", None) if L is not None and getattr(L, "linear", False) else None
                    if st_at is not None and sc in (L.state or []):
                        # entry k is the carried value at the head of iteration k (k = start .. stop)
                        g = lambda k, st_at=st_at, sc=sc: (st_at(k) or {}).get(sc)
                        probe = g(alg.fn("idx", arr.shape[0], integer=True))
                        if isinstance(probe, Expr):
                            new.meta["gen"] = g
                            new.val = probe
                        else:
                            new.val = Unknown("%s filled by a recurrence that is not summarised" % name)
                    elif isinstance(env.get(sc), Expr) and env[sc].eq(init):
                        new.val = init  # never changed
                    else:
                        new.val = Unknown("%s filled by a recurrence that is not summarised" % name)
                    env.pop(sc, None)
                    for k in list(env):
                        if env[k] is arr:
                            env[k] = new
                return
        if index_target == "target":
            index_target = s.target
            if not isinstance(s.target, ast.Name):
                raise AnalysisError("range loop with non-name target")
        idx_name = index_target.id if index_target is not None else "<index of loop at line %d>" % s.lineno
        self._loop_ids += 1
        L = LoopSummary(self._loop_ids, s, rng, self.cur_mod.name, self.cur_fn.name if self.cur_fn else "?")
        ivar = alg._atom("sym", "i#%d" % L.id, (), pos=False, real=True, integer=True) if gen is None else gen.ivar
        L.ivar = ivar
        i_expr = rng.start + alg.atom_expr(ivar) * rng.step
        assigned = _assigned_names(s.body)
        elem_names = {x.id for t, _ in elements for x in ast.walk(t) if isinstance(x, ast.Name)}
        if gen is not None:
            elem_names |= {x.id for x in ast.walk(s.target) if isinstance(x, ast.Name)}
        carried = [k for k in sorted(assigned) if k in env and k != idx_name and k not in elem_names]
        head = {}
        for k in carried:
            v = env[k]
            if isinstance(v, Expr):
                a = alg._atom("sym", "%s@L%d" % (k, L.id), (), pos=False)
                head[k] = (a, v)
                env[k] = alg.atom_expr(a)
            elif isinstance(v, Arr) and isinstance(v.val, Expr) and not _stored_names(s.body) & {k}:
                a = alg._atom("sym", "%s@L%d" % (k, L.id), (), pos=False)
                head[k] = (a, v)
                env[k] = v.copy(val=alg.atom_expr(a))
            # arrays that are only stored into keep their value (stores are recorded)
        # arrays that exist before the loop and are both stored into and read in the body carry their contents from one
        # iteration to the next: the single generic iteration cannot know them
        stored = _stored_names(s.body)
        rebound = {x.id for st in s.body for n in ast.walk(st) if isinstance(n, (ast.Assign, ast.AnnAssign)) for t in (n.targets if isinstance(n, ast.Assign) else [n.target]) for x in [t] if isinstance(x, ast.Name)}
        for k in sorted(stored - rebound):
            v = env.get(k)
            if not isinstance(v, Arr) or isinstance(v, SymArr):
                continue
            if _read_in_body(s.body, k) and not v.meta.get("table_by_loop") and level_axis_of(v) is None:
                nv = v.copy(val=Unknown("contents of %s carried from earlier iterations of the loop at line %d" % (k, s.lineno)))
                nv.meta = dict(v.meta)
                nv.meta["carried"] = (k, s.lineno)
                env[k] = nv
        L.head = head
        env[idx_name] = i_expr
        for tgt, arr in elements:
            self.assign(tgt, self.np.load(self, arr, [i_expr], s, env), env)
        if gen is not None:
            self.assign(s.target, gen.elem, env)
        self.loop_stack.append(L)
        try:
            self.exec_block(s.body, env)
        except _LoopCtl as c:
            if c.kind != "Continue":
                raise AnalysisError("%s:%d: %s in a range loop is not modelled" % (self.cur_mod.name, c.node.lineno, c.kind.lower()))
            # `continue` ends the generic iteration on this path
            self.event("loop-continue", c.node, L.id)
        finally:
            self.loop_stack.pop()
        if s.orelse:
            self.exec_block(s.orelse, env)
        # transfer function
        new = {}
        for k, (a, init) in head.items():
            v = env.get(k)
            nv = v.val if isinstance(v, Arr) else v
            if not isinstance(nv, Expr):
                new[k] = None
            else:
                new[k] = nv
        # definitions that hide carried state are expanded before the transfer is read off
        hset = {a for a, _ in head.values()}
        memo = {}

        def mentions_head(atom):
            r = memo.get(atom.id)
            if r is None:
                r = bool(hset & atom.args[0].atoms()) or L.ivar in atom.args[0].atoms() and False
                memo[atom.id] = r
            return r

        for k in list(new):
            if isinstance(new[k], Expr):
                new[k] = new[k].expand(mentions_head)
        L.new = new
        self.summarise(L, env)
        self.loops.append(L)

    def summarise(self, L, env):
        head = L.head
        names = [k for k in head if k not in L.counters]
        hatoms = {k: head[k][0] for k in head}
        state = []
        for k in names:
            nv = L.new[k]
            if nv is None:
                env[k] = Unknown("loop-carried %s not algebraic" % k)
                continue
            if nv.eq(alg.atom_expr(hatoms[k])):
                # unchanged: restore the initial value
                env[k] = head[k][1]
                continue
            state.append(k)
        L.state = state
        N = L.rng.count
        # matrix / offset extraction
        M, b, ok = {}, {}, True
        hs = [hatoms[k] for k in state]
        allh = list(hatoms.values())
        for r in state:
            nv = L.new[r]
            rest = nv
            for c in state:
                h = hatoms[c]
                if nv.powers_of(h) - {Q(0), Q(1)}:
                    ok = False
                co = nv.coeff_of(h, 1)
                M[(r, c)] = co
                rest = rest - co * alg.atom_expr(h)
            b[r] = rest
            for x in list(M.values()) + [rest]:
                if any(h in x.atoms() for h in allh if h not in [hatoms[k] for k in L.counters]):
                    ok = False
        L.matrix, L.offset, L.linear = M, b, ok
        for k in L.counters:
            env[k] = alg.fn("count", alg.const(L.id), integer=True)
        if not ok:
            for k in state:
                env[k] = Unknown("loop %d: transfer of %s not linear in the carried state" % (L.id, k))
            self.event("loop-nonlinear", L.node, state)
            return
        L.sig = loop_signature([M[(r, c)].subs({L.ivar: (IOTA() - L.rng.start) / L.rng.step}) for r in state for c in state])
        ident = all(M[(r, c)].eq(ONE if r == c else ZERO) for r in state for c in state)
        homog = all(b[r].is_zero() for r in state)
        L.kind = "accumulate" if ident else ("linear" if homog else "affine")

        def state_at(level):
            """value of each state variable at the head of iteration `level`"""
            out = {}
            for r in state:
                a0, init = head[r]
                initv = init.val if isinstance(init, Arr) else init
                if L.kind == "accumulate":
                    out[r] = initv + self._psum(L, b[r], level)
                elif L.kind == "linear":
                    tot = ZERO
                    for c in state:
                        ic = head[c][1]
                        icv = ic.val if isinstance(ic, Arr) else ic
                        if isinstance(icv, Expr) and icv.is_zero():
                            continue
                        if not isinstance(icv, Expr):
                            return None
                        tot = tot + phi_atom(L.sig, state.index(r), state.index(c), level) * icv
                    out[r] = tot
                else:
                    return None
            return out

        L.state_at = state_at
        fin = state_at(N)
        for r in state:
            init = head[r][1]
            if fin is None or not isinstance(fin.get(r), Expr):
                env[r] = Unknown("loop %d: affine recurrence for %s not summarised" % (L.id, r))
                continue
            env[r] = init.copy(val=fin[r]) if isinstance(init, Arr) else fin[r]
        # resolve level-store placeholders state(L, var, level) in arrays
        self._resolve_level_placeholders(L, env)

    def _psum(self, L, term, upto):
        return psum(term, L.ivar, L.rng.start, upto)



    def _resolve_level_placeholders(self, L, env):
        if not L.level_stores:
            return
        for ls in L.level_stores:
            arr = env.get(ls.array)
            if not isinstance(arr, Arr):
                continue
            pend = arr.meta.get("pending_level")
            if not pend:
                continue
            newpend = []
            for (lid, pt, val, lev) in pend:
                if lid != L.id:
                    newpend.append((lid, pt, val, lev))
                    continue
                st = L.state_at(lev) if L.linear and getattr(L, "state_at", None) else None
                mapping = {}
                good = st is not None
                if good:
                    for k, (a, init) in L.head.items():
                        if k in st:
                            mapping[a] = st[k]
                        elif k in L.counters:
                            pass
                        else:
                            mapping[a] = init.val if isinstance(init, Arr) else init
                    mapping[L.ivar] = (lev - L.rng.start) / L.rng.step
                    try:
                        v2 = val.subs(mapping) if isinstance(val, Expr) else val
                    except Exception as e:  # pragma: no cover
                        v2 = Unknown("level placeholder: %s" % e)
                else:
                    v2 = Unknown("level store in a loop that could not be summarised")
                if pt == self.ctx_point():
                    arr = arr.copy(val=v2)
                    arr.meta["level_written"] = True
                    arr.meta.pop("lvl0", None)
            arr.meta["pending_level"] = newpend
            env[ls.array] = arr

    def ctx_point(self):
        return self.ctx

    # ---- subscript stores
    def store_subscript(self, target, v, env):
        base = target.value
        if (isinstance(base, ast.Call) and isinstance(base.func, ast.Attribute) and base.func.attr in ("ravel", "reshape") and isinstance(base.func.value, ast.Name)
                and isinstance(env.get(base.func.value.id), Arr) and not base.keywords):
            # x.ravel()[i] = v / x.reshape(-1)[i] = v: a store into x itself when the flat array is a view, which it is for
            # C-contiguous memory; for any other layout ravel() hands out a copy and the store never reaches x
            owner = env[base.func.value.id]
            flat = self.eval(base, env)
            if isinstance(flat, Arr) and flat.ndim == 1 and owner.shape is not None:
                if owner.meta.get("layout_of") or isinstance(owner, SymArr) or owner.meta.get("param"):
                    self.event("layout", target, "%s: the flattened array is a view only when %s is C-contiguous, and its memory layout follows the caller's array %s; for a transposed or Fortran-ordered one the store goes into a copy and is lost" % (
                        ast.unparse(target)[:50], base.func.value.id, owner.meta.get("layout_of") or owner.name))
                if owner.meta.get("c_order") or owner.meta.get("layout_of"):
                    idx = self.eval_index(target.slice, env)
                    newflat = self.np.store(self, flat, idx, v, target, env)
                    if isinstance(newflat, Arr):
                        new = Arr(owner.shape, newflat.val, owner.dtype, dict(owner.meta))
                        new.meta["flat_of"] = newflat
                        for k in list(env):
                            if env[k] is owner:
                                env[k] = new
                        return
        if not isinstance(base, ast.Name):
            try:
                arr = self.eval(base, env)
            except AnalysisError:
                arr = None
            if isinstance(arr, Tup) and arr.kind == "dict":
                self._dict_store(arr, self.eval(target.slice, env), v, target)
                return
            if isinstance(arr, Opaque):
                self.event("item-store", target, (ast.unparse(base), self.eval(target.slice, env), v, arr))
                return
            self.event("unsupported", target, "store into non-name base")
            return
        arr = env.get(base.id)
        if base.id not in env:
            try:
                arr = self.lookup_global(base.id, target)  # module-level container
            except AnalysisError:
                arr = None
        if isinstance(arr, Opaque):
            self.event("item-store", target, (base.id, self.eval(target.slice, env), v, arr))
            return
        if isinstance(arr, Tup) and arr.kind == "dict":
            self._dict_store(arr, self.eval(target.slice, env), v, target)
            return
        if isinstance(arr, Tup) and arr.kind == "list":
            self.note_table_write(arr, target, "item store")
            k = self.eval(target.slice, env)
            c = k.as_const() if isinstance(k, Expr) else None
            if c is not None and c.im == 0 and c.re.denominator == 1 and -len(arr.items) <= c.re < len(arr.items):
                arr.items[int(c.re)] = v  # in place: every alias of the list sees it
                return
            unk = Unknown("%s: a list after a store at a position that is not a known integer" % base.id)
            for kk in list(env):
                if env[kk] is arr:
                    env[kk] = unk
            return
        if not isinstance(arr, Arr):
            self.event("unsupported", target, "store into %r" % (arr,))
            if base.id in env:
                env[base.id] = Unknown("%s after a store that is not modelled" % base.id)
            return
        if isinstance(arr, SymArr) or arr.meta.get("param"):
            self.event("param-mutation", target, "store into the caller's array %s" % (arr.meta.get("param") or arr.name))
        if self.view_base(arr) is not None:
            # the store changes the array the view was taken from
            self.store_through_view(target, arr, v, env)
            return
        idx = self.eval_index(target.slice, env)
        self._check_block_cover(arr, idx, target)
        new = self.np.store(self, arr, idx, v, target, env)
        if new is not None:
            self.refresh_views(env, arr, new)
            for k in list(env):
                if env[k] is arr:
                    env[k] = new  # every alias of the mutated array sees the store
            env[base.id] = new
            self._rebind_in_containers(env, arr, new)

    def _as_view(self, r, base, recompute=None, kind=("other",)):
        if r is base:
            r = r.copy()
        self.views[id(r)] = (r, base, recompute, kind)
        return r

    def view_entry(self, arr):
        ent = self.views.get(id(arr))
        return ent if ent is not None and ent[0] is arr else None

    def view_base(self, arr):
        ent = self.view_entry(arr)
        return ent[1] if ent is not None else None

    def view_chain(self, arr):
        """[(view, base, recompute, kind), ...] from arr up to the array that owns the memory"""
        out = []
        cur = arr
        while True:
            ent = self.view_entry(cur)
            if ent is None:
                return out
            out.append(ent)
            cur = ent[1]

    def refresh_views(self, env, old, new):
        """after `old` became `new` (a store), every view taken from it - directly or through other views - is re-read"""
        for k in list(env):
            v = env[k]
            if not isinstance(v, Arr):
                continue
            chain = self.view_chain(v)
            pos = [i for i, ent in enumerate(chain) if ent[1] is old]
            if not pos:
                continue
            cur = new
            ok = True
            for ent in reversed(chain[: pos[0] + 1]):
                if ent[2] is None:
                    ok = False
                    break
                nxt = ent[2](cur)
                if not isinstance(nxt, Arr):
                    ok = False
                    break
                if nxt is cur:
                    nxt = nxt.copy()
                self.views[id(nxt)] = (nxt, cur, ent[2], ent[3])
                cur = nxt
            if ok and v.name is not None and cur.name is None:
                ent = self.views[id(cur)]
                cur = cur.copy(name=v.name)
                self.views[id(cur)] = (cur,) + ent[1:]
            env[k] = cur if ok else Unknown("%s: a view of an array that was modified after the view was taken" % k)

    def store_through_view(self, target, arr, v, env):
        """a[...] = v where a is a view: only the (levels, flattened non-mean modes) view of a (levels, ny, nx) spectrum is
        modelled - it is the store  base[levels, every mode but the mean mode] = v"""
        chain = self.view_chain(arr)
        kinds = [ent[3][0] for ent in chain]
        root = chain[-1][1]
        if kinds != ["nonmean", "flatmerge"] or root.ndim != 3:
            raise AnalysisError("%s:%d: store through %s, a view of %s: this kind of write through a view is not modelled" % (
                self.cur_mod.name, target.lineno, ast.unparse(target.value), root.name or "another array"))
        idx = self.eval_index(target.slice, env)
        if len(idx) == 1 and idx[0] is Ellipsis:
            lvl = SliceV(None, None, None)
        elif len(idx) == 1 and (isinstance(idx[0], Expr) or (isinstance(idx[0], SliceV) and idx[0].is_full())):
            lvl = idx[0]
        elif len(idx) == 2 and isinstance(idx[1], SliceV) and idx[1].is_full() and (isinstance(idx[0], Expr) or (isinstance(idx[0], SliceV) and idx[0].is_full())):
            lvl = idx[0]
        else:
            raise AnalysisError("%s:%d: index %s on a view of flattened modes is not modelled" % (self.cur_mod.name, target.lineno, ast.unparse(target.slice)))
        mask = Arr((root.shape[1], root.shape[2]), self.ctx != "mean", "bool", {"ident": "nonmean", "count_dim": arr.shape[-1]})
        new = self.np.store(self, root, [lvl, mask], v, target, env)
        if new is None:
            return
        for k in list(env):
            if env[k] is root:
                env[k] = new
        self._rebind_in_containers(env, root, new)
        self.refresh_views(env, root, new)

    def note_table_write(self, b, node, how):
        mo = getattr(b, "module_origin", None)
        if mo is not None:
            self.event("module-table-write", node, "%s of the module-level table %s.%s: it is one object for the life of the process, so what this call leaves in it is seen by the next" % (how, mo[0], mo[1]))

    def _dict_store(self, arr, key, v, target):
        self.note_table_write(arr, target, "item store")
        if self.loop_stack:
            # a dictionary filled inside a loop carries state from one iteration to the next
            self.event("loop-dict-store", target, (key, v, self.loop_stack[-1], id(arr)))
        if getattr(self, "generic_depth", 0) and not self.loop_stack:
            arr.items.append((Unknown("the keys stored in a loop that is followed for one generic element only"), Unknown("their values")))
            return
        for i, (k, _) in enumerate(arr.items):
            if key_equal(k, key):
                arr.items[i] = (key, v)
                return
        arr.items.append((key, v))

    def _rebind_in_containers(self, env, old, new):
        for v in env.values():
            if isinstance(v, Tup):
                for i, x in enumerate(v.items):
                    if x is old:
                        v.items[i] = new

    def eval_index(self, node, env):
        if isinstance(node, ast.Tuple):
            return [self.eval_index_item(e, env) for e in node.elts]
        it = self.eval_index_item(node, env)
        if isinstance(it, Tup) and it.kind == "tuple" and all(isinstance(x, (Expr, SliceV, Arr)) or x is None or x is Ellipsis for x in it.items):
            return list(it.items)  # a[t] with t a tuple indexes one axis per entry
        return [it]

    def eval_index_item(self, e, env):
        if isinstance(e, ast.Slice) and getattr(self, "block_ctx", None) and e.step is None and e.lower is not None and e.upper is not None:
            lo, hi = self.eval(e.lower, env), self.eval(e.upper, env)
            ctx = self.block_ctx[-1]
            if isinstance(lo, Expr) and isinstance(hi, Expr) and lo.eq(ctx["lo"]) and hi.eq(ctx["hi"]):
                sl = SliceV(None, None, None)  # this block's share of the axis: all of it, once every block has had its turn
                sl.block = ctx
                return sl
            return SliceV(lo, hi, None)
        if isinstance(e, ast.Slice):
            return SliceV(
                self.eval(e.lower, env) if e.lower is not None else None,
                self.eval(e.upper, env) if e.upper is not None else None,
                self.eval(e.step, env) if e.step is not None else None,
            )
        if isinstance(e, ast.Constant) and e.value is Ellipsis:
            return Ellipsis
        v = self.eval(e, env)
        return v

    # ---- expressions
    def eval(self, node, env):
        meth = getattr(self, "ev_" + type(node).__name__, None)
        if meth is None:
            raise AnalysisError("%s:%d: expression kind %s not modelled" % (self.cur_mod.name, getattr(node, "lineno", 0), type(node).__name__))
        return meth(node, env)

    def ev_Constant(self, node, env):
        v = node.value
        if isinstance(v, bool) or v is None or isinstance(v, str):
            return v
        if isinstance(v, int):
            return alg.const(v)
        if isinstance(v, float):
            seg = self.cur_mod.segment(node).replace("_", "")
            try:
                return alg.const(Q(seg))
            except (ValueError, ZeroDivisionError):
                return alg.const(Q(repr(v)))
        if isinstance(v, complex):
            seg = self.cur_mod.segment(node).replace("_", "").rstrip("jJ")
            try:
                im = Q(seg)
            except ValueError:
                im = Q(repr(v.imag))
            return alg.IMAG * alg.const(im)
        if v is Ellipsis:
            return Ellipsis
        if isinstance(v, bytes):
            return Opaque("bytes")
        raise AnalysisError("constant %r not modelled" % (v,))

    def ev_Name(self, node, env):
        name = node.id
        if name in env:
            return env[name]
        fn = getattr(self, "cur_fn", None)
        if fn is not None and isinstance(node.ctx, ast.Load) and _bound_only_under_ifs(fn, name):
            # a local that this path did not assign (its assignments all sit in branches the path did not take)
            raise raise_exc("UnboundLocalError", node, "local variable %s is read on a path that did not assign it" % name)
        return self.lookup_global(name, node)

    def lookup_global(self, name, node=None):
        fnenv = getattr(self, "closure_env", None)
        if fnenv and name in fnenv:
            return fnenv[name]
        m = self.cur_mod
        if name in (self.cur_imports or {}):
            return self.resolve_dotted(self.cur_imports[name])
        if name in m.functions:
            return FuncRef("pkg", m.name + "." + name, m, m.functions[name])
        if name in m.classes:
            return FuncRef("class", m.name + "." + name, m, m.classes[name])
        if name in m.imports:
            return self.resolve_dotted(m.imports[name])
        if name in m.assigns:
            return self.module_const(m, name)
        if name in BUILTINS:
            return FuncRef("builtin", name)
        if name in ("True", "False", "None"):
            return {"True": True, "False": False, "None": None}[name]
        raise AnalysisError("%s:%s: unbound name %s" % (m.name, getattr(node, "lineno", "?"), name))

    def module_const(self, m, name):
        node = m.assigns[name]
        if isinstance(node, ast.Constant):
            v = node.value
            if isinstance(v, (int, float)) and not isinstance(v, bool):
                saved = self.cur_mod
                self.cur_mod = m
                try:
                    val = self.ev_Constant(node, {})
                finally:
                    self.cur_mod = saved
                if name.isupper() and not name.startswith("_"):
                    # public upper-case module variables are runtime settings: symbolic
                    return alg.sym("%s.%s" % (m.name, name))
                return val
            return v
        # module-level containers: one object per abstract run (a solve in a fresh process)
        if isinstance(node, (ast.Dict, ast.List, ast.Set)) and not (getattr(node, "keys", None) or getattr(node, "elts", None)):
            st = self.__dict__.setdefault("modstate", {})
            key = (m.name, name)
            if key not in st:
                st[key] = Tup([], "dict" if isinstance(node, ast.Dict) else "list") if not isinstance(node, ast.Set) else SetV([])
            return st[key]
        if isinstance(node, ast.Call) and (dotted_name(node.func) or "").split(".")[-1] in ("dict", "OrderedDict") and not node.args and not node.keywords:
            st = self.__dict__.setdefault("modstate", {})
            return st.setdefault((m.name, name), Tup([], "dict"))
        if isinstance(node, ast.Call) and (dotted_name(node.func) or "").split(".")[-1] == "namedtuple" and len(node.args) >= 2 and not node.keywords:
            # collections.namedtuple("Name", fields): a tuple class with named fields
            spec = node.args[1]
            names = None
            if isinstance(spec, ast.Constant) and isinstance(spec.value, str):
                names = spec.value.replace(",", " ").split()
            elif isinstance(spec, (ast.List, ast.Tuple)) and all(isinstance(e, ast.Constant) and isinstance(e.value, str) for e in spec.elts):
                names = [e.value for e in spec.elts]
            if names:
                st = self.__dict__.setdefault("modstate", {})
                return st.setdefault((m.name, name), Opaque("namedtuple-class", {"fields": names, "typename": name}))
        if isinstance(node, (ast.Tuple, ast.List, ast.Dict, ast.Set)) and all(
                isinstance(x, (ast.Constant, ast.Tuple, ast.List, ast.Dict, ast.Set, ast.UnaryOp, ast.Load, ast.USub, ast.UAdd, ast.Attribute, ast.Name)) for x in ast.walk(node)):
            # literal table: tuples are immutable values, the mutable kinds are one object per abstract run
            st = self.__dict__.setdefault("modstate", {})
            key = (m.name, name)
            if key not in st:
                saved = self.cur_mod
                self.cur_mod = m
                try:
                    st[key] = self.eval(node, {})
                    if isinstance(st[key], Tup) and st[key].kind in ("list", "dict"):
                        st[key].module_origin = (m.name, name)  # treated as a constant table: a write to it is reported
                except AnalysisError:
                    st[key] = Opaque("%s.%s" % (m.name, name))
                finally:
                    self.cur_mod = saved
            return st[key]
        return Opaque("%s.%s" % (m.name, name))

    def resolve_dotted(self, dotted):
        r = self.P.resolve(self.cur_mod.name, dotted)
        if r[0] == "func":
            return FuncRef("pkg", r[1].name + "." + r[2].name, r[1], r[2])
        if r[0] == "class":
            return FuncRef("class", r[1].name + "." + r[2].name, r[1], r[2])
        if r[0] == "module":
            return ModRef(r[1])
        if r[0] == "const":
            for nm, nd in r[1].assigns.items():
                if nd is r[2]:
                    return self.module_const(r[1], nm)
        if r[0] == "ext":
            d = r[1]
            if d.split(".")[0] in EXT_MODULES:
                if d in EXT_CONSTS:
                    return EXT_CONSTS[d]()
                return ModRef(d) if d in EXT_MODULES_FULL else FuncRef("ext", d)
            return FuncRef("ext", d)
        return Opaque(dotted)

    def ev_Attribute(self, node, env):
        base = self.eval(node.value, env)
        return self.getattr(base, node.attr, node)

    def getattr(self, base, attr, node):
        if isinstance(base, ModRef):
            d = base.dotted + "." + attr
            if base.dotted in self.P.modules:
                m = self.P.modules[base.dotted]
                saved = self.cur_mod
                self.cur_mod = m
                try:
                    return self.lookup_global(attr, node)
                finally:
                    self.cur_mod = saved
            if d in EXT_CONSTS:
                return EXT_CONSTS[d]()
            if d in EXT_MODULES_FULL:
                return ModRef(d)
            return FuncRef("ext", d)
        if isinstance(base, Arr):
            return self.np.arr_attr(self, base, attr, node)
        if isinstance(base, Expr):
            if attr == "real":
                return self.np.real_part(base)
            if attr in ("shape",):
                return Tup([])
            return FuncRef("method", attr, bound=base)
        if isinstance(base, Opaque):
            if attr in base.attrs:
                return base.attrs[attr]
            cls = base.attrs.get("__class__")
            if cls is not None:
                m, c = cls
                for n in c.body:
                    if isinstance(n, ast.FunctionDef) and n.name == attr and any(dotted_name(d) == "property" for d in n.decorator_list):
                        fr = FuncRef("pkg", m.name + "." + c.name + "." + attr, m, n)
                        return self.call_package(fr, [base], {}, node)
                    if isinstance(n, ast.FunctionDef) and n.name == attr:
                        return FuncRef("method", base.name + "." + attr, bound=base)
                    if isinstance(n, ast.Assign) and any(isinstance(t, ast.Name) and t.id == attr for t in n.targets):
                        # class-level constant
                        saved_mod = self.cur_mod
                        self.cur_mod = m
                        try:
                            return self.eval(n.value, {})
                        finally:
                            self.cur_mod = saved_mod
                if base.attrs.get("__strict__") and not c.bases and not attr.startswith("__"):
                    # an instance of a class of the package, all of whose fields, methods and constants are known
                    raise raise_exc("AttributeError", node, "%s (a %s) has no attribute %s" % (base.name, c.name, attr))
                if base.attrs.get("__strict__"):
                    raise AnalysisError("%s:%s: %s has no attribute %s" % (self.cur_mod.name, getattr(node, "lineno", "?"), base.name, attr))
            return FuncRef("method", base.name + "." + attr, bound=base)
        if isinstance(base, Tup) and attr in (getattr(base, "fields", None) or ()):
            return base.items[base.fields.index(attr)]  # a named tuple's field
        if isinstance(base, (Tup, str, SetV)):
            return FuncRef("method", attr, bound=base)
        if isinstance(base, FuncRef) and base.kind == "class" and base.node is not None:
            # Class.method: a classmethod is called with the class itself as its first argument, a staticmethod with none
            for n in base.node.body:
                if isinstance(n, ast.FunctionDef) and n.name == attr:
                    decs = {(dotted_name(d) or "").split(".")[-1] for d in n.decorator_list}
                    fr = FuncRef("pkg", base.dotted + "." + attr, base.module, n)
                    if "classmethod" in decs:
                        return FuncRef("partial", base.dotted + "." + attr, bound=(fr, [base], {}))
                    return fr
                if isinstance(n, ast.Assign) and any(isinstance(t, ast.Name) and t.id == attr for t in n.targets):
                    saved_mod = self.cur_mod
                    self.cur_mod = base.module
                    try:
                        return self.eval(n.value, {})
                    finally:
                        self.cur_mod = saved_mod
        if isinstance(base, FuncRef):
            return FuncRef("ext", base.dotted + "." + attr)
        if isinstance(base, Unknown):
            return Unknown("attr %s of %s" % (attr, base.why))
        if base is None:
            raise AnalysisError("attribute %s of None" % attr)
        raise AnalysisError("attribute %s of %r not modelled" % (attr, base))

    def ev_Tuple(self, node, env):
        items = []
        for e in node.elts:
            if isinstance(e, ast.Starred):
                v = self.eval(e.value, env)
                if isinstance(v, Tup):
                    items.extend(v.items)
                else:
                    raise AnalysisError("starred non-tuple")
            else:
                items.append(self.eval(e, env))
        return Tup(items)

    def ev_List(self, node, env):
        t = self.ev_Tuple(node, env)
        t.kind = "list"
        return t

    def ev_Dict(self, node, env):
        items = []
        for k, v in zip(node.keys, node.values):
            items.append((self.eval(k, env) if k is not None else None, self.eval(v, env)))
        return Tup(items, kind="dict")

    def ev_Set(self, node, env):
        return self.make_set([self.eval(e, env) for e in node.elts])

    def make_set(self, items):
        out = []
        for x in items:
            dup = False
            for y in out:
                if isinstance(x, Expr) and isinstance(y, Expr):
                    r = self.cmp_expr(x - y, "==")
                    if self.decide_pred(r):
                        dup = True
                        break
                elif x is y or (isinstance(x, (str, bool)) and x == y):
                    dup = True
                    break
                elif isinstance(x, Tup) and isinstance(y, Tup) and x.kind == "tuple" and y.kind == "tuple" and len(x.items) == len(y.items) and all(isinstance(i, Expr) for i in x.items + y.items):
                    # tuples of numbers are equal when every component is
                    if all(self.decide_pred(self.cmp_expr(a - b, "==")) for a, b in zip(x.items, y.items)):
                        dup = True
                        break
            if not dup:
                out.append(x)
        return SetV(out)

    def ev_JoinedStr(self, node, env):
        parts = []
        for v in node.values:
            if isinstance(v, ast.Constant):
                parts.append(v.value)
            elif isinstance(v, ast.FormattedValue):
                try:
                    val = self.eval(v.value, env)
                    parts.append(val)
                    if v.format_spec is not None:
                        spec = "".join(x.value for x in v.format_spec.values if isinstance(x, ast.Constant) and isinstance(x.value, str))
                        self.event("eager-format", v, (val, spec))  # formatted here and now, with this spec
                except AnalysisError:
                    parts.append(Unknown("f-string field"))
        if all(type(p) is str and not p.startswith("<") for p in parts):
            return "".join(parts)
        return FStr("<fstring>", parts)

    def ev_UnaryOp(self, node, env):
        v = self.eval(node.operand, env)
        if isinstance(node.op, ast.USub):
            return self.binop(ast.Mult(), alg.const(-1), v, node)
        if isinstance(node.op, ast.UAdd):
            return v
        if isinstance(node.op, ast.Not):
            if isinstance(v, (Pred, BoolCombo, Member)):
                return BoolCombo("not", [v])
            return not self.truth(v)
        if isinstance(node.op, ast.Invert):
            # ~ on booleans and boolean arrays is the logical negation
            if isinstance(v, bool):
                return not v
            if isinstance(v, (Pred, BoolCombo, Member)):
                return BoolCombo("not", [v])
            if isinstance(v, Arr) and (v.dtype == "bool" or isinstance(v.val, (bool, Pred, BoolCombo))):
                nv = (not v.val) if isinstance(v.val, bool) else BoolCombo("not", [v.val]) if isinstance(v.val, (Pred, BoolCombo)) else Unknown("negated mask")
                return Arr(v.shape, nv, "bool", {k: v.meta[k] for k in ("ident",) if k in v.meta})
            if isinstance(v, Unknown):
                return v
        raise AnalysisError("unary operator not modelled")

    def ev_BinOp(self, node, env):
        return self.binop(node.op, self.eval(node.left, env), self.eval(node.right, env), node)

    def ev_BoolOp(self, node, env):
        vals = []
        for e in node.values:
            v = self.eval(e, env)
            if isinstance(v, bool):
                if isinstance(node.op, ast.And) and not v:
                    return False
                if isinstance(node.op, ast.Or) and v:
                    return True
                continue
            if v is None:
                if isinstance(node.op, ast.And):
                    return None
                continue
            vals.append(v)
        if not vals:
            return isinstance(node.op, ast.And)
        if len(vals) == 1 and isinstance(vals[0], (Pred, BoolCombo, Member, Unknown)):
            return vals[0]
        if all(isinstance(v, (Pred, BoolCombo, Member, Unknown)) for v in vals):
            return BoolCombo("and" if isinstance(node.op, ast.And) else "or", vals)
        # python value semantics (a or b) for non-boolean operands
        for v in vals[:-1]:
            t = self.truth(v)
            if isinstance(node.op, ast.Or) and t:
                return v
            if isinstance(node.op, ast.And) and not t:
                return v
        return vals[-1]

    def ev_IfExp(self, node, env):
        if self.truth(self.eval(node.test, env)):
            return self.eval(node.body, env)
        return self.eval(node.orelse, env)

    def ev_Compare(self, node, env):
        left = self.eval(node.left, env)
        res = []
        for op, rn in zip(node.ops, node.comparators):
            right = self.eval(rn, env)
            res.append(self.compare(op, left, right, node))
            left = right
        if len(res) == 1:
            return res[0]
        if all(isinstance(r, bool) for r in res):
            return all(res)
        return BoolCombo("and", res)

    def compare(self, op, a, b, node):
        if isinstance(op, (ast.Is, ast.IsNot)):
            same = (a is None and b is None) or (a is b)
            if (a is None) != (b is None):
                same = False
            elif a is not None and b is not None and not (a is b):
                if isinstance(a, Unknown) or isinstance(b, Unknown):
                    return Unknown("identity test")
                same = False
            return same if isinstance(op, ast.Is) else not same
        if isinstance(op, (ast.In, ast.NotIn)):
            r = self.member(a, b, node)
            if isinstance(op, ast.NotIn):
                return (not r) if isinstance(r, bool) else BoolCombo("not", [r])
            return r
        sym = {ast.Lt: "<", ast.LtE: "<=", ast.Gt: ">", ast.GtE: ">=", ast.Eq: "==", ast.NotEq: "!="}[type(op)]
        if isinstance(a, str) or isinstance(b, str) or a is None or b is None or isinstance(a, bool) or isinstance(b, bool):
            if isinstance(a, (Unknown, Opaque)) or isinstance(b, (Unknown, Opaque)):
                return Unknown("comparison with opaque value")
            if isinstance(a, Expr) or isinstance(b, Expr):
                if sym == "==":
                    return False
                if sym == "!=":
                    return True
            if sym == "==":
                return a == b
            if sym == "!=":
                return a != b
            raise AnalysisError("ordering comparison of non-numeric constants")
        if isinstance(a, Arr) or isinstance(b, Arr):
            return self.np.elementwise_compare(self, sym, a, b, node)
        if isinstance(a, Expr) and isinstance(b, Expr):
            return self.cmp_expr(a - b, sym)
        if isinstance(a, Tup) and isinstance(b, Tup) and sym in ("==", "!=") and a.kind != "dict" and b.kind != "dict":
            if not any(isinstance(x, GenList) for x in a.items + b.items) and all(isinstance(x, Expr) for x in a.items + b.items):
                if len(a.items) != len(b.items):
                    return sym == "!="
                preds = [self.cmp_expr(x - y, "==") for x, y in zip(a.items, b.items)]
                if any(p is False for p in preds):
                    return sym == "!="
                preds = [p for p in preds if p is not True]
                if not preds:
                    return sym == "=="
                eq = preds[0] if len(preds) == 1 else BoolCombo("and", preds)
                return eq if sym == "==" else BoolCombo("not", [eq])
            return Unknown("tuple comparison")
        return Unknown("comparison of %r and %r" % (a, b))

    def cmp_expr(self, e, sym):
        poss = self.facts.possible(e)
        ts = TRUESET[sym]
        if poss <= ts:
            return True
        if not (poss & ts):
            return False
        return Pred(e, sym)

    def member(self, a, b, node):
        if isinstance(b, Tup):
            if isinstance(a, str) or a is None:
                if b.kind == "dict":
                    return any(key_equal(k, a) for k, _ in b.items)
                return any(x == a for x in b.items if isinstance(x, str) or x is None)
            if isinstance(a, Expr) and all(isinstance(x, Expr) for x in b.items):
                if any(a.eq(x) for x in b.items):
                    return True
                if a.as_const() is not None and all(x.as_const() is not None for x in b.items):
                    return False
            if b.kind == "dict":
                if self.loop_stack:
                    self.event("loop-dict-read", node, (a, id(b)))
                return any(key_equal(k, a) for k, _ in b.items)  # the abstract mapping is known completely (outside loops)
            return Member(a, id(b), "tuple", False)
        if isinstance(b, Arr) and isinstance(a, Expr):
            return Member(a, b.meta.get("ident", id(b)), b.name or "array", True, container=b)
        if isinstance(b, str) and isinstance(a, str):
            return a in b
        if isinstance(b, Opaque):
            return Unknown("membership in %s" % b.name)
        return Unknown("membership test")

    def ev_Subscript(self, node, env):
        base = self.eval(node.value, env)
        if isinstance(base, Tup):
            if base.kind == "dict":
                key = self.eval(node.slice, env)
                for k, v in reversed(base.items):
                    if key_equal(k, key):
                        return v
                if isinstance(key, str) and type(key) is str and not key.startswith("<") and base.items and all(type(k) is str for k, _ in base.items) and not self.loop_stack:
                    raise raise_exc("KeyError", node, "KeyError(%r)" % key)
                return Unknown("dict key %r" % (key,))
            if isinstance(node.slice, ast.Slice):
                if any(isinstance(x, GenList) for x in base.items):
                    return self.slice_segments(base, node, env)
                lo = self._const_int(node.slice.lower, env, 0)
                hi = self._const_int(node.slice.upper, env, len(base.items))
                st = self._const_int(node.slice.step, env, 1)
                return Tup(base.items[slice(lo, hi, st)], base.kind)
            k = self.eval(node.slice, env)
            c = k.as_const() if isinstance(k, Expr) else None
            if c is None:
                return Unknown("tuple index")
            try:
                return base.items[int(c.re)]
            except IndexError:
                if base.kind in ("list", "tuple") and not any(isinstance(x, (GenList, Unknown)) for x in base.items):
                    raise raise_exc("IndexError", node, "index %d into a sequence of %d items" % (int(c.re), len(base.items)))
                raise AnalysisError("%s:%d: tuple index out of range" % (self.cur_mod.name, node.lineno))
        if isinstance(base, Arr):
            idx = self.eval_index(node.slice, env)
            self.cur_node = node
            self._check_block_cover(base, idx, node)
            r = self.np.load(self, base, idx, node, env)
            if isinstance(r, Arr) and not any(isinstance(i, Arr) for i in idx):
                # basic indexing: numpy hands out a view of the same memory
                kind = ("nonmean",) if r.meta.get("nonmean_of") is base else ("other",)
                r = self._as_view(r, base, lambda nb, idx=idx, node=node, env=env: self.np.load(self, nb, idx, node, env), kind)
            return r
        if isinstance(base, Opaque) and base.name == "rank-map":
            key = self.eval(node.slice, env)
            U, src = base.attrs["of"], base.attrs.get("distinct_of")
            if isinstance(key, Expr) and isinstance(src, Arr) and isinstance(src.val, Expr) and isinstance(U, Arr) and U.meta.get("sorted_unique"):
                ge = getattr(self, "_genlist_source", None)
                if ge is not None and ge[0] is src and key.eq(ge[1]):
                    # the position of x[j] among the sorted distinct values of x: entry j of np.unique's inverse map
                    ua = U.val.top_atoms()
                    tagsym = next(iter(ua)).args[0].top_atoms() if len(ua) == 1 and next(iter(ua)).kind == "fn" else None
                    tag = next(iter(tagsym)).name if tagsym and len(tagsym) == 1 else "unique"
                    self._rank_hits = getattr(self, "_rank_hits", 0) + 1
                    return alg.fn("elem", alg.sym("inverse:" + tag), integer=True)
            return Unknown("position of %r in a list of distinct values" % (key,))
        if isinstance(base, Opaque):
            key = self.eval(node.slice, env)
            if base.attrs.get("fault"):
                raise raise_exc(base.attrs["fault"], node, "reading %s[%r] raises %s" % (base.name, key, base.attrs["fault"]))
            if "items" in base.attrs and isinstance(key, str) and key in base.attrs["items"]:
                return base.attrs["items"][key]
            if "getitem" in base.attrs:
                return base.attrs["getitem"](key)
            return Unknown("%s[%r]" % (base.name, key))
        if isinstance(base, PyList):
            k = self.eval(node.slice, env)
            if isinstance(k, Expr):
                return base.at(k)
            return Unknown("index of list %s" % base.name)
        if isinstance(base, str):
            return "<substr>"
        if isinstance(base, Unknown):
            return Unknown("subscript of " + base.why)
        if isinstance(base, Expr):
            key = self.eval(node.slice, env)
            if isinstance(key, str) and type(key) is str:
                # a record-like value (label, value, label, value, ...): the field that follows its label
                tops = list(base.top_atoms())
                if len(tops) == 1 and tops[0].kind == "fn" and base.eq(alg.atom_expr(tops[0])):
                    a = tops[0].args
                    for k in range(len(a) - 1):
                        if isinstance(a[k], str) and a[k] == key and isinstance(a[k + 1], Expr):
                            return a[k + 1]
                return Unknown("field %r of %r" % (key, base))
            # scalar indexed like an array (e.g. `...` on 0-d): keep the value
            return base
        if isinstance(base, FuncRef) and base.kind == "ext" and base.dotted in ("numpy.r_",):
            import ivec as IV

            idx = self.eval_index(node.slice, env)
            segs = []
            for it in idx:
                if isinstance(it, SliceV) and it.step is None and isinstance(it.hi, Expr):
                    lo = it.lo if it.lo is not None else ZERO
                    segs.append(((it.hi - lo).expand(), lo))
                elif isinstance(it, Expr):
                    segs.append((ONE, it))
                else:
                    return Unknown("np.r_ with a part that is not a range")
            ivv = IV.IVec(segs)
            return Arr((ivv.length().expand(),), Unknown("index vector"), "int", {"ivec": ivv})
        if isinstance(base, FuncRef) and base.kind == "method" and isinstance(base.bound, Opaque):
            return Unknown("item of attribute %s of an opaque object" % base.dotted)
        raise AnalysisError("%s:%d: subscript of %r not modelled" % (self.cur_mod.name, node.lineno, base))

    def slice_segments(self, base, node, env):
        """list made of generated segments sliced at symbolic bounds: the slice must coincide with segment boundaries"""
        lo = self.eval(node.slice.lower, env) if node.slice.lower is not None else ZERO
        bounds = [ZERO]
        for x in base.items:
            gs = len(x.elem.items) if isinstance(x, GenList) and isinstance(x.elem, Tup) and x.elem.kind == "group" else 1
            bounds.append(bounds[-1] + (x.rng.count * gs if isinstance(x, GenList) else ONE))
        hi = self.eval(node.slice.upper, env) if node.slice.upper is not None else bounds[-1]
        if node.slice.step is not None or not (isinstance(lo, Expr) and isinstance(hi, Expr)):
            return Unknown("slice of a generated list")
        a = [k for k, b in enumerate(bounds) if b.eq(lo)]
        b = [k for k, bb in enumerate(bounds) if bb.eq(hi)]
        if a and b and a[0] <= b[0]:
            return Tup(base.items[a[0]: b[0]], base.kind)
        # a slice that lies inside one generated segment is that segment re-indexed: x[a:b] of [e(j) for j in range(n)] is
        # [e(j + a) for j in range(b - a)]
        pos = ZERO
        for x in base.items:
            n = (x.rng.count * (len(x.elem.items) if isinstance(x.elem, Tup) and x.elem.kind == "group" else 1)) if isinstance(x, GenList) else ONE
            if isinstance(x, GenList) and not (isinstance(x.elem, Tup) and x.elem.kind == "group"):
                off, rest = (lo - pos).expand(), (pos + n - hi).expand()
                if self.facts.possible(off) <= {"0", "+"} and self.facts.possible(rest) <= {"0", "+"} and self.facts.possible((hi - lo).expand()) <= {"0", "+"}:
                    new_elem = subst_value(x.elem, {x.ivar: alg.atom_expr(x.ivar) + off})
                    return Tup([GenList(new_elem, x.ivar, RangeV(x.rng.start, x.rng.start + (hi - lo) * x.rng.step, x.rng.step))], base.kind)  # (the range only carries the count)
            pos = pos + n
        # polynomial bounds in the sizes that differ from every boundary are a definite misalignment (blocks of n_towers entries
        # cut out of a list made of runs of n_steps); bounds that involve rounding or other functions are merely not understood
        plain = all(not any(a.kind in ("fn", "def") for a in x.expand().atoms()) for x in (lo, hi))
        if not plain:
            # cut points that are functions of a block index (k * n // B): kept as a symbolic slice; it is resolved when the
            # blocks are put together again (flatten) or reported as not modelled when anything else is done with it
            return Opaque("list-slice", {"of": base, "lo": lo, "hi": hi, "where": "%s:%s" % (self.cur_mod.name, node.lineno)})
        self.event("misaligned-slice", node, "slice [%r:%r] of a list with segment boundaries %r" % (lo, hi, bounds))
        return Unknown("slice [%r:%r] does not coincide with the boundaries of the generated segments" % (lo, hi))

    def _const_int(self, node, env, default):
        if node is None:
            return default
        v = self.eval(node, env)
        c = v.as_const() if isinstance(v, Expr) else None
        if c is None:
            raise AnalysisError("non-constant tuple slice")
        return int(c.re)

    def ev_Slice(self, node, env):
        return SliceV(
            self.eval(node.lower, env) if node.lower is not None else None,
            self.eval(node.upper, env) if node.upper is not None else None,
            self.eval(node.step, env) if node.step is not None else None,
        )

    def ev_Lambda(self, node, env):
        return FuncRef("lambda", "<lambda>", self.cur_mod, node, bound=env)

    def _comp_items(self, gens, env, leaf):
        """items produced by the generators `gens` (in order), `leaf(env)` giving one item; None when not modelled"""
        if not gens:
            return [leaf(env)]
        g = gens[0]
        pre = self.__dict__.pop("_pre_iter", None)
        it = pre[1] if pre is not None and pre[0] is g.iter else self.eval(g.iter, env)

        def conds(e2):
            """True / False when all `if` clauses are decided, None otherwise"""
            for c in g.ifs:
                t = self.eval(c, e2)
                if isinstance(t, Expr) and t.as_const() is not None:
                    t = t.as_const() != 0
                if isinstance(t, (str, Tup)):
                    t = bool(t.items if isinstance(t, Tup) else t)
                if t is None:
                    t = False
                if isinstance(t, (Expr, Pred, BoolCombo, Member)):
                    t = self.truth(t)  # a filter on a value that is not fixed: one explored path per outcome
                if not isinstance(t, bool):
                    return None
                if not t:
                    return False
            return True

        if isinstance(it, Tup) and it.kind == "dict":
            it = Tup([k for k, _ in it.items], "list")
        if isinstance(it, Tup) and it.kind == "iterator":
            it = self.np.consume(it)
        if isinstance(it, Opaque) and it.name == "list-of-array" and isinstance(it.attrs.get("of"), Arr) and not g.ifs and len(gens) == 1:
            # the entries of an array as a Python list: one generic entry per position
            src = it.attrs["of"]
            if src.shape is not None and isinstance(src.val, Expr):
                n = ONE
                for d in src.shape:
                    n = n * d
                self._loop_ids += 1
                iv = alg._atom("sym", "j#%d" % self._loop_ids, (), pos=False, real=True, integer=True)
                e2 = dict(env)
                self.assign(g.target, src.val, e2)
                saved = getattr(self, "_genlist_source", None)
                self._genlist_source = (src, src.val)
                hits0 = getattr(self, "_rank_hits", 0)
                try:
                    elem = leaf(e2)
                finally:
                    self._genlist_source = saved
                gl = GenList(elem, iv, RangeV(ZERO, n, ONE))
                if getattr(self, "_rank_hits", 0) > hits0 and isinstance(elem, Expr):
                    ua = [a for a in elem.atoms() if a.kind == "fn" and a.name == "elem"]
                    for cand in self.__dict__.setdefault("unique_registry", []):
                        if cand[1] is src or (isinstance(cand[1].val, Expr) and cand[1].val.eq(src.val)):
                            gl.inverse_of = (cand[0], cand[1])
                return [gl]
        if isinstance(it, Tup):
            out = []
            for x in it.items:
                e2 = dict(env)
                if isinstance(x, GenList):
                    if g.ifs or len(gens) > 1:
                        return None
                    self.assign(g.target, x.elem, e2)
                    out.append(GenList(leaf(e2), x.ivar, x.rng))
                    continue
                self.assign(g.target, x, e2)
                c = conds(e2)
                if c is None:
                    return None
                if not c:
                    continue
                sub = self._comp_items(gens[1:], e2, leaf)
                if sub is None:
                    return None
                out.extend(sub)
            return out
        if g.ifs or len(gens) > 1:
            return None
        if isinstance(it, RangeV):
            self._loop_ids += 1
            iv = alg._atom("sym", "j#%d" % self._loop_ids, (), pos=False, real=True, integer=True)
            e2 = dict(env)
            self.assign(g.target, it.start + alg.atom_expr(iv) * it.step, e2)
            return [GenList(leaf(e2), iv, it)]
        if isinstance(it, GenList):
            e2 = dict(env)
            self.assign(g.target, it.elem, e2)
            return [GenList(leaf(e2), it.ivar, it.rng)]
        return None

    def refold(self, e):
        """re-evaluate the rounding operations of an expression after a substitution (0 * n // B is 0, B * n // B is n)"""
        if not isinstance(e, Expr):
            return e
        sub = {}
        for a in e.top_atoms():
            if a.kind == "fn" and a.name in ("floordiv", "int") and all(isinstance(x, Expr) for x in a.args):
                args = [self.refold(x) for x in a.args]
                if a.name == "floordiv":
                    r = self.floordiv(args[0], args[1])
                else:
                    c = args[0].as_const()
                    r = alg.const(int(c.re)) if c is not None and c.im == 0 else (args[0] if self.np._scalar_dtype(args[0]) == "int" else alg.fn("int", args[0], integer=True))
                if not r.eq(alg.atom_expr(a)):
                    sub[a] = r
        return e.subs(sub).expand() if sub else e

    def _flatten_blocks(self, X, node):
        """[x for block in X for x in block] where X lists the blocks list[a(k):b(k)], k = 0 .. B-1, of one list: the list
        itself when the blocks are contiguous (b(k) = a(k+1)), start at 0 and end at its length"""
        if not (isinstance(X, Tup) and X.kind != "dict" and len(X.items) == 1 and isinstance(X.items[0], GenList)):
            return None
        g = X.items[0]
        sl = g.elem
        if not (isinstance(sl, Opaque) and sl.name == "list-slice" and g.rng.start.is_zero() and g.rng.step.eq(ONE)):
            return None
        a, b, M = sl.attrs["lo"], sl.attrs["hi"], sl.attrs["of"]
        k = alg.atom_expr(g.ivar)
        B = g.rng.count
        nxt = self.refold(a.subs({g.ivar: k + ONE}))
        if not nxt.eq(self.refold(b)):
            return Unknown("blocks that are not contiguous: block k ends at %r, block k + 1 starts at %r" % (b, nxt))
        first = self.refold(a.subs({g.ivar: ZERO}))
        last = self.refold(b.subs({g.ivar: B - ONE}))
        total = ZERO
        for x in M.items:
            gs = len(x.elem.items) if isinstance(x, GenList) and isinstance(x.elem, Tup) and x.elem.kind == "group" else 1
            total = total + (x.rng.count * gs if isinstance(x, GenList) else ONE)
        if not (first.is_zero() and last.eq(total)):
            self.event("partition-gap", node, "the blocks cover [%r, %r) of a list of %r entries" % (first, last, total))
            return Unknown("blocks covering [%r, %r) of %r entries" % (first, last, total))
        # cut points must be exact: a cut computed through a floating point quotient (int(k * (n / B))) can fall one short at
        # the positions where the exact value is an integer - for k = B that is the end of the list
        for src in (a, b):
            for at in src.atoms():
                if at.kind == "fn" and at.name == "int":
                    for ev in self.events:
                        if ev[0] == "rounding" and isinstance(ev[2][0], Expr) and at in ev[2][0].atoms() and "Div" in repr(ev[2][1]):
                            self.event("fragile-partition", node, "the cut points %s are truncated floating point products: at the last block the exact value %r can be computed as one ulp less, and int() then drops the last entry" % (
                                self.fterm_str(ev[2][1]), total))
        return Tup(list(M.items), "list")

    def ev_ListComp(self, node, env):
        gens = node.generators
        if len(gens) == 1 and not gens[0].ifs and not isinstance(node, ast.DictComp):
            it0 = self.eval(gens[0].iter, env)
            if isinstance(it0, Opaque) and it0.name == "list-slice":
                # mapping commutes with slicing: [f(x) for x in L[a:b]] is [f(x) for x in L][a:b]
                M = it0.attrs["of"]
                out = []
                for x in M.items:
                    e2 = dict(env)
                    if isinstance(x, GenList) and not (isinstance(x.elem, Tup) and x.elem.kind == "group"):
                        self.assign(gens[0].target, x.elem, e2)
                        out.append(GenList(self.eval(node.elt, e2), x.ivar, x.rng))
                    elif not isinstance(x, GenList):
                        self.assign(gens[0].target, x, e2)
                        out.append(self.eval(node.elt, e2))
                    else:
                        return Unknown("comprehension over a slice of grouped entries")
                return Opaque("list-slice", {"of": Tup(out, "list"), "lo": it0.attrs["lo"], "hi": it0.attrs["hi"], "where": it0.attrs.get("where")})
            self._pre_iter = (gens[0].iter, it0)
        if (len(gens) == 2 and not gens[0].ifs and not gens[1].ifs and isinstance(gens[0].target, ast.Name) and isinstance(gens[1].iter, ast.Name)
                and gens[1].iter.id == gens[0].target.id and isinstance(gens[1].target, ast.Name) and isinstance(node.elt, ast.Name) and node.elt.id == gens[1].target.id):
            X = self.eval(gens[0].iter, env)
            if isinstance(X, Tup) and X.kind == "iterator":
                X = self.np.consume(X)
            r = self._flatten_blocks(X, node)
            if r is not None:
                return r
            self._pre_iter = (gens[0].iter, X)
        items = self._comp_items(node.generators, env, lambda e2: self.eval(node.elt, e2))
        if items is None:
            return Unknown("comprehension")
        return Tup(items, "list")

    ev_GeneratorExp = ev_ListComp

    def ev_SetComp(self, node, env):
        items = self._comp_items(node.generators, env, lambda e2: self.eval(node.elt, e2))
        if items is None or any(isinstance(x, GenList) for x in items):
            return Unknown("set comprehension")
        return self.make_set(items)

    def ev_DictComp(self, node, env):
        if len(node.generators) == 1 and not node.generators[0].ifs:
            g = node.generators[0]
            it = self.eval(g.iter, env)
            if (isinstance(it, Opaque) and it.name == "enumerate-of-array" and isinstance(g.target, ast.Tuple) and len(g.target.elts) == 2
                    and all(isinstance(e, ast.Name) for e in g.target.elts) and isinstance(node.key, ast.Name) and isinstance(node.value, ast.Name)
                    and node.key.id == g.target.elts[1].id and node.value.id == g.target.elts[0].id):
                # {value: position for position, value in enumerate(values)}: where each value stands in that list
                return Opaque("rank-map", {"of": it.attrs["of"], "distinct_of": it.attrs.get("distinct_of")})
        items = self._comp_items(node.generators, env, lambda e2: (self.eval(node.key, e2), self.eval(node.value, e2)))
        if items is None or any(isinstance(x, GenList) for x in items):
            return Unknown("dict comprehension")
        out = Tup([], "dict")
        for k, v in items:
            for i, (k0, _) in enumerate(out.items):
                if key_equal(k0, k):
                    out.items[i] = (k, v)
                    break
            else:
                out.items.append((k, v))
        return out

    def ev_Starred(self, node, env):
        raise AnalysisError("starred expression outside call/tuple")

    # ---- arithmetic
    def binop(self, op, a, b, node):
        r = self._binop(op, a, b, node)
        if TRACK_CANCEL and isinstance(op, (ast.Sub, ast.Add)):
            self._note_cancellation(op, a, b, r, node)
        return r

    def _note_cancellation(self, op, a, b, r, node):
        """a - b of two quantities of the same sign whose difference has a definite sign in exact arithmetic: in floating
        point each operand carries its own rounding error, so the computed difference can be zero or have the other sign"""
        va, vb, vr = (x.val if isinstance(x, Arr) else x for x in (a, b, r))
        if not (isinstance(va, Expr) and isinstance(vb, Expr) and isinstance(vr, Expr)):
            return
        if va.as_const() is not None or vb.as_const() is not None or vr.as_const() is not None:
            return
        if isinstance(op, ast.Add):
            vb = -vb
        # signs relative to the first operand, so that a common factor of unknown sign (z, u*) does not matter:
        # b/a >= 0 (same sign) and (a - b)/a of definite sign (the exact difference never changes side)
        try:
            q = (vb / va).simp()
            rel = (vr / va).simp()
            if len(rel.n) > 1 or len(q.n) > 1:
                q, rel = (vb / va).expand().simp(), (vr / va).expand().simp()  # definitions opened: 1 - v^2/(u^2+v^2) is u^2/(u^2+v^2)
        except Exception:
            return
        def sgn(e):
            s0 = self.facts.possible(e)
            if len(s0) > 2 or s0 == {"-", "+"}:
                nu, de = e.num_den()
                sn, sd = alg.manifest_sign(nu), alg.manifest_sign(de)
                if sn <= {"+", "0"} and sd <= {"+", "0"}:  # a denominator is not zero where the value exists
                    return {"+", "0"} if "0" in sn else {"+"}
            return s0
        sq, sr = sgn(q), sgn(rel)
        if sq <= {"+", "0"} and "+" in sq and (sr <= {"+", "0"} or sr <= {"-", "0"}):
            self.event("float-cancel", node, "%s: the difference of two quantities of the same sign keeps its sign only in exact arithmetic (each operand is rounded on its own)" % ast.unparse(node)[:60])

    def _binop(self, op, a, b, node):
        if a is BOT or b is BOT:
            return BOT
        if isinstance(a, Unknown):
            return a
        if isinstance(b, Unknown):
            return b
        if isinstance(a, Arr) or isinstance(b, Arr):
            return self.np.elementwise(self, op, a, b, node)
        if isinstance(op, ast.Div) and isinstance(a, Opaque) and isinstance(b, (str, Opaque)):
            return Opaque("path", {"of": Tup([a, Tup(b.parts) if isinstance(b, FStr) else b])})
        if isinstance(a, str) or isinstance(b, str):
            if isinstance(op, ast.Add) and isinstance(a, str) and isinstance(b, str):
                if type(a) is str and type(b) is str and not a.startswith("<") and not b.startswith("<"):
                    return a + b
                return FStr("<str>", (a.parts if isinstance(a, FStr) else [a]) + (b.parts if isinstance(b, FStr) else [b]))
            return "<str>"
        if isinstance(a, Tup) and isinstance(b, Tup) and isinstance(op, ast.Add):
            return Tup(a.items + b.items, a.kind)
        if isinstance(op, ast.Mult) and (isinstance(a, Tup) and a.kind in ("list", "tuple") and isinstance(b, Expr) or isinstance(b, Tup) and b.kind in ("list", "tuple") and isinstance(a, Expr)):
            seq, cnt = (a, b) if isinstance(a, Tup) else (b, a)
            c = cnt.as_const()
            if c is not None and c.im == 0 and c.re.denominator == 1 and 0 <= c.re <= 64:
                return Tup(list(seq.items) * int(c.re), seq.kind)  # sequence repetition
            return Unknown("repetition of a sequence a symbolic number of times")
        if isinstance(a, bool):
            a = alg.const(int(a))
        if isinstance(b, bool):
            b = alg.const(int(b))
        if not (isinstance(a, Expr) and isinstance(b, Expr)):
            return Unknown("arithmetic on %r and %r" % (a, b))
        return self.scalar_binop(op, a, b, node)

    def scalar_binop(self, op, a, b, node):
        if isinstance(op, ast.Add):
            return a + b
        if isinstance(op, ast.Sub):
            return a - b
        if isinstance(op, ast.Mult):
            return a * b
        if isinstance(op, ast.Div):
            if b.is_zero():
                raise AbstractFault("%s:%s: division by a quantity that is identically zero (%s mode)" % (self.cur_mod.name, getattr(node, "lineno", "?"), self.ctx))
            return a / b
        if isinstance(op, ast.Pow):
            return alg.power(a, b)
        if isinstance(op, ast.FloorDiv):
            return self.floordiv(a, b)
        if isinstance(op, ast.Mod):
            ca, cb = a.as_const(), b.as_const()
            if ca is not None and cb is not None and ca.im == 0 and cb.im == 0 and cb.re != 0:
                return alg.const(ca.re % cb.re)
            if cb is not None and cb.re == 2 and self.facts.is_even(a):
                return ZERO
            return alg.fn("mod", a, b, integer=True)
        raise AnalysisError("binary operator %s not modelled" % type(op).__name__)

    def floordiv(self, a, b):
        ca, cb = a.as_const(), b.as_const()
        if ca is not None and cb is not None and cb.re != 0 and ca.im == 0 and cb.im == 0:
            return alg.const(ca.re // cb.re)
        if cb is not None and cb.re == 2 and self.facts.is_even(a):
            return a / b
        if a.is_zero():
            return ZERO
        # an exact quotient of integers: (k * n) // n is k
        try:
            q = (a / b).simp()
            if q.is_poly() and all(c.im == 0 and c.re.denominator == 1 and all(isinstance(p, int) and p > 0 and at.integer for at, p in m) for m, c in q.expand().n.items()) and self.np._scalar_dtype(a) == "int" and self.np._scalar_dtype(b) == "int":
                return q.expand()
        except Exception:
            pass
        return alg.fn("floordiv", a, b, integer=True)

    # ---- calls
    def ev_Call(self, node, env):
        f = self.eval(node.func, env)
        args = []
        for a in node.args:
            if isinstance(a, ast.Starred):
                v = self.eval(a.value, env)
                if isinstance(v, Tup) and v.kind != "dict" and not any(isinstance(i, GenList) for i in v.items):
                    args.extend(v.items)
                elif isinstance(v, SetV) and len(v.items) <= 1:
                    args.extend(v.items)  # (the order in which a larger set is unpacked is not a function of its contents)
                else:
                    return Unknown("star-args of non-tuple")
            else:
                args.append(self.eval(a, env))
        kwargs = {}
        for k in node.keywords:
            if k.arg is None:
                v = self.eval(k.value, env)
                if isinstance(v, Opaque) and v.name == "kwargs":
                    kwargs.update(v.attrs)
                elif isinstance(v, Tup) and v.kind == "dict" and all(isinstance(kk, str) for kk, _ in v.items):
                    kwargs.update({kk: vv for kk, vv in v.items})
                else:
                    raise AnalysisError("%s:%d: call with ** of a mapping that is not known entry by entry" % (self.cur_mod.name, node.lineno))
            else:
                kwargs[k.arg] = self.eval(k.value, env)
        return self.call(f, args, kwargs, node, env)

    def call(self, f, args, kwargs, node, env):
        if isinstance(f, Unknown):
            return Unknown("call of " + f.why)
        if not isinstance(f, FuncRef):
            if isinstance(f, Opaque) and f.name == "namedtuple-class":
                names = f.attrs["fields"]
                given = dict(zip(names, args))
                for k, v in kwargs.items():
                    if k in given or k not in names:
                        raise raise_exc("TypeError", node, "%s() got an unexpected or repeated field %s" % (f.attrs["typename"], k))
                    given[k] = v
                if len(given) != len(names) or len(args) > len(names):
                    raise raise_exc("TypeError", node, "%s() takes exactly the fields %s" % (f.attrs["typename"], names))
                t = Tup([given[n] for n in names], "tuple")
                t.fields = list(names)
                return t
            if isinstance(f, Opaque):
                self.calls.append((f.name, args, kwargs, node))
                return Unknown("call of opaque %s" % f.name)
            raise AnalysisError("%s:%d: call of %r not modelled" % (self.cur_mod.name, node.lineno, f))
        self.seq = getattr(self, "seq", 0) + 1
        self.calls.append((f.dotted, args, kwargs, node, self.seq))
        stub = self.stubs.get(f.dotted)
        if stub is not None:
            self.cur_callee = f
            return stub(self, args, kwargs, node)
        if f.kind == "partial":
            g, pargs, pkw = f.bound
            kw2 = dict(pkw)
            kw2.update(kwargs)
            return self.call(g, list(pargs) + list(args), kw2, node, env)
        if f.kind in ("pkg", "closure", "lambda"):
            return self.call_package(f, args, kwargs, node)
        if f.kind == "class":
            return self.np.construct(self, f, args, kwargs, node)
        if f.kind == "builtin":
            return self.np.builtin(self, f.dotted, args, kwargs, node, env)
        if f.kind == "method":
            r = self.np.method(self, f, args, kwargs, node)
            if isinstance(f.bound, Arr) and isinstance(r, Arr) and f.dotted.split(".")[-1] in ("reshape", "ravel", "transpose", "view", "squeeze", "swapaxes"):
                kind = ("flatmerge",) if r.meta.get("flatmodes") is f.bound else ("other",)
                r = self._as_view(r, f.bound, lambda nb, f=f, args=args, kwargs=kwargs, node=node: self.np.method(
                    self, FuncRef("method", f.dotted, bound=nb), args, kwargs, node), kind)
            return r
        if f.kind == "ext":
            out = kwargs.get("out")
            if out is not None:
                # ufunc(..., out=a): the result is written into a - every name bound to that array sees it
                kw2 = {k: v for k, v in kwargs.items() if k != "out"}
                r = self.np.external(self, f.dotted, args, kw2, node)
                if isinstance(out, Arr):
                    if isinstance(out, SymArr) or out.meta.get("param") or out.meta.get("alias_of_param"):
                        self.event("param-mutation", node, "%s(..., out=%s) writes into the caller's array" % (f.dotted, out.name))
                    new = r if isinstance(r, Arr) else Unknown("contents of %s after %s(..., out=...)" % (out.name, f.dotted))
                    if isinstance(new, Arr) and out.name and new.name != out.name:
                        new = new.copy(name=out.name)
                    for k in list(env):
                        if env[k] is out:
                            env[k] = new
                    return new
                return r
            return self.np.external(self, f.dotted, args, kwargs, node)
        raise AnalysisError("call kind %s" % f.kind)

    def call_package(self, f, args, kwargs, node):
        if self.depth >= self.max_depth:
            return Unknown("call depth limit at %s" % f.dotted)
        fn = f.node
        if isinstance(fn, ast.Lambda):
            e2 = dict(f.bound or {})
            for p, a in zip(fn.args.args, args):
                e2[p.arg] = a
            return self.eval(fn.body, e2)
        # decorators: `parallelize` forwards *args unchanged to (a jitted copy of) the function
        for d in fn.decorator_list:
            dn = dotted_name(d) or (dotted_name(d.func) if isinstance(d, ast.Call) else None)
            if dn is None or dn.split(".")[-1] not in TRANSPARENT_DECORATORS:
                self.event("decorator", node, "decorator %s on %s treated as opaque" % (dn, fn.name))
                return Unknown("decorated function %s" % fn.name)
        self.depth += 1
        saved_closure = getattr(self, "closure_env", None)
        saved_loops = self.loop_stack
        saved_guards = self.guard_stack
        self.loop_stack, self.guard_stack = [], []
        if f.kind == "closure":
            self.closure_env = f.bound
        try:
            return self.run_function(f.module, fn, args, kwargs)
        finally:
            self.depth -= 1
            self.closure_env = saved_closure
            self.loop_stack, self.guard_stack = saved_loops, saved_guards


TRANSPARENT_DECORATORS = {"parallelize", "staticmethod", "property", "classmethod"}

BUILTINS = {
    "len", "int", "float", "max", "min", "range", "tuple", "list", "str", "isinstance", "getattr", "abs",
    "enumerate", "zip", "sum", "bool", "dict", "set", "sorted", "print", "any", "all", "ValueError",
    "RuntimeError", "FileNotFoundError", "TypeError", "Exception", "hasattr", "round", "open", "repr", "type",
    "complex", "reversed", "map", "filter", "id", "object", "next", "iter", "slice", "KeyError", "IndexError", "ImportError",
}

EXT_MODULES = {"copy", "functools", "numpy", "np", "math", "scipy", "numba", "pyfftw", "os", "logging", "warnings", "hashlib", "pathlib",
               "yaml", "xarray", "pickle", "atexit", "dataclasses", "typing", "datetime", "concurrent", "matplotlib", "sys", "argparse"}
EXT_MODULES_FULL = {"copy", "functools", "numpy.subtract", "numpy.add", "numpy", "numpy.fft", "math", "scipy", "scipy.special", "numba", "os", "os.path", "logging", "warnings",
                    "hashlib", "pathlib", "yaml", "xarray", "pyfftw", "pyfftw.interfaces", "pyfftw.interfaces.numpy_fft",
                    "pyfftw.interfaces.cache", "pickle", "atexit", "concurrent", "concurrent.futures", "matplotlib", "matplotlib.pyplot", "sys"}
EXT_CONSTS = {
    "numpy.pi": lambda: alg.atom_expr(alg.PI),
    "math.pi": lambda: alg.atom_expr(alg.PI),
    "numpy.newaxis": lambda: None,
    "dataclasses.MISSING": lambda: __import__("npsem").MISSING,
    "numpy.nan": lambda: alg.sym("nan"),
    "numpy.inf": lambda: alg.sym("inf", pos=True),
    "numpy.complex128": lambda: "complex128",
    "numpy.complex64": lambda: "complex64",
    "numpy.float64": lambda: "float64",
    "numpy.float32": lambda: "float32",
    "numpy.int64": lambda: "int64",
    "numpy.bool_": lambda: "bool",
}


def psum(term, iv, start, upto):
    """sum_{start <= i < upto} term(i); loop-invariant factors are pulled out
    of the opaque Sum atoms (so sums are linear in invariant quantities)"""
    tot = ZERO
    term = term.expand()
    for m, c in term.n.items():
        inv, dep = [], []
        for a, e in m:
            if a is iv or iv in alg.atom_expr(a).atoms() or (isinstance(e, Expr) and iv in e.atoms()):
                dep.append((a, e))
            else:
                inv.append((a, e))
        depx = Expr({tuple(dep): alg.C1})
        tot = tot + Expr({tuple(inv): c}) * sum_atom(depx.subs({iv: IOTA()}), start, upto)
    return tot


class BoolCombo:
    def __init__(self, op, items):
        self.op, self.items = op, items

    def __repr__(self):
        return "%s(%s)" % (self.op, ", ".join(repr(i) for i in self.items))


class Member:
    def __init__(self, value, cid, cname, levelish, container=None):
        self.value, self.cid, self.cname, self.levelish, self.container = value, cid, cname, levelish, container

    def __repr__(self):
        return "(%r in %s)" % (self.value, self.cname)


class SliceV:
    def __init__(self, lo, hi, step):
        self.lo, self.hi, self.step = lo, hi, step

    def is_full(self):
        return self.lo is None and self.hi is None and self.step is None

    def __repr__(self):
        return "slice(%r,%r,%r)" % (self.lo, self.hi, self.step)


class RangeV:
    def __init__(self, start, stop, step):
        self.start, self.stop, self.step = start, stop, step
        self.count = (stop - start) / step


class LevelStore:
    def __init__(self, array, slot, point, value, guard, where, in_loop):
        self.array, self.slot, self.point, self.value, self.guard, self.where, self.in_loop = array, slot, point, value, guard, where, in_loop


class LoopSummary:
    def __init__(self, lid, node, rng, modname, fname):
        self.id, self.node, self.rng = lid, node, rng
        self.module, self.function = modname, fname
        self.head, self.new = {}, {}
        self.counters = {}
        self.level_stores = []
        self.state, self.matrix, self.offset = [], {}, {}
        self.linear = False
        self.kind = None
        self.ivar = None


_SIGS = []


def IOTA():
    """canonical bound variable for loop-summary atoms (node index)"""
    return alg.sym("iota", integer=True)


def loop_signature(entries):
    """value number of a linear loop body: equal matrices (as functions of the
    node index) get the same propagator atoms"""
    for k, ent in enumerate(_SIGS):
        if len(ent) == len(entries) and all(a.eq(b) for a, b in zip(ent, entries)):
            return k + 1
    _SIGS.append(list(entries))
    return len(_SIGS)


def signature_entries(sig):
    return _SIGS[sig - 1]


def phi_atom(sig, r, c, level):
    """entry (r, c) of the product of the layer matrices of nodes 0..level-1"""
    level = as_expr(level)
    if level.is_zero():
        return ONE if r == c else ZERO
    return alg.fn("Phi", alg.const(sig), alg.const(r), alg.const(c), level)


def sum_atom(summand, start, upto):
    if (as_expr(upto) - as_expr(start)).is_zero():
        return ZERO
    return alg.fn("Sum", summand, start, upto)


def _rb_phi(sig, r, c, level):
    return phi_atom(int(sig.as_const().re), int(r.as_const().re), int(c.as_const().re), level)


alg.register_rebuild("Phi", _rb_phi)
alg.register_rebuild("Sum", sum_atom)


def reset_state():
    alg.reset()
    del _SIGS[:]


def _is_generator(fn):
    stack = list(fn.body)
    while stack:
        n = stack.pop()
        if isinstance(n, (ast.Yield, ast.YieldFrom)):
            return True
        if isinstance(n, (ast.FunctionDef, ast.AsyncFunctionDef, ast.Lambda, ast.ClassDef)):
            continue
        stack.extend(ast.iter_child_nodes(n))
    return False


_BOUND_CACHE = {}


def _bound_only_under_ifs(fn, name):
    """is `name` a local of `fn` all of whose bindings are plain assignments nested in nothing but if/else (so that whether
    it is bound is decided by the branches taken, which the interpreter follows exactly)?"""
    key = (id(fn), name)
    if key in _BOUND_CACHE:
        return _BOUND_CACHE[key]
    found, ok = [False], [True]

    def binds(t):
        if isinstance(t, ast.Name):
            return t.id == name
        if isinstance(t, (ast.Tuple, ast.List)):
            return any(binds(e) for e in t.elts)
        if isinstance(t, ast.Starred):
            return binds(t.value)
        return False

    def walk(stmts, plain):
        for st in stmts:
            if isinstance(st, (ast.Assign, ast.AnnAssign)):
                ts = st.targets if isinstance(st, ast.Assign) else [st.target]
                if any(binds(t) for t in ts):
                    found[0] = True
                    if not plain:
                        ok[0] = False
            elif isinstance(st, ast.If):
                walk(st.body, plain)
                walk(st.orelse, plain)
            elif isinstance(st, (ast.Global, ast.Nonlocal)) and name in st.names:
                ok[0] = False
            elif isinstance(st, (ast.FunctionDef, ast.ClassDef, ast.AsyncFunctionDef)):
                if st.name == name:
                    ok[0] = False
            else:
                for sub in ast.walk(st):
                    if isinstance(sub, ast.Name) and sub.id == name and isinstance(sub.ctx, (ast.Store, ast.Del)):
                        ok[0] = False
                    elif isinstance(sub, ast.alias) and (sub.asname or sub.name.split(".")[0]) == name:
                        ok[0] = False
                    elif isinstance(sub, ast.ExceptHandler) and sub.name == name:
                        ok[0] = False
            for sub in ast.walk(st) if isinstance(st, (ast.Assign, ast.AnnAssign, ast.If)) else ():
                if isinstance(sub, ast.NamedExpr) and binds(sub.target):
                    ok[0] = False

    a = fn.args
    if any(p.arg == name for p in a.posonlyargs + a.args + a.kwonlyargs) or (a.vararg and a.vararg.arg == name) or (a.kwarg and a.kwarg.arg == name):
        r = False
    else:
        walk(fn.body, True)
        r = found[0] and ok[0]
    _BOUND_CACHE[key] = r
    return r


def subst_value(v, mp):
    """an abstract value with atoms replaced (used to re-index the generic element of a generated list)"""
    if isinstance(v, Expr):
        return v.subs(mp)
    if isinstance(v, Tup):
        return Tup([(subst_value(x[0], mp), subst_value(x[1], mp)) if isinstance(x, tuple) else subst_value(x, mp) for x in v.items], v.kind)
    if isinstance(v, GenList):
        return GenList(subst_value(v.elem, mp), v.ivar, v.rng)
    if isinstance(v, Opaque) and v.attrs.get("__class__") is None and v.name in ("future",):
        return Opaque(v.name, {k: subst_value(x, mp) for k, x in v.attrs.items()})
    return v


def has_unknown(v, depth=0):
    """does an abstract value contain a part the interpreter could not model?  Checks use this to answer
    'uninterpretable' (exit 2) instead of 'violated' when a comparison fails on such a value"""
    if isinstance(v, Unknown):
        return True
    if depth > 6:
        return False
    if isinstance(v, Tup):
        return any(has_unknown(x[1] if isinstance(x, tuple) else x, depth + 1) or (isinstance(x, tuple) and has_unknown(x[0], depth + 1)) for x in v.items)
    if isinstance(v, GenList):
        return has_unknown(v.elem, depth + 1)
    if isinstance(v, Arr):
        return isinstance(v.val, Unknown)
    if isinstance(v, Opaque):
        return any(has_unknown(x, depth + 1) for k, x in v.attrs.items() if k != "__class__")
    return False


def key_equal(a, b):
    if isinstance(a, Expr) and isinstance(b, Expr):
        return a.eq(b)
    if isinstance(a, Tup) and isinstance(b, Tup):
        return len(a.items) == len(b.items) and all(key_equal(x, y) for x, y in zip(a.items, b.items))
    if isinstance(a, (str, bool)) or a is None or isinstance(b, (str, bool)) or b is None:
        return type(a) is type(b) and a == b
    return a is b


def _assigned_names(stmts):
    out = set()
    for s in stmts:
        for n in ast.walk(s):
            if isinstance(n, (ast.Assign, ast.AugAssign, ast.AnnAssign)):
                tg = n.targets if isinstance(n, ast.Assign) else [n.target]
                for t in tg:
                    for x in ast.walk(t):
                        if isinstance(x, ast.Name) and isinstance(x.ctx, ast.Store):
                            out.add(x.id)
                        if isinstance(x, ast.Subscript) and isinstance(x.value, ast.Name):
                            out.add(x.value.id)
            elif isinstance(n, ast.For):
                for x in ast.walk(n.target):
                    if isinstance(x, ast.Name):
                        out.add(x.id)
    return out


def level_axis_of(v):
    import npsem

    try:
        return npsem.level_axis(v)
    except Exception:
        return None


def _read_in_body(stmts, name):
    """is `name` loaded in the body other than as the array being stored into?"""
    for st in stmts:
        store_bases = set()
        for n in ast.walk(st):
            if isinstance(n, (ast.Assign, ast.AugAssign)):
                tg = n.targets if isinstance(n, ast.Assign) else [n.target]
                for t in _flat_targets(tg):
                    if isinstance(t, ast.Subscript) and isinstance(t.value, ast.Name):
                        store_bases.add(id(t.value))
        for n in ast.walk(st):
            if isinstance(n, ast.Name) and n.id == name and isinstance(n.ctx, ast.Load) and id(n) not in store_bases:
                return True
            if isinstance(n, ast.AugAssign) and isinstance(n.target, ast.Subscript) and isinstance(n.target.value, ast.Name) and n.target.value.id == name:
                return True
    return False


def _flat_targets(tg):
    """assignment targets with tuple / list / starred targets flattened"""
    out = []
    for t in tg:
        if isinstance(t, (ast.Tuple, ast.List)):
            out.extend(_flat_targets(t.elts))
        elif isinstance(t, ast.Starred):
            out.extend(_flat_targets([t.value]))
        else:
            out.append(t)
    return out


def _stored_names(stmts):
    out = set()
    for s in stmts:
        for n in ast.walk(s):
            if isinstance(n, (ast.Assign, ast.AugAssign)):
                tg = n.targets if isinstance(n, ast.Assign) else [n.target]
                for t in _flat_targets(tg):
                    if isinstance(t, ast.Subscript) and isinstance(t.value, ast.Name):
                        out.add(t.value.id)
    return out


def _load(target):
    import copy

    t = copy.deepcopy(target)
    for n in ast.walk(t):
        if hasattr(n, "ctx"):
            n.ctx = ast.Load()
    return t


def explore(make_interp, entry, max_paths=512):
    """Enumerate all decision sequences.  make_interp(decisions) -> Interp;
    entry(interp) -> return value.  Yields PathResult objects."""
    results = []
    stack = [[]]
    n = 0
    while stack:
        dec = stack.pop()
        n += 1
        if n > max_paths * 4:
            raise AnalysisError("path explosion (> %d runs)" % (max_paths * 4))
        alg_mark = None
        it = make_interp(dec)
        try:
            v = entry(it)
            results.append(PathResult("return", v, getattr(it, "last_env", {}), it))
        except NeedDecision:
            stack.append(dec + [False])
            stack.append(dec + [True])
        except _Raise as r:
            results.append(PathResult("raise", None, {}, it, raise_desc=r.desc))
        except AbstractFault as f:
            results.append(PathResult("fault", None, {}, it, raise_desc=str(f)))
        except ZeroDivisionError as f:
            results.append(PathResult("fault", None, {}, it, raise_desc="division by an identically zero quantity: %s" % f))
        except _Return as r:
            results.append(PathResult("return", r.value, getattr(it, "last_env", {}), it))
        if len(results) > max_paths:
            raise AnalysisError("path explosion (> %d paths)" % max_paths)
    return results
