#!/usr/bin/env python3
"""Mutation survey: small syntactic mutations of the anchored functions of /repo (operator flips, comparison boundaries,
constants, swapped arguments), each applied to a scratch copy of the source, against the checks that are registered for
the mutated file.  A mutant on which no check exits 1 is listed for triage (equivalent mutant, outside every property,
or a hole in a rule).  Nothing from /repo is executed; scratch copies live under a temporary directory and are removed.

usage: mutate.py [--n 200] [--seed 1] [--files solver.py,utils.py]"""
import ast
import json
import os
import random
import shutil
import sys
import tempfile
from concurrent.futures import ThreadPoolExecutor

HERE = os.path.dirname(os.path.abspath(__file__))
sys.path.insert(0, HERE)
import selftest

REPO = os.environ.get("BLDFM_REPO", "/repo")

# functions whose behaviour the properties are anchored in (logging, CLI and plotting cosmetics are left out)
TARGETS = {
    "src/bldfm/solver.py": ["steady_state_transport_solver", "ivp_solver"],
    "src/bldfm/utils.py": ["compute_wind_fields", "get_source_area", "point_measurement"],  # ideal_source is a synthetic test source: no property speaks about its shape
    "src/bldfm/pbl_model.py": ["vertical_profiles", "psi", "phi"],
    "src/bldfm/interface.py": ["run_bldfm_single", "run_bldfm_timeseries", "run_bldfm_multitower", "run_bldfm_parallel", "_worker_single", "_worker_timeseries"],
    "src/bldfm/config_parser.py": ["latlon_to_xy", "get_step", "validate", "n_timesteps", "__post_init__", "compute_local_xy", "parse_config_dict", "_parse_domain", "_parse_met", "_parse_solver", "_parse_towers"],
    "src/bldfm/cache.py": ["_compute_key", "get", "put"],
    "src/bldfm/io.py": ["save_footprints_to_netcdf", "load_footprints_from_netcdf"],
    "src/bldfm/ffm_kormann_meixner.py": ["estimateFootprint", "estimateZ0", "_phiM", "_phiC", "_psiM", "_mParam", "_nParam"],
    "src/bldfm/plotting/footprint.py": ["extract_percentile_contour"],
    "src/bldfm/plotting/_geo.py": ["xy_to_latlon"],
    "src/bldfm/fft_manager.py": ["fft2", "ifft2", "get_fft_manager"],
}

BINOPS = {ast.Add: "-", ast.Sub: "+", ast.Mult: "/", ast.Div: "*"}
CMPOPS = {ast.Lt: "<=", ast.LtE: "<", ast.Gt: ">=", ast.GtE: ">", ast.Eq: "!=", ast.NotEq: "=="}


def in_logging(node, parents):
    p = node
    while p is not None:
        if isinstance(p, ast.Call):
            f = p.func
            name = ast.unparse(f)
            if name.startswith(("logger.", "logging.", "warnings.")) or name in ("print",):
                return True
        if isinstance(p, (ast.Raise, ast.JoinedStr)):
            return True
        p = parents.get(id(p))
    return False


def mutants_of(rel):
    path = os.path.join(REPO, rel)
    src = open(path).read()
    lines = src.split("\n")
    tree = ast.parse(src)
    parents = {}
    for n in ast.walk(tree):
        for ch in ast.iter_child_nodes(n):
            parents[id(ch)] = n
    out = []
    funcs = [n for n in ast.walk(tree) if isinstance(n, ast.FunctionDef) and n.name in TARGETS[rel]]

    def seg(node):
        return ast.get_source_segment(src, node)

    def replace(node, new):
        # single-line nodes only
        if node.lineno != node.end_lineno:
            return None
        ln = lines[node.lineno - 1]
        new_ln = ln[: node.col_offset] + new + ln[node.end_col_offset:]
        new_lines = list(lines)
        new_lines[node.lineno - 1] = new_ln
        return "\n".join(new_lines)

    for fn in funcs:
        doc = ast.get_docstring(fn, clean=False)
        default_nodes = {id(x) for d in fn.args.defaults + [k for k in fn.args.kw_defaults if k is not None] for x in ast.walk(d)}
        for n in ast.walk(fn):
            if in_logging(n, parents) or id(n) in default_nodes:
                continue  # (default values of parameters are conveniences: no property fixes them, except the documented halo default)
            if isinstance(n, ast.BinOp) and type(n.op) in BINOPS and n.lineno == n.end_lineno:
                l, r = seg(n.left), seg(n.right)
                if l is None or r is None:
                    continue
                between = lines[n.lineno - 1][n.left.end_col_offset: n.right.col_offset]
                sym = {ast.Add: "+", ast.Sub: "-", ast.Mult: "*", ast.Div: "/"}[type(n.op)]
                if between.count(sym) != 1 or (sym == "*" and "**" in between):
                    continue
                new = replace(n, l + between.replace(sym, BINOPS[type(n.op)]) + r)
                if new:
                    out.append((rel, fn.name, n.lineno, "%s -> %s in `%s`" % (sym, BINOPS[type(n.op)], seg(n)[:60]), new))
            elif isinstance(n, ast.Compare) and len(n.ops) == 1 and type(n.ops[0]) in CMPOPS and n.lineno == n.end_lineno:
                l, r = seg(n.left), seg(n.comparators[0])
                between = lines[n.lineno - 1][n.left.end_col_offset: n.comparators[0].col_offset]
                sym = {ast.Lt: "<", ast.LtE: "<=", ast.Gt: ">", ast.GtE: ">=", ast.Eq: "==", ast.NotEq: "!="}[type(n.ops[0])]
                if between.count(sym) != 1:
                    continue
                new = replace(n, l + between.replace(sym, CMPOPS[type(n.ops[0])]) + r)
                if new:
                    out.append((rel, fn.name, n.lineno, "%s -> %s in `%s`" % (sym, CMPOPS[type(n.ops[0])], seg(n)[:60]), new))
            elif isinstance(n, ast.Constant) and isinstance(n.value, (int, float)) and not isinstance(n.value, bool) and n.lineno == n.end_lineno:
                if doc is not None and isinstance(parents.get(id(n)), ast.Expr):
                    continue
                v = n.value
                nv = v + 1 if isinstance(v, int) else v * 1.5 + (0.25 if v == 0 else 0)
                new = replace(n, repr(nv))
                if new:
                    out.append((rel, fn.name, n.lineno, "constant %r -> %r" % (v, nv), new))
            elif isinstance(n, ast.Call) and len(n.args) >= 2 and n.lineno == n.end_lineno and not any(isinstance(a, ast.Starred) for a in n.args[:2]):
                a0, a1 = n.args[0], n.args[1]
                if a0.lineno != a1.end_lineno:
                    continue
                s0, s1 = seg(a0), seg(a1)
                if s0 is None or s1 is None or s0 == s1:
                    continue
                ln = lines[n.lineno - 1]
                new_ln = ln[: a0.col_offset] + s1 + ln[a0.end_col_offset: a1.col_offset] + s0 + ln[a1.end_col_offset:]
                new_lines = list(lines)
                new_lines[n.lineno - 1] = new_ln
                out.append((rel, fn.name, n.lineno, "arguments swapped in `%s`" % seg(n)[:60], "\n".join(new_lines)))
    return out


def main():
    args = sys.argv[1:]
    n = int(args[args.index("--n") + 1]) if "--n" in args else 200
    seed = int(args[args.index("--seed") + 1]) if "--seed" in args else 1
    only = args[args.index("--files") + 1].split(",") if "--files" in args else None
    allm = []
    for rel in TARGETS:
        if only and not any(rel.endswith(o) for o in only):
            continue
        allm.extend(mutants_of(rel))
    rnd = random.Random(seed)
    rnd.shuffle(allm)
    chosen = allm[:n]
    print("mutants available: %d, surveyed: %d (seed %d)" % (len(allm), len(chosen), seed))
    base = tempfile.mkdtemp(prefix="bldfm_mutate_")
    jobs = []
    for k, (rel, fname, line, what, new_src) in enumerate(chosen):
        try:
            ast.parse(new_src)
        except SyntaxError:
            continue
        t = os.path.join(base, "m%d" % k)
        os.makedirs(t)
        selftest._copy_tree(t)
        with open(os.path.join(t, rel), "w") as f:
            f.write(new_src)
        for p in selftest.FILE_PROPS.get(rel, []):
            jobs.append((k, p, t))

    def one(job):
        k, p, t = job
        rc, lines = selftest._run(p, t)
        return k, p, rc

    res = {}
    with ThreadPoolExecutor(max_workers=16) as ex:
        for k, p, rc in ex.map(one, jobs):
            res.setdefault(k, {})[p] = rc
    shutil.rmtree(base, ignore_errors=True)
    killed = survived = gaps = 0
    report = []
    for k, (rel, fname, line, what, _) in enumerate(chosen):
        if k not in res:
            continue
        rcs = res[k]
        fired = sorted(p for p, rc in rcs.items() if rc == 1)
        errs = sorted(p for p, rc in rcs.items() if rc >= 2)
        if fired:
            killed += 1
            status = "killed"
        elif errs:
            gaps += 1
            status = "analysis-error only"
        else:
            survived += 1
            status = "SURVIVED"
        report.append(dict(file=rel, function=fname, line=line, mutation=what, status=status, fired=fired, analysis_error=errs))
        if status != "killed":
            print("%-20s %s:%d %s  %s  [rc2: %s]" % (status, rel.split("/")[-1], line, fname, what, ",".join(errs) or "-"))
    print("killed %d, analysis-error only %d, survived %d" % (killed, gaps, survived))
    out = os.environ.get("MUTATE_REPORT")
    if out:
        json.dump(report, open(out, "w"), indent=1)


if __name__ == "__main__":
    main()
