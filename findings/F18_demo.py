"""F18: estimateZ0's sector smoothing window is not circular for half_wd_win >= 90, so the smoothed roughness length
is not invariant under a common rotation of all wind directions (C19).
Found by R-SECTOR (exact linear case analysis of the window conditions): with sector kk < 90 only directions > 270 are
unwrapped, so an observation at e.g. 250.5 deg, 109.5 deg away from sector 0, is left out of a +-120 deg window,
while after rotating everything by 120 deg the same pair is inside it."""
from _common import *
from bldfm.ffm_kormann_meixner import estimateZ0

n = 2
zm = np.full(n, 3.0)
ws = np.array([3.0, 4.5])
ustar = np.array([0.30, 0.30])
mo = np.full(n, 1e9)
wd = np.array([0.5, 250.5])
half = 120
worst = 0.0
detail = []
base = estimateZ0(zm, ws, wd, ustar, mo, half_wd_win=half)
for rot in (0, 60, 120, 200, 300):
    got = estimateZ0(zm, ws, (wd + rot) % 360.0, ustar, mo, half_wd_win=half)
    diff = float(np.nanmax(np.abs(got - base) / np.abs(base)))
    detail.append("rot=%d: %s" % (rot, np.array2string(got, precision=5)))
    worst = max(worst, diff)
print("\n".join(detail))
done(worst < 1e-12, "estimateZ0(half_wd_win=%d) under common rotations: worst relative change %.3g" % (half, worst))
