"""F14 / C20: the rescaled source-area field must not depend on the dtype of g."""
from _common import *
from bldfm.utils import get_source_area
f = np.linspace(0.01, 0.2, 16).reshape(4, 4); f /= f.sum()
g = np.arange(16).reshape(4, 4)
a = get_source_area(f, g); b = get_source_area(f, g.astype(float))
done(bool(np.allclose(a, b)), f"int g -> max {a.max():.3f}; float g -> max {b.max():.3f}")
