"""F2 / C02: sum(q0*footprint) must equal the forward flux at the tower for a halo that is not a whole number of cells."""
from _common import *
from bldfm.solver import steady_state_transport_solver as S
rng = np.random.default_rng(1)
nx, ny = 20, 16
q0 = rng.random((ny, nx))
dom = (100.0, 64.0)           # dx=5, dy=4
z, prof = const_profiles(8)
prof = (prof[0], prof[1], prof[2], prof[3], prof[4] * np.linspace(1, 2, 9))
kw = dict(domain=dom, levels=8, modes=(64, 64), halo=23.0, precision="double")
i_m, j_m = 7, 5
xm, ym = i_m * 5.0, j_m * 4.0
_, _, fp = S(q0, z, prof, meas_pt=(xm, ym), footprint=True, **kw)
_, _, fwd = S(q0, z, prof, meas_pt=(0.0, 0.0), footprint=False, **kw)
a, b = float(np.sum(q0 * fp)), float(fwd[j_m, i_m])
done(abs(a - b) < 1e-9 * max(1, abs(b)), f"sum(q0*footprint)={a:.6f} forward flux at tower={b:.6f}")
