"""F9 / C15: a truncated cache file must be treated as a miss."""
from _common import *
from bldfm.solver import steady_state_transport_solver as S
from bldfm.cache import GreensFunctionCache
import glob
cache = GreensFunctionCache("c")
z, prof = const_profiles(8)
kw = dict(domain=(120.0, 120.0), levels=8, modes=(12, 12), halo=0.0, precision="double", footprint=True)
ref = S(np.ones((12, 12)), z, prof, **kw)
S(np.ones((12, 12)), z, prof, cache=cache, **kw)
(f,) = glob.glob("c/*.npz")
data = open(f, "rb").read()
bad = []
for cut in (0, 10, len(data) // 2, len(data) - 5):
    open(f, "wb").write(data[:cut])
    try:
        got = S(np.ones((12, 12)), z, prof, cache=cache, **kw)
        if not (np.array_equal(got[1], ref[1]) and np.array_equal(got[2], ref[2])):
            bad.append((cut, "wrong data"))
    except Exception as e:
        bad.append((cut, type(e).__name__))
done(not bad, f"truncated entries: {bad}")
