"""F1 / C05: numerical mode must converge at third order to the analytic closed form for uniform profiles."""
from _common import *
from bldfm.solver import steady_state_transport_solver as S
rng = np.random.default_rng(0)
q0 = rng.random((16, 16))
errs = []
for n in (8, 16, 32):
    z, prof = const_profiles(n)
    kw = dict(domain=(200.0, 200.0), levels=n, modes=(16, 16), halo=0.0, precision="double")
    _, ca, fa = S(q0, z, prof, analytic=True, **kw)
    _, cn, fn = S(q0, z, prof, analytic=False, **kw)
    errs.append(np.abs(fn - fa).max())
r1, r2 = errs[0] / errs[1], errs[1] / errs[2]
done(r1 > 6.0 and r2 > 6.0, f"error ratios per halving of dz: {r1:.2f}, {r2:.2f} (third order needs ~8)")
