"""F17 / C09 (recorded, by design): MOSTM horizontal diffusivities vanish for axis-aligned wind."""
from _common import *
from bldfm.pbl_model import vertical_profiles
z, (u, v, Kx, Ky, Kz) = vertical_profiles(8, 10.0, (2.0, 0.0), ustar=0.4, closure="MOSTM")
done(bool(Kx.min() > 0 and Ky.min() > 0), f"MOSTM wind=(2,0): Kx.min()={Kx.min()}, Ky.min()={Ky.min()}")
