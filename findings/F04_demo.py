"""F4 / C10: analytic mode must accept several output levels."""
from _common import *
from bldfm.solver import steady_state_transport_solver as S
rng = np.random.default_rng(3)
q0 = rng.random((12, 12))
z, prof = const_profiles(10)
kw = dict(domain=(120.0, 120.0), modes=(12, 12), halo=0.0, precision="double", analytic=True)
try:
    _, c, f = S(q0, z, prof, levels=[2, 5], **kw)
    _, c2, f2 = S(q0, z, prof, levels=2, **kw)
    _, c5, f5 = S(q0, z, prof, levels=5, **kw)
    ok = np.allclose(f[0], f2) and np.allclose(f[1], f5) and np.allclose(c[0], c2) and np.allclose(c[1], c5)
    done(bool(ok), "analytic multi-level equals single-level requests")
except ValueError as e:
    done(False, f"analytic=True, levels=[2,5] raised ValueError: {e}")
