"""F7 / C15: a cached footprint request must not be served to a request that differs in levels / grid size / analytic / background."""
from _common import *
from bldfm.solver import steady_state_transport_solver as S
from bldfm.cache import GreensFunctionCache
cache = GreensFunctionCache("c")
z, prof = const_profiles(8)
base = dict(domain=(120.0, 120.0), modes=(12, 12), halo=0.0, precision="double", footprint=True, meas_pt=(30.0, 30.0))
bad = []
def same(a, b):
    return a[1].shape == b[1].shape and np.array_equal(a[1], b[1]) and np.array_equal(a[2], b[2]) and all(np.array_equal(x, y) for x, y in zip(a[0], b[0]))
# first request warms the cache
S(np.ones((12, 12)), z, prof, levels=8, cache=cache, **base)
variants = {
  "levels": dict(q=np.ones((12, 12)), levels=4),
  "grid size": dict(q=np.ones((24, 24)), levels=8),
  "analytic": dict(q=np.ones((12, 12)), levels=8, analytic=True),
  "background": dict(q=np.ones((12, 12)), levels=8, srf_bg_conc=3.0),
}
for name, v in variants.items():
    q = v.pop("q")
    ref = S(q, z, prof, **v, **base)
    got = S(q, z, prof, cache=cache, **v, **base)
    if not same(ref, got):
        bad.append(name)
done(not bad, f"stale cache entry served for requests differing in: {bad}")
