"""F11+F12 / C16: steps = common list length of any list field; wrong-length timestamps rejected even for scalar forcing."""
from _common import *
from bldfm.config_parser import MetConfig
m = MetConfig(ustar=0.4, wind_dir=[0.0, 90.0, 180.0])
ok1 = m.n_timesteps == 3
m2 = MetConfig(ustar=0.4, mol=[-50.0, 100.0])
ok2 = m2.n_timesteps == 2
try:
    m3 = MetConfig(ustar=0.4, timestamps=["a", "b"]); m3.validate(); ok3 = False
except ValueError:
    ok3 = True
done(ok1 and ok2 and ok3, f"wind_dir-only series steps={m.n_timesteps} (3), mol-only={m2.n_timesteps} (2), scalar+2 timestamps rejected={ok3}")
