"""F15+F16 / C18: tower metadata follows its tower; z0-forced results can be saved and keep z0."""
from _common import *
from bldfm.config_parser import parse_config_dict
from bldfm.io import save_footprints_to_netcdf, load_footprints_from_netcdf
def cfg(met):
    return parse_config_dict({"domain": dict(nx=4, ny=4, xmax=40., ymax=40., nz=4, ref_lat=50., ref_lon=11.),
      "towers": [dict(name="B", lat=50.1, lon=11.1, z_m=5.), dict(name="A", lat=50.2, lon=11.2, z_m=9.)], "met": met})
def res(name, params):
    X, Y = np.meshgrid(np.arange(4.) * 10, np.arange(4.) * 10)
    return [{"grid": (X, Y, np.full((4, 4), 5.)), "conc": np.zeros((4, 4)), "flx": np.ones((4, 4)), "tower_name": name,
             "tower_xy": (0., 0.), "timestamp": 0, "params": params}]
c = cfg(dict(ustar=0.4))
p = c.met.get_step(0)
save_footprints_to_netcdf({"A": res("A", p), "B": res("B", p)}, c, "o.nc")
ds = load_footprints_from_netcdf("o.nc")
ok1 = float(ds.tower_z.sel(tower="A")) == 9.0 and float(ds.tower_lat.sel(tower="B")) == 50.1
ds.close()
c2 = cfg(dict(z0=0.05))
p2 = c2.met.get_step(0)
try:
    save_footprints_to_netcdf({"B": res("B", p2), "A": res("A", p2)}, c2, "o2.nc")
    ds2 = load_footprints_from_netcdf("o2.nc")
    ok2 = "z0" in ds2 and float(np.asarray(ds2["z0"]).ravel()[0]) == 0.05
    msg2 = f"z0 persisted={ok2}"
    ds2.close()
except Exception as e:
    ok2 = False; msg2 = f"z0 forcing: save raised {type(e).__name__}: {e}"
done(ok1 and ok2, f"tower metadata follows name={ok1}; {msg2}")
