"""F5 / C11: odd grid + even modes must give a field of the input shape or raise, never a silently cropped field."""
from _common import *
from bldfm.solver import steady_state_transport_solver as S
q0 = np.ones((12, 15))
z, prof = const_profiles(6)
try:
    _, c, f = S(q0, z, prof, domain=(150.0, 120.0), levels=6, modes=(8, 8), halo=0.0,
                precision="double", footprint=True)
    done(f.shape == q0.shape, f"returned shape {f.shape} for input shape {q0.shape}")
except (ValueError, IndexError) as e:
    done(True, f"raised {type(e).__name__}: {e}")
