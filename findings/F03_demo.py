"""F3 / C10: k-th returned slice must be the solution at the k-th requested level, for any order."""
from _common import *
from bldfm.solver import steady_state_transport_solver as S
rng = np.random.default_rng(2)
q0 = rng.random((12, 12))
z, prof = const_profiles(10)
prof = (prof[0], prof[1], prof[2], prof[3], prof[4] * np.linspace(1, 2, 11))
kw = dict(domain=(120.0, 120.0), modes=(12, 12), halo=0.0, precision="double")
lv = [8, 2, 5]
(X, Y, Z), c, f = S(q0, z, prof, levels=lv, **kw)
ok = True
for k, l in enumerate(lv):
    _, c1, f1 = S(q0, z, prof, levels=l, **kw)
    ok &= np.allclose(f[k], f1, rtol=1e-12, atol=0) and np.allclose(c[k], c1, rtol=1e-12, atol=1e-14)
    ok &= np.allclose(Z[k], z[l])
done(bool(ok), f"levels={lv}: slices/heights match single-level requests: {bool(ok)}")
