"""Shared helpers for the finding demonstrations (run with /venv/bin/python from a scratch cwd)."""
import os, sys, tempfile
_scratch = tempfile.mkdtemp(prefix="bldfm_demo_")
os.chdir(_scratch)  # the solver writes fftw wisdom / logs / cache into the cwd
import numpy as np
import logging
logging.disable(logging.CRITICAL)

def const_profiles(nz, u=3.0, v=1.0, Kx=2.0, Ky=1.5, Kz=0.7, zm=10.0, z0=0.1):
    z = np.linspace(z0, zm, nz + 1)
    o = np.ones(nz + 1)
    return z, (u * o, v * o, Kx * o, Ky * o, Kz * o)

def done(ok, msg):
    import shutil
    os.chdir("/")
    shutil.rmtree(_scratch, ignore_errors=True)
    print(("PASS " if ok else "FAIL ") + msg)
    sys.stdout.flush()
    os._exit(0 if ok else 1)
