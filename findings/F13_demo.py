"""F13 / C19: integer arguments must give the same Kormann-Meixner footprint as floats."""
from _common import *
from bldfm.ffm_kormann_meixner import estimateFootprint
a = estimateFootprint(10, 0.1, 3.0, 0.4, -50, 1.0, [-100, 300, -100, 100], 10.0, [0.0, 0.0])[2]
b = estimateFootprint(10.0, 0.1, 3.0, 0.4, -50.0, 1.0, [-100, 300, -100, 100], 10.0, [0.0, 0.0])[2]
done(bool(np.allclose(a, b) and b.sum() > 0), f"sum int-args={np.nansum(a):.4f} float-args={b.sum():.4f}")
