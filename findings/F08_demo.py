"""F8 / C15: repeating an identical default-halo request must be served from the cache."""
from _common import *
from bldfm.solver import steady_state_transport_solver as S
from bldfm.cache import GreensFunctionCache
class C(GreensFunctionCache):
    hits = 0
    def get(self, *a, **k):
        r = super().get(*a, **k)
        if r is not None: C.hits += 1
        return r
cache = C("c")
z, prof = const_profiles(8)
kw = dict(domain=(120.0, 120.0), levels=8, modes=(12, 12), precision="double", footprint=True, cache=cache)
S(np.ones((12, 12)), z, prof, **kw)
S(np.ones((12, 12)), z, prof, **kw)
done(C.hits == 1, f"second identical request (halo=None): cache hits={C.hits}")
